"""C15 Wrapper selection is honoured and file lists match what was written (DESIGN.md 6/C15)."""
import json
import ast
import copy
import os
from checklib import REPO
from contracts import util_header

EXPECT_DIR = {"wrapc.py": {"c_fortran_dir"}, "wrapf.py": {"c_fortran_dir"}, "wrapp.py": {"python_dir", "out_dir"},
              "wrapl.py": {"lua_dir"}, "main.py": {"yaml_dir"}}
LISTS = {"wrapc.py": "cfiles", "wrapf.py": "ffiles"}


def parents_of(tree):
    par = {}
    for n in ast.walk(tree):
        for c in ast.iter_child_nodes(n):
            par[id(c)] = n
    return par


def guard_chain(node, par):
    """conditions (source text) of the enclosing ifs inside the function"""
    out = []
    cur = node
    while id(cur) in par and not isinstance(par[id(cur)], ast.FunctionDef):
        p = par[id(cur)]
        if isinstance(p, ast.If):
            branch = "then" if any(cur is x or any(cur is y for y in ast.walk(x)) for x in p.body) else "else"
            out.append((ast.unparse(p.test), branch))
        cur = p
    return tuple(out)


def file_sites(ctx):
    """U1 (structural part): every write goes to the directory designated for its kind; every C/Fortran file written
    is listed under the same guard with the same directory and name, and nothing is listed without being written."""
    for fn, dirs in sorted(EXPECT_DIR.items()):
        tree = ast.parse(open(os.path.join(REPO, "shroud", fn)).read())
        par = parents_of(tree)
        for func in [n for n in ast.walk(tree) if isinstance(n, ast.FunctionDef)]:
            writes, lists = [], []
            for n in ast.walk(func):
                if isinstance(n, ast.Call) and isinstance(n.func, ast.Attribute) and n.func.attr == "write_output_file":
                    writes.append(n)
                if isinstance(n, ast.Call) and isinstance(n.func, ast.Attribute) and n.func.attr == "append" \
                        and isinstance(n.func.value, ast.Attribute) and n.func.value.attr in ("cfiles", "ffiles"):
                    lists.append(n)
            if func.name == "write_output_file":
                continue
            for w in writes:
                d = w.args[1] if len(w.args) > 1 else None
                dname = d.attr if isinstance(d, ast.Attribute) else None
                ident = "C15/U1/%s:%s:%d:directory" % (fn, func.name, w.lineno)
                ctx.item(ident, dname in dirs, "writes into config.%s, the designated directory for %s is config.%s"
                         % (dname, fn, "/".join(sorted(dirs))), sample={"site": ident, "dir": dname})
            if fn in LISTS:
                ident = "C15/U1/%s:%s:listed==written" % (fn, func.name)
                if not writes and not lists:
                    continue
                ok = len(writes) == len(lists)
                why = "%d writes, %d list entries" % (len(writes), len(lists))
                for w, l in zip(writes, lists):
                    gw, gl = guard_chain(w, par), guard_chain(l, par)
                    arg = l.args[0] if l.args else None
                    same = isinstance(arg, ast.Call) and getattr(arg.func, "attr", "") == "join" and len(arg.args) == 2 \
                        and ast.unparse(arg.args[0]) == ast.unparse(w.args[1]) and ast.unparse(arg.args[1]) == ast.unparse(w.args[0])
                    if gw != gl:
                        ok, why = False, "list entry and write are under different conditions: %r vs %r" % (gl, gw)
                    elif not same:
                        ok, why = False, "listed path %s is not join(<write directory>, <write name>)" % ast.unparse(arg)[:80]
                    elif l.func.value.attr != LISTS[fn]:
                        ok, why = False, "%s file registered in %s" % (fn, l.func.value.attr)
                ctx.item(ident, ok, why, sample={"function": func.name, "writes": len(writes), "listed": len(lists)},
                         confirm=lambda: ctx.monitor("m_wrapsel", "search", 80, ctx.seed), shape=True)
    # the writer itself: the file opened is join(directory, fname) with both parameters as the callers passed them (the
    # callers list join(directory, fname): listed == written needs the same path)
    tree = ast.parse(open(os.path.join(REPO, "shroud", "util.py")).read())
    wof = [n for n in ast.walk(tree) if isinstance(n, ast.FunctionDef) and n.name == "write_output_file"]
    ok, why = False, "write_output_file not found"
    if wof:
        f = wof[0]
        opens = [n for n in ast.walk(f) if isinstance(n, ast.Call) and isinstance(n.func, ast.Name) and n.func.id == "open"]
        rebound = [ast.unparse(n)[:60] for n in ast.walk(f) if isinstance(n, (ast.Assign, ast.AugAssign)) and any(
            isinstance(t, ast.Name) and t.id in ("fname", "directory") for t in (n.targets if isinstance(n, ast.Assign) else [n.target]))]
        ok = len(opens) == 1 and ast.unparse(opens[0].args[0]) == "os.path.join(directory, fname)" and not rebound
        why = "opens %s; parameters re-bound: %s" % ([ast.unparse(o.args[0]) for o in opens], rebound)
    ctx.item("C15/U1/util.py:write_output_file:opens-join(directory,fname)", ok,
             "write_output_file must open os.path.join(directory, fname) with its parameters unchanged: " + why,
             confirm=lambda: ctx.monitor("m_wrapsel", "search", 80, ctx.seed), shape=True)
    # Python / Lua emitters never touch cfiles / ffiles
    for fn in ("wrapp.py", "wrapl.py"):
        src = open(os.path.join(REPO, "shroud", fn)).read()
        ctx.item("C15/U1/%s:no-cfiles-ffiles" % fn, ".cfiles" not in src and ".ffiles" not in src,
                 "%s refers to the C/Fortran file lists" % fn)


def gating(ctx):
    """U2: main_with_args calls an emitter's wrap_library only under its wrap.<lang> flag, in the order C, Fortran,
    (C utility), Python, Lua; the file lists are written from config.cfiles / config.ffiles."""
    tree = ast.parse(open(os.path.join(REPO, "shroud/main.py")).read())
    fn = [n for n in tree.body if isinstance(n, ast.FunctionDef) and n.name == "main_with_args"][0]
    par = parents_of(fn)
    want = {"Wrapf": "wrap.fortran", "Wrapp": "wrap.python", "Wrapl": "wrap.lua"}
    seen = []
    for n in ast.walk(fn):
        if isinstance(n, ast.Call) and isinstance(n.func, ast.Attribute) and n.func.attr == "wrap_library":
            g = guard_chain(n, par)
            recv = ast.unparse(n.func.value)
            lang = next((v for k, v in want.items() if k in recv), "wrap.c" if "clibrary" in recv else None)
            ok = lang is not None and (lang, "then") in g
            seen.append((n.lineno, lang))
            ctx.item("C15/U2/main_with_args:%s.wrap_library-gated" % recv.split("(")[0], ok,
                     "wrap_library of %s is not under `if %s`: guards %r" % (recv[:40], lang, g),
                     sample={"call": recv[:60], "guards": [x[0] for x in g]},
                     confirm=lambda: ctx.monitor("m_wrapsel", "search", 80, ctx.seed), shape=True)
    order = [l for _, l in sorted(seen)]
    ctx.item("C15/U2/main_with_args:emitter-order", order == ["wrap.c", "wrap.fortran", "wrap.python", "wrap.lua"],
             "emitters run in the order %r" % order, confirm=lambda: ctx.monitor("m_wrapsel", "search", 80, ctx.seed), shape=True)
    for lst in ("cfiles", "ffiles"):
        ok = False
        for n in ast.walk(fn):
            if isinstance(n, ast.If) and ast.unparse(n.test) == "args.%s" % lst:
                txt = ast.unparse(n)
                ok = "' '.join(config.%s)" % lst in txt and "open(args.%s, 'w')" % lst in txt
        ctx.item("C15/U1/main_with_args:--%s-content" % lst, ok, "--%s is not written as ' '.join(config.%s)" % (lst, lst),
                 confirm=lambda: ctx.monitor("m_wrapsel", "search", 80, ctx.seed), shape=True)


EMITTER_LANG = {"wrapc.py": "c", "wrapf.py": "fortran", "wrapp.py": "python", "wrapl.py": "lua"}


def declaration_gates(ctx):
    """U3: inside an emitter every loop over the classes / namespaces of a container handles an element only under
    that element's OWN flag for the emitter's language: the first conditional of the loop body is
    `if not V.wrap.<lang>: continue`, or the body is a single `if V.wrap.<lang>:`.  Only plain assignments may precede it."""
    for fn, lang in sorted(EMITTER_LANG.items()):
        tree = ast.parse(open(os.path.join(REPO, "shroud", fn)).read())
        for func in [n for n in ast.walk(tree) if isinstance(n, ast.FunctionDef)]:
            for loop in [n for n in ast.walk(func) if isinstance(n, ast.For)]:
                it = loop.iter
                if not (isinstance(it, ast.Attribute) and it.attr in ("classes", "namespaces") and isinstance(loop.target, ast.Name)):
                    continue
                v = loop.target.id
                want = "%s.wrap.%s" % (v, lang)
                ok, seen = False, None
                for st in loop.body:
                    if isinstance(st, ast.Assign) and not any(isinstance(x, ast.Call) for x in ast.walk(st)):
                        continue
                    if isinstance(st, ast.If):
                        seen = ast.unparse(st.test)
                        if seen == "not " + want and len(st.body) == 1 and isinstance(st.body[0], ast.Continue) and not st.orelse:
                            ok = True
                        elif seen == want and not st.orelse and st is loop.body[-1]:
                            ok = True
                    break
                ident = "C15/U3/%s:%s:for-%s-in-%s:own-flag" % (fn, func.name, v, it.attr)
                ctx.item(ident, ok, "the loop over %s at %s:%d does not start with the element's own gate `%s` (first test: %r)"
                         % (ast.unparse(it), fn, loop.lineno, want, seen),
                         sample={"site": "%s:%d" % (fn, loop.lineno), "gate": want},
                         confirm=lambda: ctx.monitor("m_wrapsel", "search", 80, ctx.seed), shape=True)


def noninterference(ctx):
    """U4: switching the Python / Lua wrapper must not change C / Fortran bytes.  Every READ of a Python or Lua wrap flag
    (X.wrap.python / X.wrap.lua, WrapFlags' own .python/.lua, options.wrap_python / wrap_lua) in a module that runs
    before or inside the C / Fortran emitters is one of:
      copy     WrapFlags bookkeeping in ast.py: the value only flows into another flag object's .python/.lua field
      gate     main_with_args: `if wrap.python:` / `if wrap.lua:` guarding the Python / Lua emitter
      struct   generate.py: `cls.wrap.python and options.PY_struct_arg == 'class'` adding a constructor used by the
               Python wrapper only (listed residual assumption; covered by the bounded monitor)
    anything else lets the Python / Lua switch steer a decision shared with the C / Fortran wrappers."""
    mods = [f for f in sorted(os.listdir(os.path.join(REPO, "shroud"))) if f.endswith(".py") and f not in ("wrapp.py", "wrapl.py")]
    for fn in mods:
        tree = ast.parse(open(os.path.join(REPO, "shroud", fn)).read())
        par = parents_of(tree)
        for n in ast.walk(tree):
            if not (isinstance(n, ast.Attribute) and isinstance(n.ctx, ast.Load)):
                continue
            flag = None
            if n.attr in ("python", "lua"):          # whatever name the flag object travels under
                flag = n.attr
            elif n.attr in ("wrap_python", "wrap_lua"):
                flag = n.attr[5:]
            if flag is None:
                continue
            # enclosing function / class
            cur, func, cls = n, None, None
            while id(cur) in par:
                cur = par[id(cur)]
                if isinstance(cur, ast.FunctionDef) and func is None:
                    func = cur
                if isinstance(cur, ast.ClassDef) and cls is None:
                    cls = cur
            stmt = n
            while id(stmt) in par and not isinstance(stmt, ast.stmt):
                stmt = par[id(stmt)]
            why = None
            if fn == "ast.py" and cls is not None and cls.name == "WrapFlags":
                # value flows only into self.<same flag>
                if isinstance(stmt, ast.Assign) and all(isinstance(t, ast.Attribute) and t.attr == flag and
                                                        isinstance(t.value, ast.Name) and t.value.id == "self" for t in stmt.targets):
                    why = "copy"
                elif isinstance(stmt, (ast.Return, ast.Expr)) or (func is not None and func.name in ("__repr__", "__str__")):
                    why = "copy"
            elif fn == "main.py" and func is not None and func.name == "main_with_args" and isinstance(stmt, ast.If) \
                    and ast.unparse(stmt.test) == "wrap.%s" % flag:
                why = "gate"
            elif fn == "generate.py" and isinstance(stmt, ast.If) and \
                    ast.unparse(stmt.test) == "cls.wrap.python and options.PY_struct_arg == 'class'":
                why = "struct"
            ident = "C15/U4/%s:%s:%d:reads-%s-flag" % (fn, (cls.name + "." if cls else "") + (func.name if func else "<module>"), n.lineno, flag)
            ctx.item(ident, why is not None,
                     "%s:%d reads the %s wrap flag (%s) outside the Python/Lua emitters: the switch can change what the "
                     "C and Fortran wrappers see" % (fn, n.lineno, flag, ast.unparse(stmt)[:80].split("\n")[0]),
                     sample={"site": "%s:%d" % (fn, n.lineno), "kind": why},
                     confirm=lambda: ctx.monitor("m_wrapsel", "search", 80, ctx.seed), shape=True)


def run(ctx):
    file_sites(ctx)
    noninterference(ctx)
    declaration_gates(ctx)
    gating(ctx)
    # "exactly the files written in THIS run": the registration lists are per-run objects
    from effects.history import fresh_per_run_lists, history_items
    fresh_per_run_lists(ctx, "C15")
    history_items(ctx, "C15", "the lists behind --cfiles/--ffiles hold only files of this run",
                  select=lambda root, v: root.startswith("main."))
    # deductive part: Wrapc.write_header lists exactly what it writes, in the C/Fortran directory (same unit as C05/U2)
    u = copy.copy(util_header.write_header)
    u.prop = "C15"
    from contracts import ast_wrapflags, main_dirs
    mon = ("m_wrapsel", lambda v: None, lambda nm: None, 60)
    units = [u] + ast_wrapflags.UNITS + main_dirs.UNITS
    ctx.pyvc(units, dict((x.name, mon) for x in units))
    ctx.trusted += [
        "structural items are computed over the real AST: write_output_file call sites, cfiles/ffiles append sites and "
        "their enclosing conditions; main_with_args gating",
        "util.write_output_file opens os.path.join(directory, fname) for writing (one open/write/close)",
    ]
    ctx.not_covered += [
        "that the extra constructor added for wrap_python struct classes leaves C/Fortran bytes unchanged (residual "
        "assumption of the design); per-declaration wrap flags inside the emitters; WrapFlags/PromoteWrap folds",
    ]
    # relations of this property on the upstream regression inputs (bounded, never proof)
    rc = ctx.monitor("m_corpus_rel", "psearch", 400, ctx.seed, 16, json.dumps({"rel": ['pylua', 'lists']}))
    ctx.bounded.append({"monitor": "m_corpus_rel", "inputs_tried": rc["tried"], "violation": rc["violation"],
                        "kind": 'every upstream regression input with wrap_python / wrap_lua flipped: C and Fortran files byte-identical'})
    if rc["violation"]:
        ctx.violation("bounded/m_corpus_rel", {"inputs": rc["inputs"], "observed": rc["violation"]}, True)
    if ctx.tier != "thorough":
        r = ctx.monitor("m_wrapsel", "search", 80, ctx.seed)
        ctx.bounded.append({"monitor": "m_wrapsel", "inputs_tried": r["tried"], "violation": r["violation"],
                            "kind": "all 12 admissible wrap flag combinations and directory assignments on a small library (classes, "
                                    "overloads, struct, return_this method): off => no files, on => every declaration present, "
                                    "lists == files written, Python/Lua switches leave C/Fortran bytes alone; per-declaration / "
                                    "per-type / per-namespace switch-off (flattened or not)"})
        if r["violation"]:
            ctx.violation("bounded/m_wrapsel", {"inputs": r["inputs"], "observed": r["violation"]}, True)
    if ctx.tier == "thorough":
        r = ctx.monitor("m_wrapsel", "search", 80, ctx.seed)
        ctx.bounded.append({"monitor": "m_wrapsel", "inputs_tried": r["tried"], "violation": r["violation"],
                            "kind": "all 12 admissible wrap flag combinations and two directory assignments on a small library"})
        if r["violation"]:
            ctx.violation("bounded/m_wrapsel", {"inputs": r["inputs"], "observed": r["violation"]}, True)
    return ctx.finish(level="proof", explanation="ghost 'listed == written' contract on Wrapc.write_header by SMT; directory, "
                      "pairing and gating obligations decided on the AST of every writer and of main_with_args")
