"""C11 Enumeration constants keep their C++ values in C and Fortran (DESIGN.md 6/C11)."""
from contracts import ast_enum as E

MONITORS = {"EnumNode.__init__[values]": ("m_enum", lambda v: None, lambda nm: None, 4000),
            "Wrapc.wrap_enum": ("m_enum_e2e", lambda v: None, lambda nm: None, 80),
            "Wrapf.wrap_enum": ("m_enum_e2e", lambda v: None, lambda nm: None, 80),
            "PrintNodeIdentifier.visit_Constant": ("m_enum_e2e", lambda v: None, lambda nm: None, 80)}


def run(ctx):
    units = list(E.UNITS)
    try:
        from contracts import todict_print as T
        units += T.UNITS
        MONITORS.update(dict((u.name, ("m_enum", lambda v: None, lambda nm: None, 4000)) for u in T.UNITS))
    except ImportError:
        pass
    # the value expression is parsed by ExprParser: grouping as in C++ (precedence climbing units, also under C09)
    import copy as _copy
    from contracts import declast_parser as P
    for u in P.EXPR_UNITS:
        if u.name in ("ExprParser.primary", "ExprParser.expression"):
            u2 = _copy.copy(u)
            u2.prop = "C11"
            units.append(u2)
            MONITORS[u2.name] = ("m_enum_e2e", lambda v: None, lambda nm: None, 120)
    ctx.pyvc(units, MONITORS)
    # the printers are functions of their argument: no module- or class-level state of todict survives from one value
    # expression (or one library) to the next
    from effects.history import history_items
    history_items(ctx, "C11", "a value expression is printed from its own enumeration's symbols, whatever was printed before",
                  select=lambda root, v: root.startswith("todict."), count=90)
    # A3 (identifier renaming commutes with evaluation) rests on PrintNodeIdentifier printing the same structure as the
    # verified PrintNode: it may override visit_Identifier only
    import ast as _ast
    import os as _os
    from checklib import REPO
    tree = _ast.parse(open(_os.path.join(REPO, "shroud/todict.py")).read())
    for n in tree.body:
        if isinstance(n, _ast.ClassDef) and n.name == "PrintNodeIdentifier":
            methods = sorted(m.name for m in n.body if isinstance(m, _ast.FunctionDef))
            for m in methods:
                # visit_Constant is under its own contract (PrintNodeIdentifier.visit_Constant: verbatim, octal -> decimal
                # for Fortran)
                ctx.item("C11/PrintNodeIdentifier/overrides:%s" % m, m in ("__init__", "visit_Identifier", "visit_Constant"),
                         "PrintNodeIdentifier overrides %s: the structural printer methods verified on PrintNode no longer apply "
                         "to enum value expressions" % m, sample={"class": "PrintNodeIdentifier", "method": m})
    ctx.trusted += [
        "oracles written from the standards: A1 decimal literal without leading zero evaluates to int(text); A1o a "
        "leading-zero literal is octal in C++; A2 EVAL(e + '+' + k) == EVAL(e) + k; A3 print_node_identifier renders an "
        "expression that evaluates to the parsed expression's value in the target language (printer contract, C09)",
        "pyvc, z3/cvc5; enum members as a symbolic list of records (name, optional value node)",
    ]
    ctx.not_covered += ["wrapp.wrap_enum / Lua constants"]
    # bounded stand-in at the property's observation point: g++ on original + generated header, gfortran on the module
    n = 120 if ctx.tier == "quick" else 100000
    r = ctx.monitor("m_enum_e2e", "psearch", n, ctx.seed, 16)
    ctx.bounded.append({"monitor": "m_enum_e2e", "inputs_tried": r["tried"], "violation": r["violation"],
                        "kind": "bounded: enumerations over 29 value forms (signed/octal literals, references to earlier members, "
                                "unary signs next to * and /, parenthesised and mixed expressions, explicit 0 after a larger "
                                "value, scoped enums, C and C++ libraries): g++ prints the original and the generated header's "
                                "enumerators, gfortran the module's parameters",
                        "bound": "%d libraries" % r["tried"]})
    if r["violation"]:
        ctx.violation("bounded/m_enum_e2e", {"inputs": r["inputs"], "observed": r["violation"]}, True)
    if ctx.tier == "thorough":
        r = ctx.monitor("m_enum", "search", 20000, ctx.seed)
        ctx.bounded.append({"monitor": "m_enum", "inputs_tried": r["tried"], "violation": r["violation"],
                            "kind": "bounded: all enums of up to 3 members over 13 value forms against an independent C/Fortran evaluator"})
        if r["violation"]:
            ctx.violation("bounded/m_enum", {"inputs": r["inputs"], "observed": r["violation"]}, True)
    return ctx.finish()
