"""C06 Wrapped objects and returned memory are released exactly once (DESIGN.md 6/C06) -- generator-level core."""
from contracts import wrapc_capsule as W

MONITORS = dict((u.name, ("m_capsule", lambda v: None, lambda nm: None, 20000)) for u in W.UNITS)
# the slices of the generator that pick the table key and emit the switch: end-to-end text check as bounded stand-in
for _u in W.UNITS:
    if _u.name in ("compute_idtor", "write_capsule_code") or _u.name.startswith(("compute_idtor", "write_capsule_code")):
        MONITORS[_u.name] = ("m_idtor", lambda v: None, lambda nm: None, 100)


def run(ctx):
    from checklib import REPO
    from tables import invariants as I
    ctx.pyvc(W.UNITS, MONITORS)
    tabs = I.load_tables(REPO)
    I.release_pairing(ctx, tabs)
    I.cfi_twin_keeps_release(ctx, tabs)
    from cfront import helpers as H
    H.run(ctx, tabs, names=["ShroudStrAlloc", "ShroudStrFree", "ShroudStrArrayAlloc", "ShroudStrArrayFree", "copy_string", "copy_array"])
    ctx.trusted.append("mini-C front end for the allocation helpers: every block allocated is large enough for every write, "
                       "freed exactly once (free of a live malloc block), int ranges checked; malloc assumed to succeed")
    ctx.trusted += [
        "pyvc, z3 5.1, cvc5 1.0.3; str(int) injective on naturals (z3 str.from_int)",
        "util.wformat / append_format / append_format_cmds: trusted contracts (result abstract, may raise SystemExit)",
        "capsule_code values are (index string, immutable list of lines); ghost inverse map pos",
        "typemap cache precondition of find_idtor: a non-zero Typemap.idtor is the index registered under its cxx_type",
    ]
    ctx.not_covered += [
        "run-time behaviour of the emitted release function under a memory checker; any sequence of wrapper calls",
        "wrapp.py (CPython reference counts and capsule destructors) beyond the two single-ownership clauses of C06/T5 "
        "(list conversion helpers; member setters): no run of generated extension modules",
        "the scan for a wrapped destructor in compute_idtor (slice starts after it)",
    ]
    I.capsule_dummy_intent(ctx, tabs)
    I.copy_array_capacity(ctx, tabs)
    I.python_ownership(ctx, tabs)
    r0 = ctx.monitor("m_idtor", "search", 100, ctx.seed)
    ctx.bounded.append({"monitor": "m_idtor", "inputs_tried": r0["tried"], "violation": r0["violation"],
                        "kind": "bounded: generated text of 6 class libraries (same class name in two namespaces, nested namespaces, "
                                "several classes with owner(caller)/by-value results, F_CFI, class templates): every `new T` whose "
                                "capsule gets index N is released by `case N` of the memory destructor as a T; labels distinct",
                        "bound": "%d libraries" % r0["tried"]})
    if r0["violation"]:
        ctx.violation("bounded/m_idtor", {"inputs": r0["inputs"], "observed": r0["violation"]}, True)
    # known finding replayed on the real code (end-to-end, LeakSanitizer)
    import json
    for k in ctx.known:
        if k["status"] == "open" and k.get("e2e"):
            try:
                res = ctx.monitor("m_e2e", "replay", json.dumps(k["e2e"]))
            except Exception as e:
                res = {"violation": None, "error": str(e)}
            ctx.extra.setdefault("known_finding_replays", {})[k["id"]] = res.get("violation") or res.get("error")
    # bounded stand-in (never counted as proved): upstream's compiled regression on freshly generated wrappers under
    # ASan/UBSan (use after free, double free, invalid free, out-of-bounds in wrappers and helpers)
    r = ctx.monitor("m_e2e", "psearch", 100, ctx.seed, 16)
    ctx.bounded.append({"monitor": "m_e2e", "inputs_tried": r["tried"], "violation": r["violation"],
                        "kind": "bounded: the 22 Fortran test programs of regression/run built against wrappers generated "
                                "now (C/C++ with -fsanitize=address,undefined, Fortran with -fbounds-check) and run; leak "
                                "reports are not used (the upstream test programs do not delete what they construct)",
                        "bound": "%d test programs" % r["tried"]})
    if r["violation"]:
        ctx.violation("bounded/m_e2e", {"inputs": r["inputs"], "observed": r["violation"]}, True)
    # destructor indices are cached on typemaps (ntypemap.idtor) and in the capsule tables: both must be per run
    from effects.history import history_items
    from effects.roots import global_memos
    from checklib import REPO as _REPO
    history_items(ctx, "C06", "destructor indices and capsule tables are assigned by the run that emits the release switch",
                  select=lambda root, v: root.startswith(("wrapc.", "wrapp.", "typemap.")))
    gm = global_memos(_REPO)
    for b in gm:
        ctx.item("C06/history/global-memo:%s:%s" % (b["file"], b["function"]), False, "%s:%d %s" % (b["file"], b["line"], b["what"]))
    ctx.item("C06/history/no-process-lifetime-memo", not gm,
             "no function tests and assigns a `global` name: typemaps (which cache their destructor index) are rebuilt per run")
    if ctx.tier == "thorough":
        r = ctx.monitor("m_capsule", "search", 60000, ctx.seed)
        ctx.bounded.append({"monitor": "m_capsule", "inputs_tried": r["tried"], "violation": r["violation"],
                            "kind": "bounded: all op sequences up to length 4 over 4 names, then seeded random"})
        if r["violation"]:
            ctx.violation("bounded/m_capsule", {"inputs": r["inputs"], "observed": r["violation"]}, True)
    return ctx.finish()
