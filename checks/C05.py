"""C05 Every accepted input yields sources that compile and link -- necessary conditions only (DESIGN.md 6/C05)."""
from checklib import REPO
from tables import invariants as I


def run(ctx):
    tabs = I.load_tables(REPO)
    I.helper_closure(ctx, tabs)
    from contracts import util_header
    ctx.pyvc(util_header.UNITS, {})
    ctx.extra["exhaustive"] = True
    ctx.extra["table_rows"] = dict((l, len(t["rows"])) for l, t in tabs.items())
    ctx.trusted += [
        "tables are built by the real modules (statements.update_statements_for_language, whelpers.add_all_helpers) "
        "under /venv/bin/python; rows resolved through base/mixin by the real update_stmt_tree",
        "calls are found by the pattern <Shroud identifier>( in the row's code templates; a helper 'defines' a function "
        "when its source has a definition header for it",
    ]
    ctx.not_covered += [
        "acceptance of whole emitted files by gcc/g++/gfortran (declaration order, types, module dependencies, "
        "Python/Lua boilerplate): not a property of any function's return value that a contract here can state",
        "py_statements / lua_statements helper closure",
    ]
    ctx.trusted += ["pyvc, z3/cvc5; lines appended by callees of Wrapc.write_header (Header.write_headers, _create_splicer, "
                    "enum/struct/prototype lists) are assumed balanced; cpp_if is the conditional without its '#'"]
    return ctx.finish(level="proof", explanation="necessary conditions only: helper-closure invariants over the tables "
                      "(exhaustive evaluation) and preprocessor-conditional / include-guard balance of the header writers (SMT)")
