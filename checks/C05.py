"""C05 Every accepted input yields sources that compile and link -- necessary conditions only (DESIGN.md 6/C05)."""
from checklib import REPO
from tables import invariants as I


def run(ctx):
    tabs = I.load_tables(REPO)
    I.helper_closure(ctx, tabs)
    ctx.extra["exhaustive"] = True
    ctx.extra["table_rows"] = dict((l, len(t["rows"])) for l, t in tabs.items())
    ctx.trusted += [
        "tables are built by the real modules (statements.update_statements_for_language, whelpers.add_all_helpers) "
        "under /venv/bin/python; rows resolved through base/mixin by the real update_stmt_tree",
        "calls are found by the pattern <Shroud identifier>( in the row's code templates; a helper 'defines' a function "
        "when its source has a definition header for it",
    ]
    ctx.not_covered += [
        "acceptance of whole emitted files by gcc/g++/gfortran (declaration order, types, module dependencies, "
        "Python/Lua boilerplate): not a property of any function's return value that a contract here can state",
        "py_statements / lua_statements helper closure",
    ]
    return ctx.finish(level="other", explanation="necessary conditions only: helper-closure invariants over the statement and helper tables, decided by exhaustive evaluation on the tables the real modules build")
