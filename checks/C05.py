"""C05 Every accepted input yields sources that compile and link -- necessary conditions only (DESIGN.md 6/C05)."""
import json
from checklib import REPO
from tables import invariants as I


def run(ctx):
    tabs = I.load_tables(REPO)
    I.helper_closure(ctx, tabs)
    I.libc_header_closure(ctx, tabs)
    I.fortran_type_closure(ctx, tabs)
    from contracts import util_header
    ctx.pyvc(util_header.UNITS, {})
    # relational contract shared with C04: the kind named in an actual argument is the kind registered for USE
    from contracts import fc_args
    import copy
    units = []
    for u in fc_args.UNITS:
        if u.name in ("Wrapf.build_arg_list_impl", "Wrapf.build_arg_list_interface[plain]", "Wrapf.dump_abstract_interfaces[result]"):
            u2 = copy.copy(u)
            u2.prop = "C05"
            units.append(u2)
    from contracts import wrapf_helpers, wrapp_cppif
    units += wrapf_helpers.UNITS + wrapp_cppif.UNITS + fc_args.UNITS_C05
    skip = [k["skip"] for k in ctx.known if k["status"] == "open" and k.get("skip")]
    for k in ctx.known:
        if k["status"] == "open":
            skip += [list(x) for x in k.get("skips", [])]
    mon = ("m_compile", lambda v: None, lambda nm: {"skip": skip}, 400)
    ctx.pyvc(units, dict((u.name, mon) for u in units))
    # bounded stand-in (never counted as proved): the compilers' verdict on what the real generator writes
    r = ctx.monitor("m_compile", "psearch", 100000, ctx.seed, 16, json.dumps({"skip": skip}))
    ctx.bounded.append({"monitor": "m_compile", "inputs_tried": r["tried"], "violation": r["violation"],
                        "kind": "bounded: real generator on the regression corpus (plain, F_CFI, language c/c++): every Fortran "
                                "module passes gfortran -fsyntax-only in dependency order; on ~80 declaration patterns of the "
                                "user guide, each wrapped alone in a library (c and c++, plain and F_CFI): generated C/C++ "
                                "sources and headers (on their own, from C and C++) pass gcc/g++ -fsyntax-only against a "
                                "synthesised user header, Fortran modules pass gfortran; linking, Python and Lua not covered",
                        "bound": "%d libraries" % r["tried"]})
    if r["violation"]:
        ctx.violation("bounded/m_compile", {"inputs": r["inputs"], "observed": r["violation"]}, True)
    # bounded stand-in (never counted as proved): upstream's compiled regression on freshly generated wrappers
    r2 = ctx.monitor("m_e2e", "psearch", 100, ctx.seed, 16)
    ctx.bounded.append({"monitor": "m_e2e", "inputs_tried": r2["tried"], "violation": r2["violation"],
                        "kind": "bounded: the 22 Fortran test programs of regression/run compiled and linked against wrappers "
                                "generated now (gcc/g++ with ASan+UBSan, gfortran -fbounds-check) and run to their FRUIT verdict",
                        "bound": "%d test programs" % r2["tried"]})
    if r2["violation"]:
        ctx.violation("bounded/m_e2e", {"inputs": r2["inputs"], "observed": r2["violation"]}, True)
    for k in ctx.known:
        if k["status"] == "open" and (k.get("skip") or "skips" in k):
            res = ctx.monitor("m_compile", "replay", json.dumps(k["witness"]))
            if res.get("violation"):
                ctx.report_known(k)
    ctx.extra["exhaustive"] = True
    ctx.extra["table_rows"] = dict((l, len(t["rows"])) for l, t in tabs.items())
    ctx.trusted += [
        "tables are built by the real modules (statements.update_statements_for_language, whelpers.add_all_helpers) "
        "under /venv/bin/python; rows resolved through base/mixin by the real update_stmt_tree",
        "calls are found by the pattern <Shroud identifier>( in the row's code templates; a helper 'defines' a function "
        "when its source has a definition header for it",
    ]
    ctx.not_covered += [
        "acceptance of whole emitted files by gcc/g++/gfortran (declaration order, types, module dependencies, "
        "Python/Lua boilerplate): not a property of any function's return value that a contract here can state",
        "py_statements / lua_statements helper closure",
    ]
    ctx.trusted += ["pyvc, z3/cvc5; lines appended by callees of Wrapc.write_header (Header.write_headers, _create_splicer, "
                    "enum/struct/prototype lists) are assumed balanced; cpp_if is the conditional without its '#'"]
    return ctx.finish(level="proof", explanation="necessary conditions only: helper-closure invariants over the tables "
                      "(exhaustive evaluation) and preprocessor-conditional / include-guard balance of the header writers (SMT)")
