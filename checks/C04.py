"""C04 Fortran bind(C) interfaces agree with the C functions and structs they bind to (DESIGN.md 6/C04)."""
from checklib import REPO
from tables import invariants as I


def run(ctx):
    tabs = I.load_tables(REPO)
    I.fortran_c_agreement(ctx, tabs)
    units = []
    try:
        from contracts import wrap_args
        units = wrap_args.UNITS
    except ImportError:
        pass
    if units:
        ctx.pyvc(units, {})
    ctx.extra["exhaustive"] = True
    ctx.trusted += [
        "interoperability oracle written from ISO/IEC 1539-1 clause 18 (kind table, VALUE <-> by-value, pointer <-> "
        "by-reference / type(C_PTR)); it does not look at how shroud pairs things",
        "tables built by the real modules under /venv/bin/python; small parsers for C struct / Fortran derived type / "
        "#define / parameter / bind(C) interface texts",
    ]
    ctx.not_covered += [
        "function-result type agreement beyond Declaration.bind_c; user-supplied fstatements / C_prototype / F_C_arguments",
        "that the emitted text is what the compilers see after write_lines (layout covered by C13)",
    ]
    lvl = "proof" if units else "other"
    return ctx.finish(level=lvl, explanation="closed invariants over the constant tables (paired declarations, kind table, "
                      "paired struct/derived type, type-code tables, helper interfaces) decided by exhaustive evaluation on "
                      "the tables the real modules build; relational contracts on the argument-list builders by SMT")
