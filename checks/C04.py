"""C04 Fortran bind(C) interfaces agree with the C functions and structs they bind to (DESIGN.md 6/C04)."""
from checklib import REPO
from tables import invariants as I


def descriptor_table(ctx, fc_args, tabs):
    """The descriptor table the three argument-list builders are proved against (contracts/fc_args.KINDS) pairs a C
    parameter with a Fortran dummy per buf_arg kind; each pair is judged by the interoperability oracle.  Also the
    preconditions the units take from the statement tables."""
    import string
    for k, d in sorted(fc_args.KINDS.items()):
        ctype = d["c_type"].strip("'")
        ftype = d["f_type"]
        ident = "C04/U1/descriptor[%s]" % k
        if d["c_ptr"]:
            # struct passed by address <-> derived type by reference (no VALUE); the struct/type pair itself is T3
            ok = (not d["f_value"]) and ftype.startswith("'type('") and ctype.startswith("fmt.C_")
            ctx.item(ident, ok, "pointer to struct %s must pair with type(...) without VALUE: %r" % (ctype, d))
        else:
            fdecl = "%s%s, intent(IN) :: x" % (ftype.strip("'"), ", value" if d["f_value"] else "")
            good, why = I.interop("%s {c_var}" % ctype, fdecl)
            ctx.item(ident, good, "C %r vs Fortran %r: %s" % (ctype + " x", fdecl, why),
                     sample={"kind": k, "c": ctype + " x", "f": fdecl})
            kind = I.ISO_KIND.get(ctype)
            ctx.item(ident + ".use", d["use"] == kind, "USE registers %r, the dummy's kind is %r" % (d["use"], kind))
            ctx.item(ident + ".actual", ("kind=%s)" % kind) in d["call"], "actual argument %s is not of kind %s" % (d["call"], kind))
    allowed = {"c_var", "f_type", "f_intent", "f_c_dimension"}
    for lang, t in sorted(tabs.items()):
        for rname, row in sorted(t["rows"].items()):
            for i, text in enumerate(row.get("f_arg_decl") or []):
                try:
                    fields = set(f for _, f, _, _ in string.Formatter().parse(text) if f is not None)
                    ok = fields <= allowed
                except ValueError:
                    fields, ok = None, False
                ctx.item("C04/T1/%s/%s.f_arg_decl[%d]:format-fields" % (lang, rname, i), ok,
                         "build_arg_list_interface formats f_arg_decl with c_var, f_type, f_intent, f_c_dimension only; "
                         "%r uses %r" % (text, fields))


def builder_call_sites(ctx):
    """U1's corollary needs the three builders to be handed the SAME list: at every call site the buf_args argument is the
    C statement row's list (result: .buf_args / .buf_extra; argument: .buf_args or the default ["arg"]), in the same
    sequence in wrapc.wrap_function, wrapf.wrap_function_interface and wrapf.wrap_function_impl, and both classes have
    the same default."""
    import ast
    import os
    import re
    spec = {("wrapc.py", "Wrapc", "wrap_function"): ("build_proto_list", 3),
            ("wrapf.py", "Wrapf", "wrap_function_interface"): ("build_arg_list_interface", 5),
            ("wrapf.py", "Wrapf", "wrap_function_impl"): ("build_arg_list_impl", 6)}
    want = ["R.buf_args", "A.buf_args or self._default_buf_args", "R.buf_extra"]
    defaults = {}
    for (fn, cls, meth), (callee, pos) in sorted(spec.items()):
        tree = ast.parse(open(os.path.join(REPO, "shroud", fn)).read())
        c = [n for n in tree.body if isinstance(n, ast.ClassDef) and n.name == cls][0]
        for m in c.body:
            if isinstance(m, ast.Assign) and any(isinstance(t, ast.Name) and t.id == "_default_buf_args" for t in m.targets):
                defaults[cls] = ast.unparse(m.value)
        f = [m for m in c.body if isinstance(m, ast.FunctionDef) and m.name == meth][0]
        calls = sorted((n for n in ast.walk(f) if isinstance(n, ast.Call) and isinstance(n.func, ast.Attribute)
                        and n.func.attr == callee), key=lambda n: n.lineno)
        got = []
        for n in calls:
            e = ast.unparse(n.args[pos]) if len(n.args) > pos else "?"
            e = re.sub(r'\b(c_)?result_blk\b', "R", e)
            e = re.sub(r'\b(c_)?intent_blk\b', "A", e)
            got.append(e)
        ctx.item("C04/U1/call-sites:%s.%s" % (cls, meth), got == want,
                 "%s.%s hands %r to %s; the three builders agree only when each gets the C row's own list %r" % (
                     cls, meth, got, callee, want), sample={"function": "%s.%s" % (cls, meth), "buf_args_arguments": got})
    ctx.item("C04/U1/call-sites:default-buf-args", len(set(defaults.values())) == 1 and len(defaults) == 2,
             "Wrapc and Wrapf must use the same default buf_args: %r" % defaults)


def run(ctx):
    tabs = I.load_tables(REPO)
    I.fortran_c_agreement(ctx, tabs)
    I.lookup_path_agreement(ctx, REPO)
    from contracts import fc_args
    descriptor_table(ctx, fc_args, tabs)
    builder_call_sites(ctx)
    units = list(fc_args.UNITS)
    # the abstract interface of a function-pointer argument is written from the attributes of its parameters (bind_c:
    # VALUE iff attrs['value']): they get the same defaulting as top-level arguments
    import copy as _copy
    from contracts import generate_attrs as _G
    fp = _copy.copy(_G.check_arg_attrs_fp)
    fp.prop = "C04"
    units.append(fp)
    # "every shared constant table emitted for Fortran has the same values as its C counterpart": enumerations are such
    # tables (the units of C11: per member, the Fortran parameter and the C enumerator evaluate to the same value)
    from contracts import ast_enum as _E
    enum_mons = {}
    for u in (_E.enum_values, _E.wrapc_enum, _E.wrapf_enum):
        u2 = _copy.copy(u)
        u2.prop = "C04"
        units.append(u2)
        enum_mons[u2.name] = ("m_enum_e2e", lambda v: None, lambda nm: None, 120)
    mon = ("m_fcagree", lambda v: None, lambda nm: None, 80)
    mons = dict((u.name, mon) for u in units)
    mons.update(enum_mons)
    ctx.pyvc(units, mons)
    # bounded stand-in at the property's own observation point (never counted as proved): gfortran's reading of every
    # bind(C) interface against the generated C prototypes, regression corpus + synthetic declaration family
    n = 1500 if ctx.tier == "quick" else 100000
    r = ctx.monitor("m_fcagree", "psearch", n, ctx.seed, 16)
    ctx.bounded.append({"monitor": "m_fcagree", "inputs_tried": r["tried"], "violation": r["violation"],
                        "kind": "bounded: real generator on the regression corpus (plain, F_CFI, language c/c++) and on a "
                                "synthetic family (type x indirection x intent x deref x dimension/rank, char/string/vector "
                                "arguments and results, classes and structs by value/pointer/reference, random pairs); "
                                "`gfortran -fc-prototypes` of each generated module compared with the generated C header: "
                                "parameter count, order, scalar kind and size, pointer depth, struct layout",
                        "bound": "%d libraries" % r["tried"]})
    if r["violation"]:
        ctx.violation("bounded/m_fcagree", {"inputs": r["inputs"], "observed": r["violation"]}, True)
    import json
    for k in ctx.known:
        if k["status"] == "open" and k.get("replay"):
            res = ctx.monitor(k["replay"]["monitor"], "replay", json.dumps(k["replay"]["inputs"]))
            if res.get("violation"):
                ctx.report_known(k)
    ctx.extra["exhaustive"] = True
    ctx.trusted += [
        "interoperability oracle written from ISO/IEC 1539-1 clause 18 (kind table, VALUE <-> by-value, pointer <-> "
        "by-reference / type(C_PTR)); it does not look at how shroud pairs things",
        "tables built by the real modules under /venv/bin/python; small parsers for C struct / Fortran derived type / "
        "#define / parameter / bind(C) interface texts",
    ]
    ctx.not_covered += [
        "function-result type agreement beyond Declaration.bind_c; user-supplied fstatements / C_prototype / F_C_arguments",
        "that the emitted text is what the compilers see after write_lines (layout covered by C13)",
    ]
    ctx.trusted += [
        "C04/U1 callee contracts: Declaration.gen_arg_as_c / bind_c return the C / Fortran declaration of the argument "
        "(abstract strings; their agreement is C09 territory and NOT proved), set_f_module / update_f_module register "
        "what they are given (bodies not under contract), util.Scope(parent) reads fall through to the parent",
        "C04/U1 preconditions taken from other components: one c_arg_decl / f_arg_decl per arg_decl row and format "
        "fields of f_arg_decl (both checked here as T1 items), metaattrs['intent'] set and buffer-name attributes "
        "strings or None (set by generate.py; not proved)",
    ]
    # the helper tables carry the bind(C) interfaces of the helper functions: what a run emits must not depend on what an
    # earlier run in the same process registered (a reused entry names the EARLIER library's C function)
    from effects.history import history_items
    history_items(ctx, "C04", "helper interfaces (bind(C) names) are built by the run that emits them",
                  select=lambda root, v: root.startswith("whelpers."))
    lvl = "proof"
    return ctx.finish(level=lvl, explanation="closed invariants over the constant tables (paired declarations, kind table, "
                      "paired struct/derived type, type-code tables, helper interfaces) decided by exhaustive evaluation on "
                      "the tables the real modules build; relational contracts on the argument-list builders by SMT")
