"""C13 Line wrapping never alters code and respects the line limit (DESIGN.md 6/C13)."""
from contracts.util_write import write_continue, write_lines


def wc_inputs(v):
    line = v.get("line")
    if not isinstance(line, str) or not line:
        return None
    return {"line": line, "spaces": v.get("spaces") if isinstance(v.get("spaces"), str) else " ",
            "indent": max(0, v.get("self_indent") or 0) if isinstance(v.get("self_indent"), int) else 0,
            "linelen": v.get("self_linelen") if isinstance(v.get("self_linelen"), int) else 10,
            "cont": v.get("self_cont") if isinstance(v.get("self_cont"), str) else "&"}


def wl_inputs(v):
    return None   # lists are not scalars in the model: go straight to the bounded search


MONITORS = {"write_continue": ("m_write_continue", wc_inputs), "write_lines": ("m_write_lines_e2e", wl_inputs)}


def writer_wiring(ctx):
    """call-site side of write_continue's contract: the limit it respects is self.linelen and the marker it appends is
    self.cont -- each emitter binds them to the option / marker of ITS language in its constructor:
    Wrapf: F_line_length, ' &';  Wrapc / Wrapp / Wrapl: C_line_length, ''."""
    import ast
    import os
    from checklib import REPO
    want = {"wrapf.py": ("Wrapf", "F_line_length", " &"), "wrapc.py": ("Wrapc", "C_line_length", ""),
            "wrapp.py": ("Wrapp", "C_line_length", ""), "wrapl.py": ("Wrapl", "C_line_length", "")}
    confirm = lambda: ctx.monitor("m_linelen_e2e", "search", 6, ctx.seed)
    for fn, (cls, opt, cont) in sorted(want.items()):
        tree = ast.parse(open(os.path.join(REPO, "shroud", fn)).read())
        c = [n for n in tree.body if isinstance(n, ast.ClassDef) and n.name == cls]
        init = [m for m in (c[0].body if c else []) if isinstance(m, ast.FunctionDef) and m.name == "__init__"]
        got_len, got_cont = None, None
        for st in (init[0].body if init else []):
            if isinstance(st, ast.Assign) and len(st.targets) == 1 and isinstance(st.targets[0], ast.Attribute) \
                    and isinstance(st.targets[0].value, ast.Name) and st.targets[0].value.id == "self":
                if st.targets[0].attr == "linelen":
                    got_len = ast.unparse(st.value)
                if st.targets[0].attr == "cont" and isinstance(st.value, ast.Constant):
                    got_cont = st.value.value
        ctx.item("C13/W1/%s.__init__:linelen" % cls, got_len is not None and got_len.endswith("options." + opt),
                 "%s.__init__ binds self.linelen to %r, the limit for this language is options.%s" % (cls, got_len, opt),
                 sample={"class": cls, "linelen": got_len}, confirm=confirm, shape=True)
        ctx.item("C13/W1/%s.__init__:cont" % cls, got_cont == cont,
                 "%s.__init__ binds self.cont to %r, the continuation marker of this language is %r" % (cls, got_cont, cont),
                 sample={"class": cls, "cont": got_cont}, confirm=confirm, shape=True)


def run(ctx):
    ctx.pyvc([write_continue, write_lines], MONITORS)
    writer_wiring(ctx)
    import json as _json
    rc = ctx.monitor("m_corpus_rel", "psearch", 400, ctx.seed, 16, _json.dumps({"rel": ["linelen"]}))
    ctx.bounded.append({"monitor": "m_corpus_rel", "inputs_tried": rc["tried"], "violation": rc["violation"],
                        "kind": "every upstream regression input with F_line_length/C_line_length 60/60 and 100/50: same files, same text "
                                "once whitespace and Fortran continuation markers are removed"})
    if rc["violation"]:
        ctx.violation("bounded/m_corpus_rel", {"inputs": rc["inputs"], "observed": rc["violation"]}, True)
    r0 = ctx.monitor("m_linelen_e2e", "search", 6, ctx.seed)
    ctx.bounded.append({"monitor": "m_linelen_e2e", "inputs_tried": r0["tried"], "violation": r0["violation"],
                        "kind": "bounded: the driver with F_line_length != C_line_length: every argument-list line of the Fortran files "
                                "fits F_line_length, of the C files C_line_length"})
    if r0["violation"]:
        ctx.violation("bounded/m_linelen_e2e", {"inputs": r0["inputs"], "observed": r0["violation"]}, True)
    ctx.trusted += [
        "pyvc (Python AST -> path VCs; SMT-LIB via z3 API), z3 5.1, cvc5 1.0.3",
        "Python str as sequences of code points; ints mathematical (exact for Python)",
        "lstrip: s == wsprefix(s)+lstrip(s), prefix all whitespace, result does not start with whitespace; the "
        "whitespace set itself is abstract",
        "file object: write(s) appends s to the ghost sequence out(fp)",
        "fold DEL (delete TAB/FF) given by nil/snoc equations, instantiated only at program points",
        "callee abstraction in write_lines: write_continue(payload) at indent i contributes the token WC(payload,i,spaces)",
    ]
    ctx.not_covered += [
        "'no non-comment Fortran line exceeds 132 columns at default settings' additionally needs every part the "
        "emitters produce to fit (placement of \\t in wrapf/wrapc templates): not decided here",
        "write_lines raises IndexError for a piece made only of directive characters ('-', '+', '+-', '@'); "
        "outside the property's domain, stated as the unit's raises clause",
    ]
    if ctx.tier == "thorough":
        for mon in ("m_write_continue", "m_write_lines", "m_write_lines_e2e"):
            r = ctx.monitor(mon, "search", 200000, ctx.seed)
            ctx.bounded.append({"monitor": mon, "kind": "bounded run-time contract on the real function (CPython cross-check)",
                                "inputs_tried": r["tried"], "distinct": r.get("distinct"), "violation": r["violation"],
                                "bound": "all lines over a 6-8 letter alphabet up to length 5, then seeded random lines"})
            if r["violation"]:
                ctx.violation("bounded/" + mon, {"inputs": r["inputs"], "observed": r["violation"]}, True)
    return ctx.finish()
