"""C13 Line wrapping never alters code and respects the line limit (DESIGN.md 6/C13)."""
from contracts.util_write import write_continue, write_lines


def wc_inputs(v):
    line = v.get("line")
    if not isinstance(line, str) or not line:
        return None
    return {"line": line, "spaces": v.get("spaces") if isinstance(v.get("spaces"), str) else " ",
            "indent": max(0, v.get("self_indent") or 0) if isinstance(v.get("self_indent"), int) else 0,
            "linelen": v.get("self_linelen") if isinstance(v.get("self_linelen"), int) else 10,
            "cont": v.get("self_cont") if isinstance(v.get("self_cont"), str) else "&"}


def wl_inputs(v):
    return None   # lists are not scalars in the model: go straight to the bounded search


MONITORS = {"write_continue": ("m_write_continue", wc_inputs), "write_lines": ("m_write_lines_e2e", wl_inputs)}


def run(ctx):
    ctx.pyvc([write_continue, write_lines], MONITORS)
    ctx.trusted += [
        "pyvc (Python AST -> path VCs; SMT-LIB via z3 API), z3 5.1, cvc5 1.0.3",
        "Python str as sequences of code points; ints mathematical (exact for Python)",
        "lstrip: s == wsprefix(s)+lstrip(s), prefix all whitespace, result does not start with whitespace; the "
        "whitespace set itself is abstract",
        "file object: write(s) appends s to the ghost sequence out(fp)",
        "fold DEL (delete TAB/FF) given by nil/snoc equations, instantiated only at program points",
        "callee abstraction in write_lines: write_continue(payload) at indent i contributes the token WC(payload,i,spaces)",
    ]
    ctx.not_covered += [
        "'no non-comment Fortran line exceeds 132 columns at default settings' additionally needs every part the "
        "emitters produce to fit (placement of \\t in wrapf/wrapc templates): not decided here",
        "write_lines raises IndexError for a piece made only of directive characters ('-', '+', '+-', '@'); "
        "outside the property's domain, stated as the unit's raises clause",
    ]
    if ctx.tier == "thorough":
        for mon in ("m_write_continue", "m_write_lines", "m_write_lines_e2e"):
            r = ctx.monitor(mon, "search", 200000, ctx.seed)
            ctx.bounded.append({"monitor": mon, "kind": "bounded run-time contract on the real function (CPython cross-check)",
                                "inputs_tried": r["tried"], "distinct": r.get("distinct"), "violation": r["violation"],
                                "bound": "all lines over a 6-8 letter alphabet up to length 5, then seeded random lines"})
            if r["violation"]:
                ctx.violation("bounded/" + mon, {"inputs": r["inputs"], "observed": r["violation"]}, True)
    return ctx.finish()
