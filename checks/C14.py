"""C14 Equivalent ways of stating the same customisation give identical output (DESIGN.md 6/C14)."""
import json
import ast
import os
from checklib import REPO
from contracts import main_opts


def hint(nm):
    if "/assert" in nm:
        return {"must_contain": ["--option"]}
    return None


def create_wrapper_call_site(ctx):
    """call-site precondition of main_with_args: every attribute of `args` it reads is one the caller sets.
    main() sets them through argparse (dest names); create_wrapper sets them by assignment.  Also: the value
    create_wrapper assigns equals the command line's default, except for its own parameters."""
    src = open(os.path.join(REPO, "shroud/main.py")).read()
    tree = ast.parse(src)
    fns = dict((n.name, n) for n in tree.body if isinstance(n, ast.FunctionDef))
    reads = set()
    for n in ast.walk(fns["main_with_args"]):
        if isinstance(n, ast.Attribute) and isinstance(n.value, ast.Name) and n.value.id == "args" and isinstance(n.ctx, ast.Load):
            reads.add(n.attr)
    sets = {}
    for n in ast.walk(fns["create_wrapper"]):
        if isinstance(n, ast.Assign):
            for t in n.targets:
                if isinstance(t, ast.Attribute) and isinstance(t.value, ast.Name) and t.value.id == "args":
                    sets.setdefault(t.attr, []).append(n.value)
    defaults = {}
    for n in ast.walk(fns["main"]):
        if isinstance(n, ast.Call) and getattr(n.func, "attr", "") == "add_argument":
            flags = [a.value for a in n.args if isinstance(a, ast.Constant)]
            kw = dict((k.arg, k.value) for k in n.keywords)
            dest = kw["dest"].value if "dest" in kw else flags[0].lstrip("-").replace("-", "_")
            if dest == "version":
                continue
            dflt = ast.literal_eval(kw["default"]) if "default" in kw else ([] if False else None)
            defaults[dest] = dflt
    params = set(a.arg for a in fns["create_wrapper"].args.args)
    for attr in sorted(reads):
        ctx.item("C14/create_wrapper/call-requires:args.%s" % attr, attr in sets,
                 "main_with_args reads args.%s but create_wrapper does not set it" % attr,
                 sample={"attribute": attr, "read_by": "main_with_args", "set_by_create_wrapper": attr in sets})
        ctx.item("C14/main/call-requires:args.%s" % attr, attr in defaults,
                 "main_with_args reads args.%s but the argument parser defines no such destination" % attr)
    for attr, vals in sorted(sets.items()):
        if attr not in defaults:
            continue
        for v in vals:
            if isinstance(v, ast.Name) and v.id in params or isinstance(v, ast.List) and v.elts and isinstance(v.elts[0], ast.Name):
                continue      # one of create_wrapper's own parameters
            used = sorted(set(x.id for x in ast.walk(v) if isinstance(x, ast.Name) and x.id in params))
            if used:
                # the command line hands the text of --outdir / --path / the file names to main_with_args as typed:
                # create_wrapper must pass its parameters through, not a transformation of them
                ctx.item("C14/create_wrapper/pass-through:args.%s" % attr, False,
                         "create_wrapper sets args.%s = %s: its parameter %s is transformed, the command line passes the same "
                         "text unchanged" % (attr, ast.unparse(v)[:70], "/".join(used)),
                         confirm=lambda: ctx.monitor("m_options", "search", 40, ctx.seed), shape=True)
                continue
            try:
                val = ast.literal_eval(v)
            except Exception:
                continue
            ctx.item("C14/create_wrapper/default:args.%s" % attr, val == defaults[attr],
                     "create_wrapper sets args.%s = %r, the command line default is %r" % (attr, val, defaults[attr]))


def command_line_last(ctx):
    """the command line wins over the files: main_with_args puts --language (and the --option dictionary) into the
    accumulated input AFTER the loop that reads and merges the YAML files"""
    src = open(os.path.join(REPO, "shroud/main.py")).read()
    fn = [n for n in ast.parse(src).body if isinstance(n, ast.FunctionDef) and n.name == "main_with_args"][0]
    loop_end, lang_line, opt_line = None, None, None
    for st in fn.body:
        if isinstance(st, ast.For) and ast.unparse(st.iter) == "args.filename":
            loop_end = st.end_lineno
        for n in ast.walk(st):
            if isinstance(n, ast.Assign) and ast.unparse(n.targets[0]).replace('"', "'") == "allinput['language']" \
                    and ast.unparse(n.value) == "args.language":
                lang_line = n.lineno
            if isinstance(n, ast.If) and ast.unparse(n.test) == "args.option" and opt_line is None:
                opt_line = n.lineno
    confirm = lambda: ctx.monitor("m_options", "search", 40, ctx.seed)
    ctx.item("C14/main_with_args:--language-after-files", None not in (loop_end, lang_line) and lang_line > loop_end,
             "allinput['language'] = args.language (line %r) must follow the loop that merges the YAML files (ends at line %r): "
             "otherwise the file overrides the command line" % (lang_line, loop_end), confirm=confirm, shape=True)
    ctx.item("C14/main_with_args:--option-after-files", None not in (loop_end, opt_line) and opt_line > loop_end,
             "the --option merge (line %r) must follow the loop that merges the YAML files (ends at line %r)" % (opt_line, loop_end),
             confirm=confirm, shape=True)


def run(ctx):
    command_line_last(ctx)
    unit, ints = main_opts.make_unit(REPO)
    mons = {unit.name: ("m_options", lambda v: None, hint, 40)}
    ctx.pyvc([unit], mons)
    create_wrapper_call_site(ctx)
    from contracts import ast_nodes
    ctx.pyvc(ast_nodes.UNITS, dict((u.name, ("m_equiv", lambda v: None, lambda nm: {"must_contain": ["inline attributes"]}, 220))
                                   for u in ast_nodes.UNITS))
    ast_nodes.scope_wiring_items(ctx, REPO)
    # a wrap option set on one declaration deep inside nested namespaces equals the option set on its containers: the
    # promotion of wrap flags (units shared with C15) visits every child container
    import copy as _copy
    from contracts import ast_wrapflags as _W
    pw = []
    for u in _W.UNITS:
        if u.name.startswith(("PromoteWrap", "WrapFlags.accumulate")):
            u2 = _copy.copy(u)
            u2.prop = "C14"
            pw.append(u2)
    ctx.pyvc(pw, dict((u.name, ("m_wrapsel", lambda v: None, lambda nm: None, 80)) for u in pw))
    # instantiating a class template keeps every enclosing scope (blocks) of its functions: ClassNode.clone, clone_scope_chain
    from contracts import ast_clone
    eqv = ("m_equiv", lambda v: None, lambda nm: None, 260)
    ctx.pyvc(ast_clone.UNITS, dict((u.name, eqv) for u in ast_clone.UNITS))
    from contracts import util_scope
    scm = ("m_scope", lambda v: None, lambda nm: None, 3000)
    ctx.pyvc(util_scope.UNITS, dict((u.name, scm) for u in util_scope.UNITS))
    # create_wrapper is documented for build scripts: called any number of times in one process, each call must equal a
    # fresh command line -- every process-global the run depends on is reset (or never mutated) per run
    from effects.history import history_items
    history_items(ctx, "C14", "create_wrapper called after earlier runs in the same process equals a fresh command line")
    ctx.extra["integer_options"] = ints
    ctx.trusted += [
        "pyvc, z3/cvc5; the YAML 'options' mapping abstracted (class Tree); int()/isdigit() vocabulary",
        "integer options = keywords of LibraryNode.default_options whose default is an int literal (read from the source)",
        "call-site check of create_wrapper/main against main_with_args is an attribute-name computation over the AST",
        "history independence of create_wrapper: effect judgement of effects/roots.py over all module-/class-level mutable "
        "roots (name-based alias closure; same assumptions as C07)",
    ]
    ctx.trusted += [
        "util.Scope: every method is a verified unit (contracts/util_scope.py: __init__, __getattr__, __getitem__, __contains__, get, "
        "setdefault, update, inlocal, delattrs, clone, reparent, get_parent) against the view 'chain of dictionaries, first one "
        "that has the key'; ASSUMED there: Python's attribute protocol for an instance (getattr = instance dictionary, then "
        "__getattr__; setattr = store into the instance dictionary; hasattr = getattr does not raise AttributeError), keys are "
        "not names of attributes of the class Scope and do not start with _Scope__, no subclass, the parent's view is not "
        "changed by a method of the child (the parent object is outside every modifies clause: frame obligation), iteration "
        "over a dictionary enumerates every key",
        "the clone units of contracts/ast_clone.py use Scope.clone / reparent / get_parent through the abstraction 'signature of "
        "the lookup chain' (same content and parent => same signature), which restates the verified contracts of those "
        "methods; FunctionNode.clone by assumed contract (new node, fmtdict/options are clones)",
    ]
    ctx.not_covered += [
        "ClassNode.clone outside the loop body (copy.copy, new.fmtdict/new.options clones, new.functions = newfcns)",
        "identity of two whole runs (relation between executions of the whole generator): bounded monitor m_options only",
        "the per-argument attrs merge; the wiring check is per assignment statement (fresh child scope of the container's scope); "
        "Scope._to_dict / _to_full_dict / trace / __repr__ (JSON dump and debugging only)",
    ]
    # relations of this property on the upstream regression inputs (bounded, never proof)
    rc = ctx.monitor("m_corpus_rel", "psearch", 400, ctx.seed, 16, json.dumps({"rel": ['option', 'block']}))
    ctx.bounded.append({"monitor": "m_corpus_rel", "inputs_tried": rc["tried"], "violation": rc["violation"],
                        "kind": 'every upstream regression input: --option X=v equals options: {X: v} written into the file (F_force_wrapper, C_line_length)'})
    if rc["violation"]:
        ctx.violation("bounded/m_corpus_rel", {"inputs": rc["inputs"], "observed": rc["violation"]}, True)
    if ctx.tier != "thorough":
        rs = ctx.monitor("m_scope", "search", 2000, ctx.seed)
        ctx.bounded.append({"monitor": "m_scope", "inputs_tried": rs["tried"], "violation": rs["violation"],
                            "kind": "programs over four scopes (root <- mid <- leaf / sibling): views of all scopes against a chain of dictionaries"})
        if rs["violation"]:
            ctx.violation("bounded/m_scope", {"inputs": rs["inputs"], "observed": rs["violation"]}, True)
        r0 = ctx.monitor("m_options", "search", 40, ctx.seed)
        ctx.bounded.append({"monitor": "m_options", "inputs_tried": r0["tried"], "violation": r0["violation"],
                            "kind": "two-run relation on a small library: YAML option vs --option, --language, create_wrapper vs "
                                    "command line (absolute and relative output directory)"})
        if r0["violation"]:
            ctx.violation("bounded/m_options", {"inputs": r0["inputs"], "observed": r0["violation"]}, True)
        r = ctx.monitor("m_equiv", "search", 260, ctx.seed)
        ctx.bounded.append({"monitor": "m_equiv", "inputs_tried": r["tried"], "violation": r["violation"],
                            "kind": "two-run relations, deterministic core: empty blocks / container vs each function in every "
                                    "container kind, inline attributes vs attrs/fattrs"})
        if r["violation"]:
            ctx.violation("bounded/m_equiv", {"inputs": r["inputs"], "observed": r["violation"]}, True)
    if ctx.tier == "thorough":
        # self-validation of the Scope units: every breaking edit of a scratch copy of util.py must be refuted (or leave the
        # subset), every behaviour-preserving edit must stay proved; a wrong verdict is a checker error, never a verdict
        from selftest import mutants_scope as _ms
        from selftest.mutate import run_mutant as _run_mutant
        wrong = []
        for m_ in _ms.M:
            res_ = _run_mutant(m_, util_scope.UNITS, repo=REPO)
            refuted_ = [r_.unit.name for r_ in res_ if r_.status == "refuted"]
            undec_ = [r_.unit.name for r_ in res_ if r_.status not in ("ok", "refuted")]
            good_ = (not refuted_ and not undec_) if m_.expect == "ok" else bool(refuted_) if m_.expect == "refuted" \
                else bool(refuted_ or undec_)
            if not good_:
                wrong.append(m_.mid)
        ctx.extra["self_validation_scope_mutants"] = {"mutants": len(_ms.M), "wrong_verdicts": wrong}
        if wrong:
            ctx.errors.append("self-validation: Scope mutants with a wrong verdict: %s" % wrong)
        r = ctx.monitor("m_scope", "search", 20000, ctx.seed)
        ctx.bounded.append({"monitor": "m_scope", "inputs_tried": r["tried"], "violation": r["violation"],
                            "kind": "programs over four scopes (root <- mid <- leaf / sibling): views of all scopes against a chain of dictionaries"})
        if r["violation"]:
            ctx.violation("bounded/m_scope", {"inputs": r["inputs"], "observed": r["violation"]}, True)
        r = ctx.monitor("m_equiv", "search", 400, ctx.seed)
        ctx.bounded.append({"monitor": "m_equiv", "inputs_tried": r["tried"], "violation": r["violation"],
                            "kind": "two-run relations on generated libraries: empty blocks, option/format on a container vs on "
                                    "each function (library, namespace, class, class template), inline attributes vs attrs/fattrs"})
        if r["violation"]:
            ctx.violation("bounded/m_equiv", {"inputs": r["inputs"], "observed": r["violation"]}, True)
        r = ctx.monitor("m_options", "search", 40, ctx.seed)
        ctx.bounded.append({"monitor": "m_options", "inputs_tried": r["tried"], "violation": r["violation"],
                            "kind": "two-run relation on a small library: YAML option vs --option, --language, create_wrapper vs command line"})
        if r["violation"]:
            ctx.violation("bounded/m_options", {"inputs": r["inputs"], "observed": r["violation"]}, True)
    return ctx.finish()
