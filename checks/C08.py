"""C08 Every callable C++ signature gets exactly one, distinct wrapper name (DESIGN.md 6/C08) -- leaf mechanisms."""
import json
from contracts.util_uncamel import un_camel


def uc_inputs(v):
    t = v.get("text")
    return {"text": t} if isinstance(t, str) and t else None


MONITORS = {"un_camel": ("m_uncamel", uc_inputs)}


def run(ctx):
    from contracts import generate_suffix
    MONITORS[generate_suffix.suffix_step.name] = ("m_names", lambda v: None, lambda nm: {"skip_known": True}, 1500)
    # the underscore name of a function is un_camel of its API name, unaltered (unit shared with C14)
    import copy as _copy
    from contracts import ast_nodes as _N
    fu = _copy.copy(_N.UNITS[0])
    fu.prop = "C08"
    MONITORS[fu.name] = ("m_names_e2e", lambda v: None, lambda nm: None, 80)
    ctx.pyvc([un_camel, generate_suffix.suffix_step, fu], MONITORS)
    # bounded stand-in for the global uniqueness claim (never counted as proved)
    n = 1500 if ctx.tier == "quick" else 30000
    r = ctx.monitor("m_names", "search", n, ctx.seed, json.dumps({"skip_known": True}))
    ctx.bounded.append({"monitor": "m_names", "inputs_tried": r["tried"], "violation": r["violation"],
                        "kind": "bounded: real generate_functions on all combinations of 2-3 of 8 signatures (overloads, trailing "
                                "defaults) x explicit/defaulted function_suffix, then seeded random groups; names pairwise distinct",
                        "bound": "%d candidates" % n})
    if r["violation"]:
        ctx.violation("bounded/m_names", {"inputs": r["inputs"], "observed": r["violation"]}, True)
    # file-level names (never counted as proved): no C wrapper defined twice, no Fortran entity declared twice
    rc = ctx.monitor("m_corpus_rel", "psearch", 400, ctx.seed, 16, json.dumps({"rel": ["names"]}))
    ctx.bounded.append({"monitor": "m_corpus_rel", "inputs_tried": rc["tried"], "violation": rc["violation"],
                        "kind": "every upstream regression input: no C wrapper function defined twice in a file, no Fortran "
                                "procedure declared twice in a module"})
    if rc["violation"]:
        ctx.violation("bounded/m_corpus_rel", {"inputs": rc["inputs"], "observed": rc["violation"]}, True)
    from effects import expansion as _E
    from checklib import REPO as _REPO
    _conf = lambda: ctx.monitor("m_names_e2e", "search", 80, ctx.seed)
    _E.input_lists_not_consumed(ctx, "C08", _REPO, _conf)
    _E.grouping_ignores_selection(ctx, "C08", _REPO, _conf)
    _E.variant_inherits_format(ctx, "C08", _REPO, _conf)
    r2 = ctx.monitor("m_names_e2e", "search", 80, ctx.seed)
    ctx.bounded.append({"monitor": "m_names_e2e", "inputs_tried": r2["tried"], "violation": r2["violation"],
                        "kind": "bounded: generated files of 6 libraries x 2 prefixes (overloads with fortran_generic variants, "
                                "namespaces flattened two deep, static vs instance members, same method names in two classes, "
                                "function and class templates, bufferify variants next to overloads): no duplicate C definition, "
                                "Fortran procedure, type-bound name or generic specific; g++/gfortran accept",
                        "bound": "%d libraries" % r2["tried"]})
    if r2["violation"]:
        ctx.violation("bounded/m_names_e2e", {"inputs": r2["inputs"], "observed": r2["violation"]}, True)
    for k in ctx.known:
        if k["status"] == "open" and k.get("replay"):
            import sys as _sys, os as _os
            _sys.path.insert(0, _os.path.join(_os.path.dirname(_os.path.dirname(_os.path.abspath(__file__))), "monitors"))
            import m_names_e2e as _M
            res = ctx.monitor("m_names_e2e", "replay", json.dumps(getattr(_M, k["replay"]["known"])))
            if res.get("violation"):
                ctx.report_known(k)
        elif k["status"] == "open":
            w = dict(k["witness"])
            res = ctx.monitor("m_names", "replay", json.dumps(w))
            if res.get("violation"):
                ctx.report_known(k)
    ctx.trusted += ["pyvc, z3/cvc5; per-character case functions axiomatised for ASCII (precondition: ASCII identifier)",
                    "folds DU / LOW / NOUP instantiated at program points; JOINPRE frame lemma for ''.join(list)"]
    ctx.not_covered += [
        "global uniqueness over overloads x defaults x templates x generics: only the numbering step of "
        "define_function_suffix is under contract (position in the overload set -> suffix); which functions form a set, the "
        "clones made for default arguments / templates / generics and the name templates: bounded monitors only",
        "name templates (AstNode.eval_template / Namify), dump_generic_interfaces, Python/Lua method tables",
    ]
    return ctx.finish()
