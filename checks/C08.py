"""C08 Every callable C++ signature gets exactly one, distinct wrapper name (DESIGN.md 6/C08) -- leaf mechanisms."""
import json
from contracts.util_uncamel import un_camel


def uc_inputs(v):
    t = v.get("text")
    return {"text": t} if isinstance(t, str) and t else None


MONITORS = {"un_camel": ("m_uncamel", uc_inputs)}


def run(ctx):
    ctx.pyvc([un_camel], MONITORS)
    # bounded stand-in for the global uniqueness claim (never counted as proved)
    n = 1500 if ctx.tier == "quick" else 30000
    r = ctx.monitor("m_names", "search", n, ctx.seed, json.dumps({"skip_known": True}))
    ctx.bounded.append({"monitor": "m_names", "inputs_tried": r["tried"], "violation": r["violation"],
                        "kind": "bounded: real generate_functions on all combinations of 2-3 of 8 signatures (overloads, trailing "
                                "defaults) x explicit/defaulted function_suffix, then seeded random groups; names pairwise distinct",
                        "bound": "%d candidates" % n})
    if r["violation"]:
        ctx.violation("bounded/m_names", {"inputs": r["inputs"], "observed": r["violation"]}, True)
    for k in ctx.known:
        if k["status"] == "open":
            w = dict(k["witness"])
            res = ctx.monitor("m_names", "replay", json.dumps(w))
            if res.get("violation"):
                ctx.report_known(k)
    ctx.trusted += ["pyvc, z3/cvc5; per-character case functions axiomatised for ASCII (precondition: ASCII identifier)",
                    "folds DU / LOW / NOUP instantiated at program points; JOINPRE frame lemma for ''.join(list)"]
    ctx.not_covered += [
        "global uniqueness over overloads x defaults x templates x generics (define_function_suffix and its helpers clone "
        "FunctionNodes and mutate Scopes): bounded monitor only",
        "name templates (AstNode.eval_template / Namify), dump_generic_interfaces, Python/Lua method tables",
    ]
    return ctx.finish()
