"""C12 User splicer code is carried into the named blocks unchanged (DESIGN.md 6/C12)."""
import json
from contracts.util_splicer import create_splicer, get_splicers
from contracts.util_write import write_continue_plain, user_line_identity, user_line_identity_carved


def gs_inputs(v):
    return None


def ul_inputs(v):
    if not isinstance(v.get("uline"), str):
        return None
    ind = v.get("self_indent")
    return {"line": v["uline"], "indent": max(0, min(ind if isinstance(ind, int) else 1, 5)), "linelen": 72}


MONITORS = {"_create_splicer": ("m_splicer_emit", gs_inputs), "get_splicers": ("m_get_splicers", gs_inputs), "user_line_identity": ("m_user_line", ul_inputs),
            "user_line_identity_carved": ("m_user_line", ul_inputs), "write_continue_plain": ("m_user_line", lambda v: (
                {"line": v["line"], "indent": 1, "linelen": 5} if isinstance(v.get("line"), str) else None))}


def yaml_splicer_files(ctx):
    """C12/S1 (judgement on the real source): a splicer file listed in the YAML under a language key (c, f, py, lua) is
    read into the store of THAT key: main_with_args loops over the keys, takes splicers.setdefault(<key>, {}) and hands
    exactly that dict to splicer.get_splicers for every file of the key."""
    import ast
    import os
    from checklib import REPO
    tree = ast.parse(open(os.path.join(REPO, "shroud/main.py")).read())
    f = [n for n in tree.body if isinstance(n, ast.FunctionDef) and n.name == "main_with_args"][0]
    ok, why = False, "no loop over allinput['splicer'] found"
    for loop in ast.walk(f):
        if isinstance(loop, ast.For) and "allinput['splicer']" in ast.unparse(loop.iter).replace('"', "'") \
                and isinstance(loop.target, ast.Name):
            key = loop.target.id
            store = None
            for n in ast.walk(loop):
                if isinstance(n, ast.Assign) and len(n.targets) == 1 and isinstance(n.targets[0], ast.Name) \
                        and ast.unparse(n.value).replace('"', "'") == "splicers.setdefault(%s, {})" % key:
                    store = n.targets[0].id
            calls = [n for n in ast.walk(loop) if isinstance(n, ast.Call) and ast.unparse(n.func).startswith("splicer.")]
            why = "key loop variable %r, store variable %r, reader calls %r" % (key, store, [ast.unparse(c) for c in calls])
            ok = store is not None and len(calls) >= 1 and all(
                ast.unparse(c.func) == "splicer.get_splicers" and len(c.args) == 2 and ast.unparse(c.args[1]) == store for c in calls)
    ctx.item("C12/S1/main_with_args:yaml-splicer-files-by-key", ok,
             "files listed under `splicer: <key>:` must be read into splicers[<key>] whatever their names: " + why,
             confirm=lambda: ctx.monitor("m_splicer_e2e", "search", 40, ctx.seed), shape=True)


def run(ctx):
    from contracts import wrapf_splicer
    mons = dict(MONITORS)
    mons.update(dict((u.name, ("m_splicer_e2e", gs_inputs, lambda nm: None, 40)) for u in wrapf_splicer.UNITS))
    from contracts import wrapc_declsplicer
    mons[wrapc_declsplicer.decl_splicer.name] = ("m_splicer_e2e", lambda v: None, lambda nm: None, 40)
    ctx.pyvc([create_splicer, get_splicers, write_continue_plain, user_line_identity_carved, user_line_identity] + wrapf_splicer.UNITS
             + wrapc_declsplicer.UNITS, mons)
    yaml_splicer_files(ctx)
    # bounded stand-ins (never counted as proved): reader on whole-block orders; end-to-end round trip of every block
    rc = ctx.monitor("m_corpus_rel", "psearch", 400, ctx.seed, 16, json.dumps({"rel": ["feedback"]}))
    ctx.bounded.append({"monitor": "m_corpus_rel", "inputs_tried": rc["tried"], "violation": rc["violation"],
                        "kind": "every upstream regression input: each generated C / Fortran file (up to 3 per input) fed back as a "
                                "splicer file reproduces itself, up to leading indentation and trailing blanks"})
    if rc["violation"]:
        ctx.violation("bounded/m_corpus_rel", {"inputs": rc["inputs"], "observed": rc["violation"]}, True)
    for mon, n, kind in (("m_get_splicers", 1500, "real get_splicers against a reference reader: every order of 2-3 blocks over "
                                                 "6 dotted tags, all files of <= 3 marker/text lines, random files"),
                         ("m_splicer_e2e", 40, "3 libraries (nested namespaces, classes with overloads and defaults, a C "
                                               "library) x splicer files on the command line / listed in the YAML by key / every "
                                               "block through splicer_code / blocks alternating between file and splicer_code / "
                                               "every block in both (splicer_code wins): one unique line per block of every "
                                               "generated C and Fortran file comes back in exactly that block; one namespace scope "
                                               "per module file; declaration-level splicers (c, c_buf, f) replace exactly their own "
                                               "block, every other block keeps its default")):
        r = ctx.monitor(mon, "search", n, ctx.seed)
        ctx.bounded.append({"monitor": mon, "kind": "bounded: " + kind, "inputs_tried": r["tried"], "violation": r["violation"]})
        if r["violation"]:
            k = ctx.known_open("bounded/" + mon + ":" + str(r["violation"]))
            if k:
                ctx.report_known(k)
            else:
                ctx.violation("bounded/" + mon, {"inputs": r["inputs"], "observed": r["violation"]}, True)
    ctx.trusted += [
        "pyvc, z3 5.1, cvc5 1.0.3; Python str/list semantics of DESIGN 2.1",
        "nested-dict store of get_splicers as class Tree with a ghost dotted path per node (setdefault(k) -> path + k + '.'); "
        "str.split reconstruction s == pieces joined by the separator (prefix function SPLITPRE)",
        "str.split(): first field / last dotted piece as uninterpreted functions; rstrip as in C13",
        "open()/readlines(): file content is an arbitrary list of strings",
    ]
    ctx.not_covered += [
        "correspondence between the reader's path for tag a.b.c and the emitters' splicer_stack after _push_splicer: "
        "end-to-end bounded monitor only (m_splicer_e2e); Wrapf.wrap_namespace proved for 0-2 nested namespaces",
        "precedence of command-line splicer files / YAML splicer / splicer_code / declaration-level splicers: bounded "
        "monitor m_splicer_e2e only (main.update_splicers and the node.splicer lookups of the emitters have no contract)",
        "ast.listify",
    ]
    if ctx.tier == "thorough":
        for mon in ("m_get_splicers", "m_user_line", "m_splicer_emit"):
            r = ctx.monitor(mon, "search", 100000, ctx.seed)
            ctx.bounded.append({"monitor": mon, "kind": "bounded run-time contract on the real function",
                                "inputs_tried": r["tried"], "distinct": r.get("distinct"), "violation": r["violation"]})
            if r["violation"]:
                k = ctx.known_open("bounded/" + mon + ":" + str(r["violation"]))
                if k:
                    ctx.report_known(k)
                else:
                    ctx.violation("bounded/" + mon, {"inputs": r["inputs"], "observed": r["violation"]}, True)
    return ctx.finish()
