"""C12 User splicer code is carried into the named blocks unchanged (DESIGN.md 6/C12)."""
from contracts.util_splicer import create_splicer, get_splicers
from contracts.util_write import write_continue_plain, user_line_identity, user_line_identity_carved


def gs_inputs(v):
    return None


def ul_inputs(v):
    if not isinstance(v.get("uline"), str):
        return None
    ind = v.get("self_indent")
    return {"line": v["uline"], "indent": max(0, min(ind if isinstance(ind, int) else 1, 5)), "linelen": 72}


MONITORS = {"_create_splicer": ("m_splicer_emit", gs_inputs), "get_splicers": ("m_get_splicers", gs_inputs), "user_line_identity": ("m_user_line", ul_inputs),
            "user_line_identity_carved": ("m_user_line", ul_inputs), "write_continue_plain": ("m_user_line", lambda v: (
                {"line": v["line"], "indent": 1, "linelen": 5} if isinstance(v.get("line"), str) else None))}


def run(ctx):
    ctx.pyvc([create_splicer, get_splicers, write_continue_plain, user_line_identity_carved, user_line_identity], MONITORS)
    ctx.trusted += [
        "pyvc, z3 5.1, cvc5 1.0.3; Python str/list semantics of DESIGN 2.1",
        "nested-dict navigation of get_splicers abstracted (class Tree): the store event is specified, the tree shape is not",
        "str.split(): first field / last dotted piece as uninterpreted functions; rstrip as in C13",
        "open()/readlines(): file content is an arbitrary list of strings",
    ]
    ctx.not_covered += [
        "correspondence between the reader's nested-dict path for tag a.b.c and the emitters' splicer_stack after "
        "_push_splicer (tree-shaped heap property): bounded monitor only",
        "precedence of command-line splicer files / YAML splicer / splicer_code in main_with_args",
        "ast.listify",
    ]
    if ctx.tier == "thorough":
        for mon in ("m_get_splicers", "m_user_line", "m_splicer_emit"):
            r = ctx.monitor(mon, "search", 100000, ctx.seed)
            ctx.bounded.append({"monitor": mon, "kind": "bounded run-time contract on the real function",
                                "inputs_tried": r["tried"], "distinct": r.get("distinct"), "violation": r["violation"]})
            if r["violation"]:
                k = ctx.known_open("bounded/" + mon + ":" + str(r["violation"]))
                if k:
                    ctx.report_known(k)
                else:
                    ctx.violation("bounded/" + mon, {"inputs": r["inputs"], "observed": r["violation"]}, True)
    return ctx.finish()
