"""C10 Character data crosses the language boundary by the documented rules (DESIGN.md 6/C10)."""
from checklib import REPO
from tables import invariants as I


def run(ctx):
    tabs = I.load_tables(REPO)
    I.char_call_roles(ctx, tabs)
    from contracts import wrapf_char
    ctx.pyvc(wrapf_char.UNITS, {})
    units = False
    try:
        from cfront import helpers as H
        H.run(ctx, tabs, names=["ShroudLenTrim", "ShroudStrCopy", "ShroudStrBlankFill", "ShroudStrAlloc", "ShroudStrArrayAlloc", "copy_string"])
        units = True
        ctx.trusted += [
            "mini-C front end (cfront/): parser for the helper subset, symbolic execution with (block, offset) pointers, "
            "int range CHECKED on every arithmetic result, size_t 64 bit (LP64), libc contracts for memcpy/memset/strlen/"
            "malloc/free, malloc assumed to succeed; z3 with explicit instantiation of quantified hypotheses",
            "the verified text is the c_source / cxx_source string of whelpers.CHelpers as built by the real module",
        ]
    except ImportError:
        pass
    ctx.extra["exhaustive"] = True
    ctx.trusted += [
        "call sites in the statement tables are found by name in the code templates and split at top-level commas",
        "roles: destination {c_var} (or a local pointer from it), capacity {c_var_len} with len in buf_args or the CFI "
        "descriptor's elem_len, trimmed length {c_var_trim} with len_trim in buf_args or computed by ShroudLenTrim",
    ]
    ctx.not_covered += [
        "semantics of the Fortran intrinsics trim/len/len_trim and of std::string(const char*, n) (assumed as documented)",
        "the Fortran side beyond ToImplied.visit_Identifier and the ftrim_char_in rule (wrap_function_impl's "
        "trim(arg)//C_NULL_CHAR actual argument, build_arg_list_impl len/len_trim actuals are covered under C04)",
    ]
    # bounded stand-in (never counted as proved): upstream's compiled regression on freshly generated wrappers
    r2 = ctx.monitor("m_e2e", "psearch", 100, ctx.seed, 16)
    ctx.bounded.append({"monitor": "m_e2e", "inputs_tried": r2["tried"], "violation": r2["violation"],
                        "kind": "bounded: the 22 Fortran test programs of regression/run compiled and linked against wrappers "
                                "generated now (gcc/g++ with ASan+UBSan, gfortran -fbounds-check) and run to their FRUIT verdict",
                        "bound": "%d test programs" % r2["tried"]})
    if r2["violation"]:
        ctx.violation("bounded/m_e2e", {"inputs": r2["inputs"], "observed": r2["violation"]}, True)
    return ctx.finish(level="proof" if units else "other",
                      explanation="call-site contracts over the statement tables decided by exhaustive evaluation; C helper "
                                  "functions under contract by the mini-C front end (when present)")
