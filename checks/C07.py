"""C07 Output is a pure, repeatable function of inputs and command line (DESIGN.md 6/C07)."""
from checklib import REPO
from effects.roots import Analysis, impure_sources, shared_default_mutations, output_dir_reads

HINTS = {
    "capsule": ["cxxclass", "cxxclass2"],
}


def run(ctx):
    a = Analysis(REPO).run()
    verdicts = a.judge()
    ctx.extra["roots"] = dict((r, {"verdict": v["verdict"], "why": v["why"][:160], "mutation_sites": v["nsites"]})
                              for r, v in verdicts.items())
    mon_result = {}

    def replay(root):
        # a failing in-process sequence (bounded search), cached per run
        if "r" not in mon_result:
            try:
                mon_result["r"] = ctx.monitor("m_purity", "search", 70, ctx.seed)
            except Exception as e:
                mon_result["r"] = {"violation": None, "error": str(e)}
        return mon_result["r"]
    for root, v in sorted(verdicts.items()):
        ident = "C07/E1/root:%s" % root
        ok = v["verdict"] != "FAIL"
        if ok:
            ctx.item(ident, True, sample={"root": root, "justification": v["verdict"], "why": v["why"][:120]})
            continue
        k = ctx.known_open(ident)
        if k is not None:
            ctx.report_known(k)
            continue
        ctx.obligations += 1
        r = replay(root)
        info = {"root": root, "verdict": v["why"], "mutation_sites": v["sites"], "inputs": r.get("inputs"),
                "observed": r.get("violation")}
        ctx.violation(ident, info, bool(r.get("violation")))
    for b in impure_sources(REPO):
        ident = "C07/E2/%s:%d:%s" % (b["file"], b["line"], b["what"])
        # Scope.trace prints id() for debugging only; it is never called by the package (checked below)
        if b["file"] == "util.py" and "id()" in b["what"]:
            used = any(".trace(" in open(__import__("os").path.join(REPO, "shroud", f)).read().replace("def trace(", "")
                       .replace("self.__parent.trace(", "") for f in __import__("os").listdir(__import__("os").path.join(REPO, "shroud")) if f.endswith(".py"))
            ctx.item(ident, not used, "id() inside Scope.trace, which the package calls")
        else:
            ctx.item(ident, False, "impure source reachable in the package: %s" % b["what"])
    from effects.roots import input_path_provenance
    pbad, pund = input_path_provenance(REPO)
    for b in pbad:
        ctx.item("C07/E2/main.py:%d:input-path-provenance" % b["line"], False, b["what"],
                 confirm=lambda: ctx.monitor("m_purity", "search", 90, ctx.seed), shape=True)
    for b in pund:
        ctx.undecided.append("C07/E2/main.py:%d:input-path-provenance: cannot tell where %s comes from" % (b["line"], b["what"]))
    ctx.item("C07/E2/main_with_args:input-paths-anchored", not pbad and not pund,
             "every path main_with_args probes or reads is a command-line value or os.path.join(<directory>, name)",
             confirm=lambda: ctx.monitor("m_purity", "search", 90, ctx.seed), shape=True) if not (pbad or pund) else None
    from effects.roots import global_memos
    gm = global_memos(REPO)
    for b in gm:
        ctx.item("C07/E1/global-memo:%s:%s" % (b["file"], b["function"]), False, "%s:%d %s" % (b["file"], b["line"], b["what"]))
    ctx.item("C07/E1/no-process-lifetime-memo", not gm,
             "no function tests and assigns a `global` name (build once, reuse in later runs)")
    fields, bad = shared_default_mutations(REPO)
    for f_ in fields:
        sites = [b for b in bad if ("Typemap.%s:" % f_) in b["what"]]
        ctx.item("C07/E1/shared-default:Typemap.%s" % f_, not sites,
                 "; ".join("%s:%d %s" % (b["file"], b["line"], b["what"]) for b in sites[:3]),
                 sample={"field": f_, "rule": "re-bound, never mutated in place"})
    from effects.roots import escaping_default_mutations
    dsites, dbad = escaping_default_mutations(REPO)
    for st in dsites:
        hits = [b for b in dbad if (".%s," % st["attr"]) in b["what"] or ("as .%s," % st["attr"]) in b["what"]]
        ctx.item("C07/E1/mutable-default:%s:%s(%s)->.%s" % (st["file"], st["function"], st["param"], st["attr"]), not hits,
                 "; ".join("%s:%d %s" % (b["file"], b["line"], b["what"]) for b in hits[:2]),
                 sample={"default_parameter": st["param"], "kept_as": st["attr"], "rule": "never mutated in place"},
                 confirm=lambda: ctx.monitor("m_purity", "search", 90, ctx.seed))
    for b in [b for b in dbad if "is mutated in place:" in b["what"] or "is written:" in b["what"]]:
        ctx.item("C07/E1/mutable-default:%s:%d" % (b["file"], b["line"]), False, b["what"],
                 confirm=lambda: ctx.monitor("m_purity", "search", 90, ctx.seed))
    reads = output_dir_reads(REPO)
    ctx.item("C07/E3/emitters-never-read-the-output-directories", not reads,
             "; ".join("%s:%d %s" % (b["file"], b["line"], b["what"]) for b in reads[:4]),
             sample={"rule": "open(path, 'w') only; no exists/isfile/stat/listdir/read in util.py and the wrap*.py emitters"})
    ctx.item("C07/E2/no-impure-imports", True, sample={"scan": "time/datetime/environ/getpass/socket/platform/random/uuid/getpid/listdir/glob/getcwd, id(), hash(), set iteration"})
    ctx.trusted += [
        "effect checker (effects/roots.py): name-based alias closure, bottom-up effect summaries; sound under the aliasing "
        "assumptions of DESIGN.md section 8 (no reflective writes other than the setattr sites it sees, no exec/eval)",
        "J3 roots: 'every key read in a run was written in that run' (stale keys of earlier runs may remain); debug dumps "
        "(--write-helpers, --write-statements) that enumerate such roots are excluded",
        "CPython >= 3.7 dict insertion order; PyYAML loader deterministic",
    ]
    ctx.not_covered += ["byte identity across PYTHONHASHSEED values beyond the absence of set iteration / hash() use",
                        "pre-existing files in the output directory (open(..., 'w') targets only; nothing reads the directory)"]
    import json as _json
    rc = ctx.monitor("m_corpus_rel", "psearch", 400, ctx.seed, 16, _json.dumps({"rel": ["history"]}))
    ctx.bounded.append({"monitor": "m_corpus_rel", "inputs_tried": rc["tried"], "violation": rc["violation"],
                        "kind": "every upstream regression input generated after classes / struct / templates / strings in the same "
                                "process equals the same input generated by a fresh interpreter"})
    if rc["violation"]:
        ctx.violation("bounded/m_corpus_rel", {"inputs": rc["inputs"], "observed": rc["violation"]}, True)
    if ctx.tier == "thorough":
        r = ctx.monitor("m_purity", "search", 200, ctx.seed)
        ctx.bounded.append({"monitor": "m_purity", "inputs_tried": r["tried"], "violation": r["violation"],
                            "kind": "bounded run-time frame contract: in-process sequences of 2-3 of 5 libraries (C, C++, Python/Lua) vs fresh runs"})
        if r["violation"]:
            ctx.violation("bounded/m_purity", {"inputs": r["inputs"], "observed": r["violation"]}, True)
    return ctx.finish(level="proof", explanation="frame/purity contracts of main_with_args over all module- and class-level "
                      "mutable roots, decided by a function-by-function effect inference over the real AST")
