"""C16 Documentation and debug options change comments only (DESIGN.md 6/C16)."""
import json
from checklib import REPO
from effects.comment_only import Judge

WITNESS = {"doxygen-newline": {"opts": {"doxygen": True}, "brief": "\"first line\\nsecond line\"", "ret": "a value"}}


def run(ctx):
    items = Judge(REPO).run()
    replay = {}
    for ident, ok, detail in items:
        if ok:
            ctx.item(ident, True, sample={"site": ident, "judgement": detail})
            continue
        if ctx.known_open(ident):
            ctx.report_known(ctx.known_open(ident))
            continue
        ctx.obligations += 1
        if "r" not in replay:
            try:
                replay["r"] = ctx.monitor("m_docopts", "search", 100, ctx.seed)
            except Exception as e:
                replay["r"] = {"violation": None, "inputs": None, "error": str(e)}
        r = replay["r"]
        ctx.violation(ident, {"detail": detail, "inputs": r.get("inputs"), "observed": r.get("violation")}, bool(r.get("violation")))
    # C12/U1 already proves: _create_splicer's returned flag and body do not depend on show_splicer_comments
    ctx.trusted += [
        "comment-only judgement (effects/comment_only.py): syntactic, per function over the real AST; a comment line is "
        "a string built from a leading comment prefix (//, /*, ' *', !, --, self.comment, doxygen_*, cstart/cend/fstart/fend)",
        "lists named as comment lists only ever receive comment lines (checked per function and per call site)",
        "comment stripping of the five target languages removes exactly such lines (assumed)",
    ]
    ctx.not_covered += ["library-level literalinclude / literalinclude2 (excluded by the property)",
                        "token-level identity of the compiled view: bounded monitor m_docopts only"]
    # relations of this property on the upstream regression inputs (bounded, never proof)
    rc = ctx.monitor("m_corpus_rel", "psearch", 400, ctx.seed, 16, json.dumps({"rel": ['docopt']}))
    ctx.bounded.append({"monitor": "m_corpus_rel", "inputs_tried": rc["tried"], "violation": rc["violation"],
                        "kind": 'every upstream regression input with --option debug=true / show_splicer_comments=false / doxygen=false: same files, same token streams after comment removal'})
    if rc["violation"]:
        ctx.violation("bounded/m_corpus_rel", {"inputs": rc["inputs"], "observed": rc["violation"]}, True)
    if ctx.tier != "thorough":
        r = ctx.monitor("m_docopts", "search", 100, ctx.seed)
        ctx.bounded.append({"monitor": "m_docopts", "inputs_tried": r["tried"], "violation": r["violation"],
                            "kind": "two-run relation: each option on vs off (globally, on single declarations of overload sets with "
                                    "cpp_if / default arguments / fortran_generic / a long callback, and on libraries without "
                                    "functions, with namespaces only, with classes only), same file set and same token streams "
                                    "after comment removal"})
        if r["violation"]:
            ctx.violation("bounded/m_docopts", {"inputs": r["inputs"], "observed": r["violation"]}, True)
    if ctx.tier == "thorough":
        r = ctx.monitor("m_docopts", "search", 200, ctx.seed)
        ctx.bounded.append({"monitor": "m_docopts", "inputs_tried": r["tried"], "violation": r["violation"],
                            "kind": "two-run relation: options on vs off, outputs compared after comment removal"})
        if r["violation"]:
            ctx.violation("bounded/m_docopts", {"inputs": r["inputs"], "observed": r["violation"]}, True)
    return ctx.finish(level="proof", explanation="non-interference of the documentation/debug options decided by a "
                      "comment-only effect judgement at every read site of those options")
