"""C17 Invalid input is rejected with a diagnostic, never by an internal failure (DESIGN.md 6/C17)."""
import re
from contracts import generate_attrs as G
from contracts import declast_parser as P


def no_inputs(v):
    return None


def hint(nm):
    # functional clauses: point the bounded search at the attribute the clause is about
    for a in ("rank", "dimension", "intent", "owner", "charlen", "value", "deref", "implied"):
        if a in nm:
            return {"attr": a}
    return None


MONITORS = dict((u.name, ("m_attrs", no_inputs, hint, 9000)) for u in G.UNITS)
MONITORS.update(dict((u.name, ("m_parser", no_inputs, lambda nm: None, 3000)) for u in P.UNITS))


def literal_error_msg_sites(ctx):
    """call-site obligation of error_msg's contract: every call that passes arguments uses a literal template that
    str.format accepts for exactly those arguments (decided by evaluating the literal)."""
    import ast
    import os
    import string
    from checklib import REPO
    src = open(os.path.join(REPO, "shroud/declast.py")).read()
    for n in ast.walk(ast.parse(src)):
        if isinstance(n, ast.Call) and isinstance(n.func, ast.Attribute) and n.func.attr == "error_msg":
            ident = "C17/error_msg/call-requires@%d" % n.lineno
            nargs = len(n.args) - 1
            if nargs <= 0:
                ctx.item(ident, len(n.args) == 1, "error_msg() without a message")
                continue
            t = n.args[0]
            ok = isinstance(t, ast.Constant) and isinstance(t.value, str)
            if ok:
                try:
                    t.value.format(*(["x"] * nargs))
                    fields = [f for _, f, _, _ in string.Formatter().parse(t.value) if f is not None]
                    ok = len(fields) == nargs
                except Exception:
                    ok = False
            ctx.item(ident, ok, "template is not a literal valid for %d arguments" % nargs,
                     sample={"call": ast.unparse(n)[:120]})


def node_wiring(ctx):
    """call-site preconditions of the node tree builder (shroud/ast.py), decided on the real source:
    (a) add_declarations rejects (RuntimeError) a parent that cannot hold declarations before it uses it;
    (b) every attribute BlockNode.__init__ reads from its parent is assigned by the __init__ of every class that can be
        such a parent (the NamespaceMixin classes), or is read with a default."""
    import ast
    import os
    from checklib import REPO
    tree = ast.parse(open(os.path.join(REPO, "shroud/ast.py")).read())
    classes = dict((n.name, n) for n in tree.body if isinstance(n, ast.ClassDef))
    funcs = dict((n.name, n) for n in tree.body if isinstance(n, ast.FunctionDef))
    mix = sorted(c for c, n in classes.items() if any(isinstance(b, ast.Name) and b.id == "NamespaceMixin" for b in n.bases))
    # (a)
    f = funcs.get("add_declarations")
    guard_line, use_line = None, None
    for n in ast.walk(f) if f else []:
        if isinstance(n, ast.If) and "isinstance(parent, NamespaceMixin)" in ast.unparse(n.test) and any(
                isinstance(x, ast.Raise) for x in n.body):
            guard_line = n.lineno if guard_line is None else min(guard_line, n.lineno)
        if isinstance(n, ast.Call) and ((isinstance(n.func, ast.Name) and n.func.id == "BlockNode") or (
                isinstance(n.func, ast.Attribute) and n.func.attr == "add_declaration")):
            use_line = n.lineno if use_line is None else min(use_line, n.lineno)
    ctx.item("C17/S1/add_declarations:parent-checked-before-use", bool(f) and guard_line is not None and use_line is not None
             and guard_line < use_line,
             "add_declarations must raise RuntimeError for a parent that is not a NamespaceMixin before it constructs a "
             "BlockNode on it or calls parent.add_declaration (guard at %r, first use at %r)" % (guard_line, use_line),
             confirm=lambda: ctx.monitor("m_yaml", "search", 1500, ctx.seed), shape=True)
    # (b)
    blk = classes.get("BlockNode")
    init = [m for m in blk.body if isinstance(m, ast.FunctionDef) and m.name == "__init__"][0] if blk else None
    reads = set()
    for n in ast.walk(init) if init else []:
        if isinstance(n, ast.Attribute) and isinstance(n.value, ast.Name) and n.value.id == "parent" and isinstance(n.ctx, ast.Load):
            reads.add(n.attr)
    ctx.item("C17/S1/BlockNode.__init__:reads-found", len(reads) >= 5 and len(mix) >= 3, "vacuity guard: %r %r" % (sorted(reads), mix))

    def provides(cname, attr, seen=()):
        n = classes.get(cname)
        if n is None or cname in seen:
            return False
        for m in n.body:
            if isinstance(m, ast.FunctionDef) and m.name == attr:
                return True
            if isinstance(m, ast.Assign) and any(isinstance(t, ast.Name) and t.id == attr for t in m.targets):
                return True
            if isinstance(m, ast.FunctionDef) and m.name == "__init__":
                # assigned by __init__ or by a method __init__ calls on self (transitively)
                methods = dict((k.name, k) for k in n.body if isinstance(k, ast.FunctionDef))
                for b_ in n.bases:
                    if isinstance(b_, ast.Name) and b_.id in classes:
                        for k in classes[b_.id].body:
                            if isinstance(k, ast.FunctionDef):
                                methods.setdefault(k.name, k)
                todo, done = [m], set()
                while todo:
                    fn = todo.pop()
                    if fn.name in done:
                        continue
                    done.add(fn.name)
                    for x in ast.walk(fn):
                        if isinstance(x, ast.Attribute) and isinstance(x.value, ast.Name) and x.value.id == "self" \
                                and x.attr == attr and isinstance(x.ctx, ast.Store):
                            return True
                        if isinstance(x, ast.Call) and isinstance(x.func, ast.Attribute) and isinstance(x.func.value, ast.Name) \
                                and x.func.value.id == "self" and x.func.attr in methods:
                            todo.append(methods[x.func.attr])
        return any(provides(b.id, attr, seen + (cname,)) for b in n.bases if isinstance(b, ast.Name))
    for cname in mix:
        for attr in sorted(reads):
            ctx.item("C17/S1/BlockNode(parent=%s).%s" % (cname, attr), provides(cname, attr),
                     "BlockNode.__init__ reads parent.%s but %s never assigns it: a block inside a %s raises AttributeError"
                     % (attr, cname, cname), sample={"parent_class": cname, "attribute": attr},
                     confirm=lambda: ctx.monitor("m_yaml", "search", 1500, ctx.seed))


def tokenizer_termination(ctx):
    """"never hangs", tokenizer part, decided on the real token table and loop of declast.tokenize:
    (a) every token pattern consumes at least one character (a nullable pattern would stop `pos` from advancing: endless loop);
    (b) no token pattern nests an unbounded repetition inside an unbounded repetition (the shape (x+)* that makes
        Python's backtracking matcher exponential on a failing match; overlapping alternatives such as (a|a)* are not judged);
    (c) the loop advances: its body ends with `pos = mo.end()` ; `mo = get_token(s, pos)`."""
    import ast
    import os
    try:
        import re._parser as sre_parse
        import re._constants as sre_c
    except ImportError:          # Python < 3.11
        import sre_parse
        import sre_constants as sre_c
    from checklib import REPO
    tree = ast.parse(open(os.path.join(REPO, "shroud/declast.py")).read())
    spec = None
    for n in tree.body:
        if isinstance(n, ast.Assign) and any(isinstance(t, ast.Name) and t.id == "token_specification" for t in n.targets):
            try:
                spec = ast.literal_eval(n.value)
            except ValueError:
                spec = None
    confirm = lambda: ctx.monitor("m_parser", "search", 400, ctx.seed)
    ctx.item("C17/tokenizer/token_specification:literal-table", bool(spec) and len(spec) >= 10,
             "token_specification is not a literal list of (name, pattern) pairs", confirm=confirm, shape=True)
    confirm = lambda: ctx.monitor("m_parser", "search", 400, ctx.seed)
    UNB = sre_c.MAXREPEAT

    def subpatterns(item):
        op, av = item
        if op in (sre_c.MAX_REPEAT, sre_c.MIN_REPEAT) or str(op) == "POSSESSIVE_REPEAT":
            return [av[2]]
        if op == sre_c.SUBPATTERN:
            return [av[-1]]
        if op == sre_c.BRANCH:
            return list(av[1])
        if str(op) in ("ASSERT", "ASSERT_NOT", "ATOMIC_GROUP"):
            return [av[1] if isinstance(av, tuple) else av]
        return []

    def bad_shape(pat, inside_unbounded):
        for item in pat:
            op, av = item
            rep = op in (sre_c.MAX_REPEAT, sre_c.MIN_REPEAT)
            unb = rep and av[1] == UNB
            if inside_unbounded and unb:
                return "an unbounded repetition inside an unbounded repetition"
            for sp in subpatterns(item):
                r = bad_shape(sp, inside_unbounded or unb)
                if r:
                    return r
        return None
    for name, pattern in spec or []:
        try:
            parsed = sre_parse.parse(pattern)
        except Exception as e:
            ctx.item("C17/tokenizer/pattern:%s:parses" % name, False, "pattern %r does not compile: %s" % (pattern, e))
            continue
        lo, _ = parsed.getwidth()
        ctx.item("C17/tokenizer/pattern:%s:consumes-a-character" % name, lo >= 1,
                 "token pattern %s = %r can match the empty string: tokenize() would not advance" % (name, pattern),
                 sample={"token": name, "pattern": pattern, "min_width": lo}, confirm=confirm)
        why = bad_shape(parsed, False)
        ctx.item("C17/tokenizer/pattern:%s:linear-time-shape" % name, why is None,
                 "token pattern %s = %r has %s: a failing match backtracks exponentially (the tokenizer hangs on, e.g., an "
                 "unterminated literal)" % (name, pattern, why), sample={"token": name, "pattern": pattern}, confirm=confirm)
    fn = [n for n in tree.body if isinstance(n, ast.FunctionDef) and n.name == "tokenize"]
    ok = False
    if fn:
        loops = [n for n in fn[0].body if isinstance(n, ast.While)]
        if len(loops) == 1 and ast.unparse(loops[0].test) == "mo is not None" and len(loops[0].body) >= 2:
            tail = [ast.unparse(x) for x in loops[0].body[-2:]]
            ok = tail == ["pos = mo.end()", "mo = get_token(s, pos)"]
            ok = ok and not any(isinstance(x, ast.Continue) for st in loops[0].body for x in ast.walk(st))
    ctx.item("C17/tokenizer/tokenize:loop-advances", ok,
             "the tokenize loop does not end every iteration with pos = mo.end(); mo = get_token(s, pos)", confirm=confirm, shape=True)


def variant_validation(ctx):
    """C17/S3: VerifyAttrs.check_fcn_attrs validates EVERY argument list the function is wrapped with: the arguments
    re-declared by each fortran_generic entry go through check_arg_attrs and check_implied_attrs like the function's own
    (an invalid +implied on a variant is otherwise met unvalidated by the Fortran wrapper)."""
    import ast, os
    from checklib import REPO
    tree = ast.parse(open(os.path.join(REPO, "shroud", "generate.py")).read())
    fn = None
    for c in ast.walk(tree):
        if isinstance(c, ast.ClassDef) and c.name == "VerifyAttrs":
            for f in c.body:
                if isinstance(f, ast.FunctionDef) and f.name == "check_fcn_attrs":
                    fn = f
    ctx.item("C17/S3/reached", fn is not None, "VerifyAttrs.check_fcn_attrs not found")
    if fn is None:
        return
    loops = [n for n in ast.walk(fn) if isinstance(n, ast.For) and ast.unparse(n.iter).endswith(".fortran_generic")]
    conf = lambda: ctx.monitor("m_yaml", "search", 1500, ctx.seed)
    ctx.item("C17/S3/check_fcn_attrs:loop-over-variants", len(loops) >= 1, "no loop over node.fortran_generic", confirm=conf, shape=True)
    for lp in loops[:1]:
        var = ast.unparse(lp.target)
        calls = [ast.unparse(c) for c in ast.walk(lp) if isinstance(c, ast.Call)]
        for callee in ("check_arg_attrs", "check_implied_attrs"):
            ok = any(callee + "(" in c and var + "." in c or (callee + "(" in c and callee == "check_arg_attrs") for c in calls)
            ctx.item("C17/S3/check_fcn_attrs:variant-arguments-through-" + callee, ok,
                     "the arguments of a fortran_generic entry are not passed through %s inside the loop over the entries "
                     "(calls in the loop: %s)" % (callee, calls[:6]), sample={"loop_line": lp.lineno}, confirm=conf, shape=True)


def run(ctx):
    ctx.pyvc(G.UNITS + P.UNITS, MONITORS)
    variant_validation(ctx)
    tokenizer_termination(ctx)
    literal_error_msg_sites(ctx)
    node_wiring(ctx)
    # bounded stand-in for the YAML structure (never counted as proved)
    r = ctx.monitor("m_yaml", "search", 1500, ctx.seed)
    ctx.bounded.append({"monitor": "m_yaml", "inputs_tried": r["tried"], "violation": r["violation"],
                        "kind": "bounded: real pipeline on 12 parent kinds x 15 child shapes (block/declarations nesting, wrong-typed "
                                "decl/options/format/attrs/declarations) and 14 wrong-typed top-level keys: only RuntimeError / "
                                "SystemExit may escape, documented nestings are accepted",
                        "bound": "%d descriptions" % r["tried"]})
    if r["violation"]:
        ctx.violation("bounded/m_yaml", {"inputs": r["inputs"], "observed": r["violation"]}, True)
    ctx.trusted += [
        "pyvc, z3 5.1, cvc5 1.0.3; attribute values range over PyVal = None | bool | int | str | other(float)",
        "declast.check_dimension / generate.check_implied: trusted contracts (need a str, may raise RuntimeError)",
        "Declaration.is_indirect()/is_function_pointer()/get_indirect_stmt()/gen_decl(): pure, total (abstract fields)",
        "iteration over attrs: arbitrary list of non-empty keys",
    ]
    ctx.not_covered += [
        "parser units other than next/have/mustbe/error_msg/decl_statement (sub-parsers are used through the contract "
        "'consumes >= 0 tokens, may raise RuntimeError'); termination of the recursive-descent parser itself; "
        "YAML structure validation: bounded monitor only",
        "tokenizer: termination only (non-nullable linear-shape patterns, advancing loop); token classification is not specified",
        "PyYAML errors; emitters",
    ]
    if ctx.tier != "thorough":
        # literal spellings in every position where the parser converts a token itself, edge texts, documented forms + junk
        r = ctx.monitor("m_parser", "search", 600, ctx.seed)
        ctx.bounded.append({"monitor": "m_parser", "kind": "bounded run of the real declaration parser: literal spellings in converting "
                            "positions, edge texts, documented forms + stray text", "inputs_tried": r["tried"], "violation": r["violation"]})
        if r["violation"]:
            ctx.violation("bounded/m_parser", {"inputs": r["inputs"], "observed": r["violation"]}, True)
    if ctx.tier == "thorough":
        r = ctx.monitor("m_parser", "search", 20000, ctx.seed)
        ctx.bounded.append({"monitor": "m_parser", "kind": "bounded run of the real declaration parser: documented forms, forms + stray text, random token strings",
                            "inputs_tried": r["tried"], "violation": r["violation"]})
        if r["violation"]:
            ctx.violation("bounded/m_parser", {"inputs": r["inputs"], "observed": r["violation"]}, True)
        r = ctx.monitor("m_attrs", "search", 9000, ctx.seed)
        ctx.bounded.append({"monitor": "m_attrs", "kind": "bounded run of the real parser + generate_functions on a type x attribute x value grid",
                            "inputs_tried": r["tried"], "violation": r["violation"]})
        if r["violation"]:
            ctx.violation("bounded/m_attrs", {"inputs": r["inputs"], "observed": r["violation"]}, True)
    return ctx.finish()
