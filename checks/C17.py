"""C17 Invalid input is rejected with a diagnostic, never by an internal failure (DESIGN.md 6/C17)."""
import re
from contracts import generate_attrs as G
from contracts import declast_parser as P


def no_inputs(v):
    return None


def hint(nm):
    # functional clauses: point the bounded search at the attribute the clause is about
    for a in ("rank", "dimension", "intent", "owner", "charlen", "value", "deref", "implied"):
        if a in nm:
            return {"attr": a}
    return None


MONITORS = dict((u.name, ("m_attrs", no_inputs, hint, 9000)) for u in G.UNITS)
MONITORS.update(dict((u.name, ("m_parser", no_inputs, lambda nm: None, 3000)) for u in P.UNITS))


def literal_error_msg_sites(ctx):
    """call-site obligation of error_msg's contract: every call that passes arguments uses a literal template that
    str.format accepts for exactly those arguments (decided by evaluating the literal)."""
    import ast
    import os
    import string
    from checklib import REPO
    src = open(os.path.join(REPO, "shroud/declast.py")).read()
    for n in ast.walk(ast.parse(src)):
        if isinstance(n, ast.Call) and isinstance(n.func, ast.Attribute) and n.func.attr == "error_msg":
            ident = "C17/error_msg/call-requires@%d" % n.lineno
            nargs = len(n.args) - 1
            if nargs <= 0:
                ctx.item(ident, len(n.args) == 1, "error_msg() without a message")
                continue
            t = n.args[0]
            ok = isinstance(t, ast.Constant) and isinstance(t.value, str)
            if ok:
                try:
                    t.value.format(*(["x"] * nargs))
                    fields = [f for _, f, _, _ in string.Formatter().parse(t.value) if f is not None]
                    ok = len(fields) == nargs
                except Exception:
                    ok = False
            ctx.item(ident, ok, "template is not a literal valid for %d arguments" % nargs,
                     sample={"call": ast.unparse(n)[:120]})


def run(ctx):
    ctx.pyvc(G.UNITS + P.UNITS, MONITORS)
    literal_error_msg_sites(ctx)
    ctx.trusted += [
        "pyvc, z3 5.1, cvc5 1.0.3; attribute values range over PyVal = None | bool | int | str | other(float)",
        "declast.check_dimension / generate.check_implied: trusted contracts (need a str, may raise RuntimeError)",
        "Declaration.is_indirect()/is_function_pointer()/get_indirect_stmt()/gen_decl(): pure, total (abstract fields)",
        "iteration over attrs: arbitrary list of non-empty keys",
    ]
    ctx.not_covered += [
        "parser units other than have/mustbe/error_msg/decl_statement (sub-parsers are used through the contract "
        "'consumes >= 0 tokens, may raise RuntimeError'), tokenizer, YAML structure validation: bounded monitor only",
        "PyYAML errors; emitters",
    ]
    if ctx.tier == "thorough":
        r = ctx.monitor("m_parser", "search", 20000, ctx.seed)
        ctx.bounded.append({"monitor": "m_parser", "kind": "bounded run of the real declaration parser: documented forms, forms + stray text, random token strings",
                            "inputs_tried": r["tried"], "violation": r["violation"]})
        if r["violation"]:
            ctx.violation("bounded/m_parser", {"inputs": r["inputs"], "observed": r["violation"]}, True)
        r = ctx.monitor("m_attrs", "search", 9000, ctx.seed)
        ctx.bounded.append({"monitor": "m_attrs", "kind": "bounded run of the real parser + generate_functions on a type x attribute x value grid",
                            "inputs_tried": r["tried"], "violation": r["violation"]})
        if r["violation"]:
            ctx.violation("bounded/m_attrs", {"inputs": r["inputs"], "observed": r["violation"]}, True)
    return ctx.finish()
