"""C17 Invalid input is rejected with a diagnostic, never by an internal failure (DESIGN.md 6/C17)."""
import re
from contracts import generate_attrs as G


def no_inputs(v):
    return None


def hint(nm):
    # functional clauses: point the bounded search at the attribute the clause is about
    for a in ("rank", "dimension", "intent", "owner", "charlen", "value", "deref", "implied"):
        if a in nm:
            return {"attr": a}
    return None


MONITORS = dict((u.name, ("m_attrs", no_inputs, hint, 9000)) for u in G.UNITS)


def run(ctx):
    ctx.pyvc(G.UNITS, MONITORS)
    ctx.trusted += [
        "pyvc, z3 5.1, cvc5 1.0.3; attribute values range over PyVal = None | bool | int | str | other(float)",
        "declast.check_dimension / generate.check_implied: trusted contracts (need a str, may raise RuntimeError)",
        "Declaration.is_indirect()/is_function_pointer()/get_indirect_stmt()/gen_decl(): pure, total (abstract fields)",
        "iteration over attrs: arbitrary list of non-empty keys",
    ]
    ctx.not_covered += [
        "parser units (Parser.declaration ... decl_statement), tokenizer, YAML structure validation: bounded monitor only",
        "PyYAML errors; emitters",
    ]
    if ctx.tier == "thorough":
        r = ctx.monitor("m_attrs", "search", 9000, ctx.seed)
        ctx.bounded.append({"monitor": "m_attrs", "kind": "bounded run of the real parser + generate_functions on a type x attribute x value grid",
                            "inputs_tried": r["tried"], "violation": r["violation"]})
        if r["violation"]:
            ctx.violation("bounded/m_attrs", {"inputs": r["inputs"], "observed": r["violation"]}, True)
    return ctx.finish()
