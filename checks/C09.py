"""C09 Declarations are understood exactly as a C++ compiler understands them (DESIGN.md 6/C09) -- internal coherence
of parser and printers only; agreement with a C++ compiler is not covered."""
import copy
from contracts import declast_parser as P
from contracts import todict_print as T

MON = ("m_roundtrip", lambda v: None, lambda nm: None, 1200)


def run(ctx):
    units = list(P.LIST_UNITS)
    for u in T.UNITS:
        u2 = copy.copy(u)
        u2.prop = "C09"
        units.append(u2)
    try:
        from contracts import declast_render as R
        units += R.UNITS
    except ImportError:
        pass
    ctx.pyvc(units, dict((u.name, MON) for u in units))
    ctx.trusted += [
        "token stream model: RecursiveDescent.next advances by one token (trusted); sub-parsers expression/declaration "
        "consume >= 1 token, do not end on a comma, may raise RuntimeError (contract, not proved)",
        "printer oracle W1-W3/WX (see contracts/todict_print.py)",
    ]
    ctx.not_covered += [
        "agreement with a C++ compiler (needs g++ as oracle)",
        "ExprParser.expression precedence shape, Parser.declaration_specifier/declarator/pointer, gen_decl renderings: "
        "bounded round-trip monitor m_roundtrip only",
    ]
    n = 1200 if ctx.tier == "quick" else 20000
    r = ctx.monitor("m_roundtrip", "search", n, ctx.seed)
    ctx.bounded.append({"monitor": "m_roundtrip", "inputs_tried": r["tried"], "violation": r["violation"],
                        "kind": "bounded: 11 specifiers x 8 pointer chains x 8 attributes, function/array/function-pointer/vector forms, "
                                "23 expressions then random token strings; parse(gen_decl(parse(d))) == parse(d), C rendering, printer stability",
                        "bound": "%d candidates" % n})
    if r["violation"]:
        ctx.violation("bounded/m_roundtrip", {"inputs": r["inputs"], "observed": r["violation"]}, True)
    return ctx.finish()
