"""C09 Declarations are understood exactly as a C++ compiler understands them (DESIGN.md 6/C09) -- internal coherence
of parser and printers only; agreement with a C++ compiler is not covered."""
import copy
import json
from contracts import declast_parser as P
from contracts import todict_print as T

MON = ("m_roundtrip", lambda v: None, lambda nm: None, 1200)


def run(ctx):
    units = list(P.LIST_UNITS)
    for u in T.UNITS:
        u2 = copy.copy(u)
        u2.prop = "C09"
        units.append(u2)
    try:
        from contracts import declast_render as R
        units += R.UNITS
    except ImportError:
        pass
    units += P.EXPR_UNITS
    ctx.pyvc(units, dict((u.name, MON) for u in units))
    # the operator table the expression units take their precedences from is the C++ one for the operators it lists:
    # * and / bind tighter than + and -, equal within each pair, all left-associative
    import ast as _ast
    import os as _os
    from checklib import REPO as _REPO
    tbl = None
    for n in _ast.parse(open(_os.path.join(_REPO, "shroud/declast.py")).read()).body:
        if isinstance(n, _ast.Assign) and any(isinstance(t, _ast.Name) and t.id == "OPINFO_MAP" for t in n.targets) \
                and isinstance(n.value, _ast.Dict):
            try:
                tbl = dict((k.value, tuple(_ast.literal_eval(a) for a in v.args)) for k, v in zip(n.value.keys, n.value.values))
            except Exception:
                tbl = None
    # an identifier is one token: no pattern listed before ID matches a proper prefix of a word ('const' of 'constant')
    import re as _re
    spec = None
    for n in _ast.parse(open(_os.path.join(_REPO, "shroud/declast.py")).read()).body:
        if isinstance(n, _ast.Assign) and any(isinstance(t, _ast.Name) and t.id == "token_specification" for t in n.targets):
            try:
                spec = _ast.literal_eval(n.value)
            except ValueError:
                spec = None
    if spec:
        names = [k for k, _ in spec]
        idpos = names.index("ID") if "ID" in names else len(spec)
        for k, pat in spec[:idpos]:
            words = set(_re.findall(r"[A-Za-z_]{2,}", pat))
            hit = None
            for w in sorted(words):
                for probe in (w + "x", w + "_flag", w + "9"):
                    try:
                        m = _re.match(pat, probe)
                    except _re.error:
                        m = None
                    if m and 0 < m.end() < len(probe) and _re.match(r"[A-Za-z_]\w*$", probe):
                        hit = (probe, m.group(0))
            ctx.item("C09/T2/tokenizer:%s:does-not-split-identifiers" % k, hit is None,
                     "token pattern %s = %r, tried before ID, matches %r at the front of the identifier %r" % (
                         k, pat, hit[1] if hit else "", hit[0] if hit else ""),
                     sample={"token": k, "pattern": pat},
                     confirm=lambda: ctx.monitor("m_roundtrip", "search", 10, ctx.seed))
    cxx_level = {"*": 2, "/": 2, "%": 2, "+": 1, "-": 1}
    ok = bool(tbl) and all(op in cxx_level and len(v) == 2 and v[1] == "LEFT" for op, v in tbl.items()) and all(
        (tbl[a][0] < tbl[b][0]) == (cxx_level[a] < cxx_level[b]) for a in tbl for b in tbl)
    ctx.item("C09/T1/OPINFO_MAP:cxx-precedence", ok,
             "the operator table %r does not order its operators as C++ does (multiplicative above additive, left-associative)" % (tbl,),
             sample={"table": tbl}, confirm=lambda: ctx.monitor("m_roundtrip", "search", 3000, ctx.seed,
                                                                  json.dumps({"must_contain": ["grouped as"]})))
    # frame condition of the renderers and queries: producing a rendering of a declaration does not change the
    # declaration (effect inference over the real source, interprocedural: parameter 0 is never mutated, neither
    # directly nor by something drawn from it nor through a callee)
    from checklib import REPO
    from effects.roots import Analysis
    an = Analysis(REPO).run()
    nfound = 0
    for key, f in sorted(an.funcs.items()):
        mod, _, qual = key.partition(".")
        cls, _, meth = qual.partition(".")
        node_param = None
        if mod == "declast" and cls in ("Declaration", "Declarator", "Ptr") and (
                meth.startswith(("gen_", "is_", "get_", "as_")) or meth in ("bind_c", "__str__", "_as_arg")):
            node_param = 0
        elif mod == "todict" and cls in ("PrintNode", "PrintNodeIdentifier") and meth.startswith("visit"):
            node_param = 1
        if node_param is None:
            continue
        nfound += 1
        ctx.item("C09/E1/pure:%s" % key, node_param not in f.mut_params,
                 "%s changes the node it renders (parameter %d, or something drawn from it, is mutated): a second rendering "
                 "of the same declaration differs from the first" % (key, node_param),
                 sample={"function": key, "mutated_parameters": sorted(f.mut_params)},
                 confirm=lambda: ctx.monitor("m_roundtrip", "search", 3000, ctx.seed,
                                             json.dumps({"must_contain": ["changed the declaration"]})))
    ctx.item("C09/E1/renderers-found", nfound >= 25, "only %d renderer/query methods found (vacuity guard)" % nfound)
    ctx.trusted += [
        "token stream model: RecursiveDescent.next advances by one token (its own units are under C17); the sub-parser "
        "declaration consumes >= 1 token, does not end on a comma, may raise RuntimeError (contract, not proved); "
        "expression / primary / identifier are proved against exactly that contract plus the precedence clauses",
        "expression trees are abstracted by the precedence of their root (ghost field of the node constructors)",
        "printer oracle W1-W3/WX (see contracts/todict_print.py)",
    ]
    ctx.not_covered += [
        "agreement with a C++ compiler: only through the bounded monitor (g++ static_assert(std::is_same<...>) between ~290 "
        "declarations and shroud's rendering of them), no contract",
        "Parser.declaration_specifier/declarator/pointer: bounded round-trip monitor m_roundtrip only; termination of "
        "the expression parser (every call consumes a token, not proved as a variant)",
    ]
    n = 1200 if ctx.tier == "quick" else 20000
    r = ctx.monitor("m_roundtrip", "search", n, ctx.seed)
    ctx.bounded.append({"monitor": "m_roundtrip", "inputs_tried": r["tried"], "violation": r["violation"],
                        "kind": "bounded: g++ -fsyntax-only static_assert(is_same<decltype(original), decltype(rendering)>) on ~290 "
                                "declarations (specifier x pointer chain, functions, arrays, function pointers, unnamed "
                                "parameters, vectors); every parenthesisation of <= 4 operands over + - * /: "
                                "parse(print(parse(e))) has the structure of parse(e); 11 specifiers x 8 pointer chains x 8 "
                                "attributes: parse(gen_decl(parse(d))) == parse(d), renderers leave the node unchanged, C "
                                "rendering; then random token strings",
                        "bound": "%d candidates" % n})
    if r["violation"]:
        ctx.violation("bounded/m_roundtrip", {"inputs": r["inputs"], "observed": r["violation"]}, True)
    return ctx.finish()
