import argparse
import importlib
import json
import os
import sys
import traceback

HERE = os.path.dirname(os.path.abspath(__file__))
sys.path.insert(0, HERE)
os.chdir(HERE)


def main():
    ap = argparse.ArgumentParser()
    ap.add_argument("prop")
    ap.add_argument("--tier", default=os.environ.get("VERIF_TIER", "quick"))
    ap.add_argument("--replay")
    a = ap.parse_args()
    seed = int(os.environ.get("VERIF_SEED", "0"))
    import checklib
    if a.replay:
        info = json.load(open(a.replay))
        print(json.dumps(info, indent=1)[:6000])
        mod = importlib.import_module("checks." + a.prop)
        mon = getattr(mod, "MONITORS", {}).get(info.get("unit"))
        if mon and info.get("inputs") is not None:
            ctx = checklib.Ctx(a.prop, a.tier, seed)
            r = ctx.monitor(mon[0], "replay", json.dumps(info["inputs"]))
            print("replay on %s: %s" % (checklib.REPO, r))
            sys.exit(1 if r.get("violation") else 0)
        sys.exit(0)
    try:
        mod = importlib.import_module("checks." + a.prop)
        ctx = checklib.Ctx(a.prop, a.tier, seed)
        code = mod.run(ctx)
    except Exception:
        print("CHECKER-ERROR %s %s" % (a.prop, traceback.format_exc()))
        code = 3
    sys.exit(code)


main()
