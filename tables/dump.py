"""Run under /venv/bin/python with the repository on sys.path: builds the REAL tables of one language and dumps
them as JSON (rows resolved through base/mixin by the real update_stmt_tree; helper dictionaries after
add_all_helpers; the typemap table).  usage: dump.py <c|cxx> [F_CFI]"""
import json
import os
import sys

REPO = os.environ.get("VERIF_REPO", "/repo")
sys.path.insert(0, REPO)
lang = sys.argv[1]

from shroud import ast, statements, typemap, whelpers, util  # noqa

typemap.initialize()
lib = ast.LibraryNode(language="c" if lang == "c" else "c++")
statements.update_statements_for_language(lang)
whelpers.set_library(lib)
whelpers.add_all_helpers()


def plain(v):
    if isinstance(v, (str, int, float, bool)) or v is None:
        return v
    if isinstance(v, (list, tuple)):
        return [plain(x) for x in v]
    if isinstance(v, dict):
        return dict((str(k), plain(x)) for k, x in v.items())
    if isinstance(v, util.Scope):
        return plain(v._to_full_dict())
    return repr(v)


rows = {}


def walk(tree):
    for k, v in tree.items():
        if k == "_stmts":
            chain = []
            sc = v
            while sc is not None:
                chain.append(sc)
                sc = sc.get_parent()
            d = {}
            for sc in reversed(chain):      # child overrides parent, as Scope.__getattr__ does
                d.update(sc._to_dict())
            rows[tree["_key"]] = plain(d)
        elif isinstance(v, dict) and not k.startswith("_"):
            walk(v)


walk(statements.cf_tree)
raw = [plain(dict(r)) for r in statements.fc_statements]
tm = {}
for name, t in typemap.get_global_types().items() if hasattr(typemap, "get_global_types") else typemap.shared_typedict.items():
    tm[name] = plain(dict((f, getattr(t, f)) for f in ("name", "base", "sgroup", "c_type", "cxx_type", "f_type", "f_kind",
                                                         "f_c_type", "f_cast", "f_module", "sh_type", "idtor")
                          if hasattr(t, f)))
from shroud import wrapp  # noqa
py_raw = [plain(dict(r)) for r in wrapp.py_statements]
out = {"py_raw": py_raw, "lang": lang, "rows": rows, "raw": raw, "CHelpers": plain(whelpers.CHelpers), "FHelpers": plain(whelpers.FHelpers),
       "typemaps": tm, "fmt": plain(lib.fmtdict._to_full_dict())}
json.dump(out, sys.stdout)
