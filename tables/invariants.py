"""Representation invariants over the constant tables (statements.fc_statements, whelpers.CHelpers/FHelpers,
typemap.initialize()).  A table invariant is a closed proposition: it is decided by evaluating it on the table the
REAL modules build (tables/dump.py, run under /venv/bin/python against the tree under check), exhaustively, on
every run.  Each (row, clause) is one obligation reported through ctx.item()."""
import json
import os
import re
import subprocess

HERE = os.path.dirname(os.path.abspath(__file__))
VENV_PY = "/venv/bin/python"


def load_tables(repo):
    out = {}
    for lang in ("c", "cxx"):
        env = dict(os.environ)
        env["VERIF_REPO"] = repo
        p = subprocess.run([VENV_PY, os.path.join(HERE, "dump.py"), lang], capture_output=True, text=True, env=env, timeout=120)
        if p.returncode != 0:
            raise RuntimeError("table dump failed for %s: %s" % (lang, p.stderr[-1500:]))
        out[lang] = json.loads(p.stdout[p.stdout.index("{"):])
    return out


TEMPLATE_FIELDS = ("pre_call", "call", "post_call", "final", "ret", "declare", "cleanup", "fail", "destructor")
CALL_RX = re.compile(r'\b((?:\{C_prefix\})?Shroud[A-Za-z]+)\s*\(')


def row_text(row):
    lines = []
    for f in TEMPLATE_FIELDS:
        v = row.get(f)
        if isinstance(v, list):
            lines += [x for x in v if isinstance(x, str)]
    return lines


def helper_sources(h, lang):
    src = []
    for k in ("source", lang + "_source"):
        if isinstance(h.get(k), str):
            src.append(h[k])
    if not src:
        for k in ("c_source", "cxx_source"):
            if isinstance(h.get(k), str):
                src.append(h[k])
    return "\n".join(src)


DEF_RX = re.compile(r'^(?:static\s+)?(?:[A-Za-z_][\w:<>]*[\s\*]+)+\**\s*([A-Za-z_]\w*)\s*\(', re.M)


def provided_functions(h, lang):
    """names of the C functions a helper's source DEFINES (a '(' after the name on a line that opens a body)"""
    names = set()
    text = helper_sources(h, lang)
    for m in DEF_RX.finditer(text):
        line_end = text.find("\n", m.start())
        line = text[m.start():line_end if line_end >= 0 else None]
        nxt = text[line_end + 1:line_end + 3] if line_end >= 0 else ""
        if line.rstrip().endswith(";"):
            continue     # prototype
        names.add(m.group(1))
    return names


def closure(helpers, names, table):
    seen = []
    todo = list(names)
    while todo:
        n = todo.pop()
        if n in seen:
            continue
        seen.append(n)
        h = table.get(n)
        if h:
            todo += list(h.get("dependent_helpers") or [])
    return seen


# ------------------------------------------------------------------------------------------------- C05 / T1
def helper_closure(ctx, tabs):
    """every Shroud* function called by a row's templates is defined by a helper the row lists (or one reachable
    through dependent_helpers); every helper named exists; dependent_helpers is acyclic."""
    for lang, t in sorted(tabs.items()):
        CH, FH = t["CHelpers"], t["FHelpers"]
        provides = dict((k, provided_functions(h, lang)) for k, h in CH.items())
        # acyclicity + existence of dependent helpers
        for table, nm in ((CH, "CHelpers"), (FH, "FHelpers")):
            for k, h in sorted(table.items()):
                for dep in h.get("dependent_helpers") or []:
                    ctx.item("C05/T1/%s/%s[%s].dependent_helpers:%s" % (lang, nm, k, dep), dep in table,
                             "dependent helper %r of %r does not exist" % (dep, k))
                # cycle check
                stack, ok = [(k, (k,))], True
                while stack and ok:
                    cur, path = stack.pop()
                    for dep in (table.get(cur) or {}).get("dependent_helpers") or []:
                        if dep in path:
                            ok = False
                        elif len(path) < 20:
                            stack.append((dep, path + (dep,)))
                ctx.item("C05/T1/%s/%s[%s].acyclic" % (lang, nm, k), ok, "dependent_helpers cycle through %r" % k)
        for rname, row in sorted(t["rows"].items()):
            listed = (row.get("c_helper") or "").split()
            if rname.startswith("f_"):
                # a Fortran row that asks for a C-implemented helper: that helper (and what it depends on) must have
                # code for the language of the library, else the module binds to a function nobody defines
                if lang == "c" and rname.split("_")[1] in ("string", "vector", "shadow"):
                    continue
                for hname in listed:
                    if hname not in CH:
                        continue
                    for dep in closure(CH, [hname], CH):
                        hh = CH.get(dep) or {}
                        has = any(isinstance(hh.get(k), str) and hh.get(k).strip() for k in ("source", lang + "_source"))
                        needs = any(isinstance(hh.get(k), str) and hh.get(k).strip() for k in ("source", "c_source", "cxx_source"))
                        ctx.item("C05/T1/%s/%s.c_helper:%s.source" % (lang, rname, dep), has or not needs,
                                 "Fortran row %s relies on the C helper %s, which has no source for language %s" % (rname, dep, lang),
                                 sample={"row": rname, "helper": dep, "lang": lang})
                continue
            for hname in listed:
                ctx.item("C05/T1/%s/%s.c_helper:%s" % (lang, rname, hname), hname in CH or "{" in hname,
                         "row %s lists unknown helper %r" % (rname, hname))
            reach = closure(CH, [h for h in listed if h in CH], CH)
            avail = set()
            for h in reach:
                avail |= provides.get(h, set())
            called = set()
            for line in row_text(row):
                for m in CALL_RX.finditer(line):
                    called.add(m.group(1).replace("{C_prefix}", ""))
            for fn in sorted(called):
                ok = fn in avail or any(fn == p.replace("{C_prefix}", "") for p in avail)
                ctx.item("C05/T1/%s/%s.calls:%s" % (lang, rname, fn), ok,
                         "row %s calls %s() but lists helpers %r (closure %r), none of which defines it" % (rname, fn, listed, reach),
                         sample={"row": rname, "lang": lang, "calls": fn, "c_helper": listed})


LIBC = {"strlen": "string", "memcpy": "string", "memset": "string", "strcpy": "string", "strncpy": "string",
        "strcmp": "string", "strncmp": "string", "memmove": "string", "strcat": "string", "memcmp": "string"}
LIBC_HEADER = {("string", "c"): "<string.h>", ("string", "cxx"): "<cstring>"}
LIBC_RX = re.compile(r'(?<![\w>.])(?:\{stdlib\}|std::)?(%s)\s*\(' % "|".join(sorted(LIBC)))


def libc_header_closure(ctx, tabs):
    """C05/T2: a row whose code templates call a <string.h> function gets the declaring header into the wrapper file:
    through its own (inherited) impl_header list or through the include list of a helper it lists (closure).  Without
    it the wrapper compiles only if the user's header happens to drag the declaration in."""
    for lang, t in sorted(tabs.items()):
        CH = t["CHelpers"]
        for rname, row in sorted(t["rows"].items()):
            if rname.startswith("f_"):
                continue
            if lang == "c" and rname.split("_")[1] in ("string", "vector", "shadow"):
                continue     # C++-only argument groups: never selected for a C library
            used = set()
            for line in row_text(row):
                for m in LIBC_RX.finditer(line):
                    used.add(m.group(1))
            if not used:
                continue
            have = set(row.get("impl_header") or []) | set(row.get(lang + "_impl_header") or [])
            listed = [h for h in (row.get("c_helper") or "").split() if h in CH]
            for h in closure(CH, listed, CH):
                hh = CH.get(h) or {}
                have |= set(hh.get(lang + "_include") or []) | set(hh.get("include") or [])
            for fn in sorted(used):
                need = LIBC_HEADER[(LIBC[fn], lang)]
                ctx.item("C05/T2/%s/%s.libc:%s" % (lang, rname, fn), need in have,
                         "row %s calls %s() but neither its impl_header list nor the helpers it lists bring in %s (has %r)" % (
                             rname, fn, need, sorted(have)),
                         sample={"row": rname, "lang": lang, "calls": fn, "needs": need})


F_TYPE_HELPER = {"F_array_type": "array_context", "F_capsule_data_type": "capsule_data_helper", "F_capsule_type": "capsule_helper"}
F_TEXT_FIELDS = ("declare", "arg_decl", "pre_call", "call", "post_call", "arg_c_call")


def fortran_type_closure(ctx, tabs):
    """C05/T3: a Fortran row whose own declarations use one of the helper-defined derived types lists the helper that
    defines it (closure through dependent_helpers).  Wrapf adds these helpers itself only on the buf_args path of
    build_arg_list_impl, which a row with arg_c_call bypasses."""
    for lang, t in sorted(tabs.items()):
        FH = t["FHelpers"]
        for rname, row in sorted(t["rows"].items()):
            if not rname.startswith("f_"):
                continue
            text = " ".join(str(x) for f in F_TEXT_FIELDS for x in (row.get(f) or []))
            listed = [h for h in (row.get("f_helper") or "").split() if h in FH]
            reach = set(closure(FH, listed, FH))
            for ph, helper in sorted(F_TYPE_HELPER.items()):
                if "{%s}" % ph in text:
                    ctx.item("C05/T3/%s/%s.type:%s" % (lang, rname, ph), helper in reach,
                             "row %s declares a variable of type {%s} but its f_helper list %r does not reach %s, which "
                             "defines that type" % (rname, ph, listed, helper),
                             sample={"row": rname, "uses": ph, "f_helper": listed})


# ------------------------------------------------------------------------------------------------- helpers for call parsing
def split_args(text):
    """top-level comma split of a C argument list text"""
    out, depth, cur = [], 0, ""
    for ch in text:
        if ch in "([":
            depth += 1
        elif ch in ")]":
            depth -= 1
        if ch == "," and depth == 0:
            out.append(cur.strip())
            cur = ""
        else:
            cur += ch
    if cur.strip():
        out.append(cur.strip())
    return [a.replace("\t", "").strip() for a in out]


def calls_of(lines, fname):
    """argument lists of every call of fname( in the joined template text"""
    text = " ".join(lines)
    res = []
    for m in re.finditer(r'\b' + re.escape(fname) + r'\s*\(', text):
        i = m.end()
        depth = 1
        j = i
        while j < len(text) and depth:
            if text[j] == "(":
                depth += 1
            elif text[j] == ")":
                depth -= 1
            j += 1
        res.append(split_args(text[i:j - 1]))
    return res


CAP_LEN = "{c_var_len}"
CAP_CFI = "{cfi_prefix}{c_var}->elem_len"


# ------------------------------------------------------------------------------------------------- C06 / T1
def release_pairing(ctx, tabs):
    """temporary buffers a row allocates are freed by the row, last thing; a destructor entry deletes what the
    row's pre_call allocates, with the matching deallocator; `new` results are owned (capsule) or destroyed."""
    for lang, t in sorted(tabs.items()):
        for rname, row in sorted(t["rows"].items()):
            if not rname.startswith("c_"):
                continue
            pre = [x for x in row.get("pre_call") or [] if isinstance(x, str)]
            post = [x for x in row.get("post_call") or [] if isinstance(x, str)]
            for alloc, free in (("ShroudStrAlloc", "ShroudStrFree"), ("ShroudStrArrayAlloc", "ShroudStrArrayFree")):
                if calls_of(pre, alloc):
                    var = None
                    for line in pre:
                        m = re.search(r'(\{\w+\})\s*=\s*' + alloc + r'\s*\(', line.replace("\t", ""))
                        if m:
                            var = m.group(1)
                    last = post[-1].replace("\t", "") if post else ""
                    frees = calls_of([last], free)
                    ok = bool(frees) and var is not None and frees[0] and frees[0][0] == var and len(calls_of(post, free)) == 1
                    ctx.item("C06/T1/%s/%s.%s-freed-last" % (lang, rname, alloc), ok,
                             "row %s allocates %s with %s but its last post_call line is %r" % (rname, var, alloc, last),
                             sample={"row": rname, "alloc": alloc, "var": var, "last_post_call": last})
            if "inout" in rname.split("_"):
                bufs_ = row.get("buf_args") or []
                cfi_ = any("CFI_cdesc_t" in (x or "") for x in row.get("c_arg_decl") or [])
                for args in calls_of(pre, "ShroudStrAlloc"):
                    ok = len(args) == 3 and ((args[1] == CAP_LEN and "len" in bufs_) or (args[1] == CAP_CFI and cfi_))
                    ctx.item("C06/T1/%s/%s.temporary-has-declared-capacity" % (lang, rname), ok,
                             "intent(inout) temporary allocated with %r: the callee may write up to the declared length" % (args,),
                             sample={"row": rname, "call": args})
            dn = row.get("destructor_name")
            if dn:
                d = [x for x in row.get("destructor") or [] if isinstance(x, str)]
                text = " ".join(d)
                ctx.item("C06/T1/%s/%s.destructor-nonempty" % (lang, rname), bool(d), "destructor_name without destructor lines")
                # what is allocated for {cxx_var}
                news = re.findall(r'new\s+([A-Za-z_:][\w:<>{}]*)', " ".join(pre).replace("\t", ""))
                if news:
                    ty = news[0]
                    ok = ("delete cxx_ptr;" in text) and ("reinterpret_cast<%s *>(ptr)" % ty) in text.replace("\t", "") and "free(" not in text
                    ctx.item("C06/T1/%s/%s.destructor-matches-new" % (lang, rname), ok,
                             "row %s creates `new %s` but its destructor is %r" % (rname, ty, text),
                             sample={"row": rname, "new": ty, "destructor": d})
                else:
                    ok = "delete cxx_ptr;" in text or "free(" in text
                    ctx.item("C06/T1/%s/%s.destructor-releases" % (lang, rname), ok, "destructor does not release ptr: %r" % text)
                bufs = row.get("buf_args") or []
                ctx.item("C06/T1/%s/%s.destructor-has-capsule" % (lang, rname),
                         "context" in bufs or "capsule" in bufs or "arg_decl" in bufs,
                         "row with a destructor passes no context/capsule to carry the destructor index: %r" % bufs)
            # a `new` must end up owned by a capsule (destructor_name / owner caller) or be deleted in the row
            for line in pre:
                for ty in re.findall(r'=\s*new\s+([A-Za-z_:][\w:<>{}]*)', line.replace("\t", "")):
                    ok = bool(dn) or row.get("owner") == "caller" or "delete" in " ".join(post)
                    ctx.item("C06/T1/%s/%s.new-is-owned:%s" % (lang, rname, ty), ok,
                             "row %s allocates `new %s` but has no destructor_name, owner is %r and post_call does not delete"
                             % (rname, ty, row.get("owner")))


def cfi_twin_keeps_release(ctx, tabs):
    """C06/T2: a result row of the bufferify family that takes over ownership of the result (it hands {idtor} to the
    array descriptor so that the copy helper releases the payload) has a CFI twin; the twin copies the payload into an
    allocatable and must take over ownership too (use {idtor} / release the payload) -- otherwise an owner(caller)
    result is never released on the F_CFI path."""
    for lang, t in sorted(tabs.items()):
        rows = t["rows"]
        for rname, row in sorted(rows.items()):
            if not (rname.startswith("c_") and rname.endswith("_result_buf_allocatable")):
                continue
            twin = rname.replace("_result_buf_allocatable", "_result_cfi_allocatable")
            if twin not in rows:
                continue
            text = " ".join(row_text(row))
            if "{idtor}" not in text:
                continue
            ttext = " ".join(row_text(rows[twin]))
            pre = " ".join(x for x in row.get("pre_call") or [] if isinstance(x, str))
            tpre = " ".join(x for x in rows[twin].get("pre_call") or [] if isinstance(x, str))
            if re.search(r'=\s*new\b', pre) and not re.search(r'=\s*new\b', tpre):
                # the bufferify row owns a heap copy it made itself (result by value); the twin keeps the value on the
                # stack: nothing to release
                ctx.item("C06/T2/%s/%s.takes-ownership" % (lang, twin), True, sample={"row": twin, "no heap copy": True})
                continue
            ok = "{idtor}" in ttext or re.search(r'\bdelete\b|\bfree\s*\(|memory_dtor|C_memory_dtor_function', ttext) is not None
            ctx.item("C06/T2/%s/%s.takes-ownership" % (lang, twin), ok,
                     "row %s hands {idtor} to the descriptor so that the payload is released after the copy; its CFI twin %s "
                     "copies the payload and drops ownership" % (rname, twin),
                     sample={"row": twin, "twin_of": rname})


def capsule_dummy_intent(ctx, tabs):
    """C06/T3: a Fortran row that hands memory to the caller through a capsule dummy (a finalizable derived type,
    {F_capsule_type}) declares that dummy intent(OUT): the previous content of the caller's variable is then finalised
    (released) on entry instead of being overwritten and leaked when the same capsule is used for a second call."""
    for lang, t in sorted(tabs.items()):
        for rname, row in sorted(t["rows"].items()):
            if not rname.startswith("f_"):
                continue
            for line in row.get("arg_decl") or []:
                if isinstance(line, str) and "type({F_capsule_type})" in line.replace(" ", "").replace("type(", "type(") \
                        or isinstance(line, str) and "{F_capsule_type}" in line:
                    ok = re.search(r'intent\(\s*OUT\s*\)', line, re.I) is not None
                    ctx.item("C06/T3/%s/%s.capsule-dummy-intent-out" % (lang, rname), ok,
                             "row %s declares its capsule dummy %r: without intent(OUT) a capsule that is reused keeps "
                             "(and then loses) the memory of the previous call" % (rname, line), sample={"row": rname, "decl": line})


# ------------------------------------------------------------------------------------------------- C10 / T1
CAP_LEN = "{c_var_len}"
CAP_CFI = "{cfi_prefix}{c_var}->elem_len"
TRIM = "{c_var_trim}"


def char_call_roles(ctx, tabs):
    """which buffer, which capacity and which trimmed length every string-helper call in a row passes."""
    for lang, t in sorted(tabs.items()):
        for rname, row in sorted(t["rows"].items()):
            if not rname.startswith("c_"):
                continue
            bufs = row.get("buf_args") or []
            lines = row_text(row)
            alltext = " ".join(lines).replace("\t", "")
            cfi = any("CFI_cdesc_t" in (x or "") for x in row.get("c_arg_decl") or [])
            local_ptrs = set(re.findall(r'char\s*\*\s*(\w+)\s*=\s*\{c_var\}', alltext))
            trim_local = bool(re.search(r'\{c_var_trim\}\s*=\s*ShroudLenTrim\(\{c_var\},\s*(\{c_var_len\}|\{cfi_prefix\}\{c_var\}->elem_len)\)', alltext))

            def cap_ok(a):
                if a == CAP_LEN:
                    return "len" in bufs
                if a == CAP_CFI:
                    return cfi
                return False

            def trim_ok(a):
                return a == TRIM and ("len_trim" in bufs or trim_local)

            for args in calls_of(lines, "ShroudStrCopy"):
                ident = "C10/T1/%s/%s.ShroudStrCopy" % (lang, rname)
                ok = len(args) == 4 and (args[0] == "{c_var}" or args[0] in local_ptrs) and cap_ok(args[1])
                ctx.item(ident + ":dest+capacity", ok,
                         "ShroudStrCopy%r: destination must be {c_var} (or a local pointer from it) with its full "
                         "capacity ({c_var_len} with len in buf_args, or the descriptor elem_len); buf_args=%r" % (tuple(args), bufs),
                         sample={"row": rname, "call": args, "buf_args": bufs})
                # what is copied is what the LIBRARY left in the source: its length is the source's own length after the
                # call (-1: strlen, or size()/length() of the std::string), never a length measured before the call
                if len(args) == 4:
                    src_len = args[3].replace(" ", "")
                    stale = src_len in ("{c_var_trim}", "{c_var_len}") and args[2] != "{c_var}"
                    ctx.item(ident + ":source-length-after-call", not stale,
                             "ShroudStrCopy%r: the source length %s was measured on the argument BEFORE the call; the library may "
                             "have changed the text (pass -1 or the string's own size)" % (tuple(args), args[3]),
                             sample={"row": rname, "call": args})
            for args in calls_of(lines, "ShroudStrBlankFill"):
                ok = len(args) == 2 and args[0] in ("{c_var}", "{cxx_var}") and cap_ok(args[1])
                ctx.item("C10/T1/%s/%s.ShroudStrBlankFill:capacity" % (lang, rname), ok,
                         "ShroudStrBlankFill%r: must be given the full capacity; buf_args=%r" % (tuple(args), bufs))
            for args in calls_of(lines, "ShroudStrAlloc"):
                ok = len(args) == 3 and args[0] == "{c_var}" and (cap_ok(args[1]) or trim_ok(args[1])) and \
                    (args[2] == "-1" or trim_ok(args[2]))
                if "inout" in rname.split("_"):
                    # the library may rewrite the text in place up to the declared length: the working copy must have
                    # the full capacity, not the trimmed length of the incoming value
                    ctx.item("C10/T1/%s/%s.ShroudStrAlloc:inout-capacity" % (lang, rname), len(args) == 3 and cap_ok(args[1]),
                             "ShroudStrAlloc%r in an intent(inout) row: the block must be sized by the declared length "
                             "({c_var_len} with len in buf_args, or the descriptor elem_len)" % (tuple(args),),
                             sample={"row": rname, "call": args, "buf_args": bufs})
                # the block is nsrc+1 bytes and ntrim bytes are copied: ntrim <= nsrc needs N to be the capacity when
                # T is computed (-1), and T == N or T the trimmed length of the same buffer otherwise
                ctx.item("C10/T1/%s/%s.ShroudStrAlloc:lengths" % (lang, rname), ok,
                         "ShroudStrAlloc%r: (src, N, T) must be ({c_var}, capacity|trim, trim|-1) with the lengths in buf_args=%r"
                         % (tuple(args), bufs), sample={"row": rname, "call": args, "buf_args": bufs})
            for args in calls_of(lines, "ShroudLenTrim"):
                ok = len(args) == 2 and (args[0] == "{c_var}" or args[0] in local_ptrs) and cap_ok(args[1])
                ctx.item("C10/T1/%s/%s.ShroudLenTrim:capacity" % (lang, rname), ok,
                         "ShroudLenTrim%r: must scan the full capacity of {c_var}; buf_args=%r" % (tuple(args), bufs))
            for m in re.finditer(r'std::string\s+\{cxx_var\}\((\{c_var\}),\s*([^)]*)\)', alltext):
                ok = trim_ok(m.group(2).strip())
                ctx.item("C10/T1/%s/%s.std::string(ptr,n):trimmed" % (lang, rname), ok,
                         "std::string {cxx_var}({c_var}, %s): the length must be the trimmed length (len_trim in buf_args "
                         "or computed by ShroudLenTrim over the capacity)" % m.group(2))
            # a std::string built from a blank-padded Fortran element (a pointer walking the buffer): its length is the
            # trimmed length of THAT element over the element capacity, so an all-blank element becomes ""
            for args in calls_of([l.replace("\t", "") for l in lines], "std::string"):
                if len(args) == 2 and (args[0] in local_ptrs or args[0] == "{c_var}") and "in" in rname.split("_") + \
                        (["in"] if "inout" in rname.split("_") else []):
                    inner = calls_of([args[1]], "ShroudLenTrim")
                    ok = trim_ok(args[1].strip()) or (args[1].strip().startswith("ShroudLenTrim") and len(inner) == 1 and
                                                      len(inner[0]) == 2 and inner[0][0] == args[0] and cap_ok(inner[0][1]))
                    ctx.item("C10/T1/%s/%s.std::string(elem,n):trimmed" % (lang, rname), ok,
                             "std::string(%s, %s): text received from Fortran must be built with its trimmed length "
                             "(ShroudLenTrim over the element capacity); later trimming with find_last_not_of leaves an "
                             "all-blank element blank" % (args[0], args[1]), sample={"row": rname, "call": args})
            for args in calls_of(lines, "memset"):
                if args and args[0] == "{c_var}":
                    ok = len(args) == 3 and args[1] == "' '" and cap_ok(args[2])
                    ctx.item("C10/T1/%s/%s.memset:blank-capacity" % (lang, rname), ok, "memset%r" % (tuple(args),))
            # direction: input rows pass a trimmed length, output/result rows the capacity
            parts = rname.split("_")
            if ("buf" in parts or "cfi" in parts) and parts[1] in ("char", "string") and "in" in parts:
                uses_trim = "len_trim" in bufs or trim_local or any(a[2:3] == ["-1"] for a in calls_of(lines, "ShroudStrAlloc")) \
                    or ("{c_var_trim}" in alltext) or bool(calls_of(lines, "ShroudStrArrayAlloc"))
                ctx.item("C10/T1/%s/%s.input-is-trimmed" % (lang, rname), uses_trim or cfi and "ShroudStrAlloc" in alltext,
                         "input row does not use a trimmed length: buf_args=%r" % bufs)
            if ("buf" in parts) and parts[1] in ("char", "string") and ("out" in parts or "result" in parts) \
                    and "allocatable" not in parts:
                ctx.item("C10/T1/%s/%s.output-has-capacity" % (lang, rname), "len" in bufs,
                         "output row is not given the declared length: buf_args=%r" % bufs)
            # text returned into a fixed-length Fortran variable defines ALL of it: the row goes through a helper
            # proved to blank-fill up to the capacity, or blank-fills with memset over the capacity itself
            if ("buf" in parts or "cfi" in parts) and parts[1] in ("char", "string") and \
                    ("out" in parts or "result" in parts or "inout" in parts) and "allocatable" not in parts \
                    and not rname.startswith("c_mixin"):
                fills = False
                for args in calls_of(lines, "ShroudStrCopy"):
                    fills = fills or (len(args) == 4 and cap_ok(args[1]))
                for args in calls_of(lines, "ShroudStrBlankFill"):
                    fills = fills or (len(args) == 2 and cap_ok(args[1]))
                for args in calls_of(lines, "memset"):
                    fills = fills or (len(args) == 3 and args[1] == "' '" and cap_ok(args[2]))
                ctx.item("C10/T1/%s/%s.destination-fully-defined" % (lang, rname), fills,
                         "row %s writes text into a fixed-length Fortran variable but neither ShroudStrCopy / "
                         "ShroudStrBlankFill nor memset(' ') covers its whole capacity: the tail keeps whatever it held" % rname,
                         sample={"row": rname})


# ------------------------------------------------------------------------------------------------- C04
ISO_KIND = {  # oracle: ISO/IEC 1539-1 Table 18.2 (interoperable intrinsic types); unsigned -> same kind
    "short": "C_SHORT", "int": "C_INT", "long": "C_LONG", "long long": "C_LONG_LONG",
    "unsigned short": "C_SHORT", "unsigned int": "C_INT", "unsigned long": "C_LONG", "unsigned long long": "C_LONG_LONG",
    "size_t": "C_SIZE_T", "int8_t": "C_INT8_T", "int16_t": "C_INT16_T", "int32_t": "C_INT32_T", "int64_t": "C_INT64_T",
    "uint8_t": "C_INT8_T", "uint16_t": "C_INT16_T", "uint32_t": "C_INT32_T", "uint64_t": "C_INT64_T",
    "float": "C_FLOAT", "double": "C_DOUBLE", "float complex": "C_FLOAT_COMPLEX", "double complex": "C_DOUBLE_COMPLEX",
    "bool": "C_BOOL", "char": "C_CHAR",
}
F_INTRINSIC = {"C_FLOAT": "real", "C_DOUBLE": "real", "C_FLOAT_COMPLEX": "complex", "C_DOUBLE_COMPLEX": "complex",
               "C_BOOL": "logical", "C_CHAR": "character"}
KNOWN_BUF = {"arg", "arg_decl", "shadow", "size", "capsule", "context", "len_trim", "len"}


def parse_c_param(text):
    t = text.replace("\t", " ").strip()
    t = re.sub(r'\{cfi_prefix\}|\{c_var\}|\{cxx_var\}', ' @ ', t)
    stars = t.count("*")
    words = [w for w in re.split(r'[\s\*@]+', t) if w and w != "const"]
    return " ".join(words), stars


def parse_f_decl(text):
    t = text.replace("\t", " ").strip()
    if "::" not in t:
        return None
    left, right = t.split("::", 1)
    parts = split_args(left)
    tspec = parts[0].strip()
    attrs = [a.strip().lower() for a in parts[1:]]
    name = right.strip()
    dim = None
    m = re.match(r'^(\{?\w+\}?)\s*(\(.*\)|\{f_c_dimension\})?$', name)
    if m:
        dim = m.group(2)
    return {"type": tspec, "attrs": attrs, "dim": dim, "name": name}


def interop(cdecl, fdecl):
    """independent oracle (DESIGN Appendix B): is this Fortran dummy interoperable with this C parameter?"""
    base, stars = parse_c_param(cdecl)
    f = parse_f_decl(fdecl)
    if f is None:
        return False, "unparsable Fortran declaration"
    value = "value" in f["attrs"]
    ft = f["type"].replace(" ", "")
    ftl = ft.lower()
    if base == "CFI_cdesc_t" and stars == 1:
        ok = not value and (ftl.startswith("character(len=*)") or ftl.startswith("character(len=:)")
                            or (f["dim"] or "") in ("{f_c_dimension}",) or "(:" in (f["dim"] or ""))
        return ok, "descriptor parameter needs an assumed-shape/assumed-length dummy without VALUE"
    if base == "char" and stars == 0:
        return (ftl == "character(kind=c_char)" and value and not f["dim"]), "char by value <-> character(kind=C_CHAR), value"
    if base == "char" and stars == 1:
        return (ftl == "character(kind=c_char)" and not value and f["dim"] == "(*)"), "char * <-> character(kind=C_CHAR) :: x(*)"
    if stars == 2:
        ok = ftl == "type(c_ptr)" and (value or True)
        return ok, "T ** <-> type(C_PTR)"
    if base == "void" and stars == 1:
        return (ftl == "type(c_ptr)" and value), "void * <-> type(C_PTR), value"
    if base in ISO_KIND:
        kind = ISO_KIND[base]
        intrinsic = F_INTRINSIC.get(kind, "integer")
        want = "%s(%s)" % (intrinsic, kind.lower())
        if stars == 0:
            return (ftl == want and value), "%s by value <-> %s, value" % (base, want)
        if stars == 1:
            return (ftl == want and not value), "%s * <-> %s by reference" % (base, want)
    return False, "pairing not in the interoperability table"


def fortran_c_agreement(ctx, tabs):
    for lang, t in sorted(tabs.items()):
        # T1: statement rows
        for rname, row in sorted(t["rows"].items()):
            bufs = (row.get("buf_args") or []) + (row.get("buf_extra") or [])
            for b in bufs:
                ctx.item("C04/T1/%s/%s.buf_args:%s" % (lang, rname, b), b in KNOWN_BUF,
                         "unknown buf_args member %r: build_proto_list / build_arg_list_interface raise on it" % b)
            cdecl, fdecl = row.get("c_arg_decl") or [], row.get("f_arg_decl") or []
            if "arg_decl" in (row.get("buf_args") or []):
                ok = len(cdecl) == 1 and len(fdecl) == 1
                ctx.item("C04/T1/%s/%s.arg_decl:one-each" % (lang, rname), ok,
                         "arg_decl rows need exactly one C and one Fortran declaration: %r %r" % (cdecl, fdecl))
                if ok:
                    good, why = interop(cdecl[0], fdecl[0])
                    ctx.item("C04/T1/%s/%s.arg_decl:interoperable" % (lang, rname), good,
                             "C %r vs Fortran %r: %s" % (cdecl[0], fdecl[0], why),
                             sample={"row": rname, "c": cdecl[0], "f": fdecl[0]})
            elif cdecl or fdecl:
                ctx.item("C04/T1/%s/%s.arg_decl:unused-decl" % (lang, rname), False,
                         "c_arg_decl/f_arg_decl given but arg_decl is not in buf_args (they would be ignored)")
        # T2: typemap kinds
        for name, tm in sorted(t["typemaps"].items()):
            ctype = tm.get("c_type")
            if tm.get("sgroup") not in ("native", "bool", "char") or ctype not in ISO_KIND:
                continue
            kind = ISO_KIND[ctype]
            ident = "C04/T2/%s/typemap[%s]" % (lang, name)
            ctx.item(ident + ".f_kind", (tm.get("f_kind") or "").upper() == kind,
                     "f_kind %r, ISO_C_BINDING kind of %s is %s" % (tm.get("f_kind"), ctype, kind),
                     sample={"typemap": name, "c_type": ctype, "kind": kind})
            ftype = (tm.get("f_c_type") or tm.get("f_type") or "").upper().replace(" ", "")
            intrinsic = F_INTRINSIC.get(kind, "integer").upper()
            ok = ftype in ("%s(%s)" % (intrinsic, kind), "%s(KIND=%s)" % (intrinsic, kind))
            ctx.item(ident + ".f_type", ok, "interface type %r is not %s(%s)" % (ftype, intrinsic, kind))
            cast = (tm.get("f_cast") or "").upper().replace(" ", "")
            ok = cast == "{F_VAR}" or cast.endswith(",%s)" % kind)
            ctx.item(ident + ".f_cast", ok, "f_cast %r does not convert to kind %s" % (tm.get("f_cast"), kind))
        # T3: paired C struct / Fortran derived type, type-code tables, bind(C) helper interfaces
        CH, FH = t["CHelpers"], t["FHelpers"]
        for hname in ("capsule_data_helper", "array_context"):
            cs = c_struct_members(helper_sources(CH[hname], lang))
            fs = f_type_members(FH[hname].get("derived_type") or "")
            ident = "C04/T3/%s/%s" % (lang, hname)
            ctx.item(ident + ".member-count", len(cs) == len(fs) and len(cs) > 0,
                     "C struct has %d members %r, Fortran type has %d %r" % (len(cs), cs, len(fs), fs))
            for i, (c, f) in enumerate(zip(cs, fs)):
                good, why = member_interop(c, f)
                ctx.item(ident + ".member%d" % i, good, "C member %r vs Fortran component %r: %s" % (c, f, why),
                         sample={"helper": hname, "c": c, "f": f})
        cdefs = c_defines(helper_sources(CH["ShroudTypeDefines"], lang))
        fdefs = f_parameters(FH["ShroudTypeDefines"].get("derived_type") or "")
        ctx.item("C04/T3/%s/SH_TYPE.same-names" % lang, sorted(cdefs) == sorted(fdefs) and len(cdefs) > 10,
                 "names differ: only C %r, only Fortran %r" % (sorted(set(cdefs) - set(fdefs)), sorted(set(fdefs) - set(cdefs))))
        for k in sorted(set(cdefs) & set(fdefs)):
            ctx.item("C04/T3/%s/SH_TYPE.%s" % (lang, k), cdefs[k] == fdefs[k], "C value %r, Fortran value %r" % (cdefs[k], fdefs[k]))
        cfuncs = {}
        for hname, h in CH.items():
            for name, params in c_function_params(helper_sources(h, lang)).items():
                cfuncs[name] = params
        cfuncs.setdefault("%sSHROUD_memory_destructor" % "LIB_", None)
        for hname, h in sorted(FH.items()):
            for bname, dummies in f_bind_interfaces(h.get("interface") or "").items():
                ident = "C04/T3/%s/FHelpers[%s].bind(%s)" % (lang, hname, bname)
                if bname.endswith("SHROUD_memory_destructor"):
                    # defined by Wrapc.write_capsule_code: void {C_memory_dtor_function}({C_capsule_data_type} *cap)
                    ctx.item(ident + ".arity", len(dummies) == 1 and dummies[0]["type"].lower().startswith("type(")
                             and "value" not in dummies[0]["attrs"], "memory destructor takes one capsule by reference")
                    continue
                ctx.item(ident + ".defined", bname in cfuncs, "no C helper defines %s" % bname)
                if bname in cfuncs and cfuncs[bname] is not None:
                    params = cfuncs[bname]
                    ctx.item(ident + ".arity", len(params) == len(dummies),
                             "C has %d parameters %r, interface has %d dummies" % (len(params), params, len(dummies)))
                    for i, (c, f) in enumerate(zip(params, dummies)):
                        good, why = helper_param_interop(c, f)
                        ctx.item(ident + ".param%d" % i, good, "C %r vs Fortran %r: %s" % (c, f, why))


def lookup_path_agreement(ctx, repo):
    """C04/T4: every site that looks up "the C statement row" of an argument / result resolves to the same row on
    every point of the key domain (tables/lookup_agree.py: keys read from the real source, real lookup function)."""
    for lang in ("c", "cxx"):
        env = dict(os.environ)
        env["VERIF_REPO"] = repo
        p = subprocess.run([VENV_PY, os.path.join(HERE, "lookup_agree.py"), lang], capture_output=True, text=True, env=env, timeout=600)
        if p.returncode != 0:
            raise RuntimeError("lookup_agree failed for %s: %s" % (lang, p.stderr[-1500:]))
        d = json.loads(p.stdout[p.stdout.index("{"):])
        ctx.item("C04/T4/%s/key-components-recognised" % lang, not d["unrecognised"],
                 "lookup key components the checker does not know: %r" % d["unrecognised"])
        kinds = d["kinds"]
        for want in ("argument", "function result", "result passed as argument"):
            ctx.item("C04/T4/%s/%s.sites" % (lang, want), want in kinds and len(kinds[want]["sites"]) >= 3,
                     "expected the three lookup sites (wrapc.wrap_function, wrapf.wrap_function_interface, "
                     "wrapf.wrap_function_impl) for %s, found %r" % (want, (kinds.get(want) or {}).get("sites")))
        for kind, v in sorted(kinds.items()):
            mm = v["mismatches"]
            ctx.item("C04/T4/%s/%s.same-row" % (lang, kind), not mm and v["points"] > 0,
                     "the sites %r resolve to different statement rows, e.g. at %r" % (v["sites"], mm[:1]),
                     sample={"kind": kind, "sites": v["sites"], "points_evaluated": v["points"], "mismatch": mm[:1]})
        ctx.extra.setdefault("lookup_points", {})[lang] = dict((k, v["points"]) for k, v in kinds.items())


def c_struct_members(src):
    m = re.search(r'struct\s+\w+\s*\{\+?(.*?)\n-?\};', src, re.S)
    if not m:
        return []
    body = m.group(1)
    body = re.sub(r'/\*.*?\*/', '', body, flags=re.S)
    # collapse a nested union into one pointer member
    body = re.sub(r'union\s*\{\+?.*?-?\}\s*(\w+);', r'void * \1;', body, flags=re.S)
    out = []
    for stmt in body.split(";"):
        s = " ".join(stmt.split())
        if not s:
            continue
        arr = re.search(r'\[(\d+)\]', s)
        s2 = re.sub(r'\[\d+\]', '', s)
        stars = s2.count("*")
        words = [w for w in re.split(r'[\s\*]+', s2) if w and w != "const"]
        out.append({"type": " ".join(words[:-1]), "stars": stars, "name": words[-1], "array": int(arr.group(1)) if arr else None})
    return out


def f_type_members(src):
    out = []
    inside = False
    for line in src.split("\n"):
        l = line.split("!")[0].strip()
        if not l:
            continue
        if l.lower().startswith("type, bind(c)"):
            inside = True
            continue
        if l.lower().startswith("-end type") or l.lower().startswith("end type"):
            break
        if inside and "::" in l:
            d = parse_f_decl(l.split("=")[0].rstrip() if "=" in l.split("::")[1] else l)
            left, right = l.split("::", 1)
            name = right.split("=")[0].strip()
            m = re.match(r'^(\w+)\s*(\((\d+)\))?$', name)
            out.append({"type": left.split(",")[0].strip(), "name": m.group(1) if m else name,
                        "array": int(m.group(3)) if m and m.group(3) else None})
    return out


def member_interop(c, f):
    ft = f["type"].replace(" ", "").lower()
    if c["array"] != f["array"]:
        return False, "array extent differs"
    if c["stars"] >= 1:
        return ft == "type(c_ptr)", "pointer member <-> type(C_PTR)"
    if c["type"] in ISO_KIND:
        kind = ISO_KIND[c["type"]]
        return ft == "%s(%s)" % (F_INTRINSIC.get(kind, "integer"), kind.lower()), "%s <-> kind %s" % (c["type"], kind)
    if "SHROUD_capsule_data" in c["type"]:
        return ft.startswith("type(") and "shroud_capsule_data" in ft, "nested capsule struct"
    return False, "member type not in the interoperability table"


def c_defines(src):
    vals = {}
    for m in re.finditer(r'^#define\s+(SH_TYPE_\w+)\s+(.+?)\s*$', src, re.M):
        vals[m.group(1)] = m.group(2)
    return eval_defs(vals)


def f_parameters(src):
    vals = {}
    for m in re.finditer(r'(SH_TYPE_\w+)\s*=\s*([^,&\n]+)', src):
        vals[m.group(1)] = m.group(2).strip()
    return eval_defs(vals)


def eval_defs(vals):
    out = {}
    for _ in range(4):
        for k, v in vals.items():
            if k in out:
                continue
            try:
                out[k] = int(eval(v, {"__builtins__": {}}, dict(out)))
            except Exception:
                pass
    return out


def c_function_params(src):
    res = {}
    for m in re.finditer(r'^(?:static\s+)?(?:[A-Za-z_][\w]*[\s\*]+)+\**\s*([A-Za-z_]\w*)\s*\(([^)]*)\)\s*\n?\{', src, re.M):
        params = []
        for p in split_args(m.group(2)):
            p = " ".join(p.split())
            stars = p.count("*")
            words = [w for w in re.split(r'[\s\*]+', p) if w and w != "const"]
            params.append({"type": " ".join(words[:-1]), "stars": stars, "name": words[-1]})
        res[m.group(1)] = params
    return res


def f_bind_interfaces(src):
    res = {}
    text = src.replace("&\n", " ").replace("&+\n", " ").replace("\t", " ")
    for m in re.finditer(r'subroutine\s+\w+\s*\(([^)]*)\)\s*bind\s*\(\s*c\s*,\s*name\s*=\s*"(\w+)"\s*\)\+?(.*?)-?end subroutine', text, re.S | re.I):
        names = [a.strip() for a in m.group(1).split(",") if a.strip()]
        decls = {}
        for line in m.group(3).split("\n"):
            if "::" in line:
                d = parse_f_decl(line.strip())
                nm = re.match(r'\w+', d["name"]).group(0)
                decls[nm] = d
        res[m.group(2)] = [decls.get(n, {"type": "?", "attrs": [], "dim": None, "name": n}) for n in names]
    return res


def helper_param_interop(c, f):
    ft = f["type"].replace(" ", "").lower()
    value = "value" in f["attrs"]
    if c["stars"] == 0 and c["type"] in ISO_KIND:
        kind = ISO_KIND[c["type"]]
        return (ft == "%s(%s)" % (F_INTRINSIC.get(kind, "integer"), kind.lower()) and value), "scalar by value"
    if c["stars"] == 1 and c["type"] == "char":
        return (ft == "character(kind=c_char)" and not value and f["dim"] == "(*)"), "char * <-> character(kind=C_CHAR) :: x(*)"
    if c["stars"] == 1 and c["type"] == "void":
        return (not value and f["dim"] == "(*)"), "void * buffer <-> assumed-size array by reference"
    if c["stars"] == 1 and "SHROUD_array" in c["type"]:
        return (ft.startswith("type(") and "shroud_array" in ft and not value), "struct * <-> type(T) by reference"
    return False, "pairing not in the interoperability table"


# ------------------------------------------------------------------------------------------------- C06 / T4
def copy_array_capacity(ctx, tabs, prop="C06"):
    """the Fortran rows that copy a vector / array out of the C++ object hand the copy helper the DESTINATION and its own
    capacity -- `{f_var}` and `size({f_var}, kind=C_SIZE_T)`: the helper clamps to it; the source's size would defeat the
    clamp and write past the caller's array"""
    n = 0
    for lang, t in sorted(tabs.items()):
        for rname, row in sorted(t["rows"].items()):
            helper = row.get("f_helper") or ""
            if "copy_array" not in helper:
                continue
            text = " ".join(str(x) for k in ("post_call", "call", "pre_call") for x in (row.get(k) or [])).replace("\t", "")
            for m in re.finditer(r'call\s+\{hnamefunc\d\}\s*\(', text):
                i = m.end()
                depth, j = 1, i
                while j < len(text) and depth:
                    depth += text[j] == "("
                    depth -= text[j] == ")"
                    j += 1
                args = [a.replace(" ", "") for a in split_args(text[i:j - 1])]
                n += 1
                ok = len(args) == 3 and args[1] == "{f_var}" and args[2].lower() == "size({f_var},kind=c_size_t)"
                ctx.item("%s/T4/%s/%s.copy-helper:destination-capacity" % (prop, lang, rname), ok,
                         "%s%r: the third argument must be the capacity of the destination, size({f_var},kind=C_SIZE_T)" % (
                             helper, tuple(args)), sample={"row": rname, "call": args})
    ctx.item("%s/T4/copy-helper-rows-found" % prop, n >= 4, "only %d copy-helper call sites found (vacuity guard)" % n)


# ------------------------------------------------------------------------------------------------- C06 / T5
def python_ownership(ctx, tabs, prop="C06"):
    """C06/T5: single ownership in the Python conversion helpers and member setters.
    (a) a helper that allocates an array p and hands it to a PyCapsule (whose destructor frees it when the wrapper's
        fail/cleanup block drops the capsule) does not free p itself after the hand-over;
    (b) a member setter that drops the object owning the member's storage (Py_XDECREF of the member's data object)
        re-defines that field before EVERY return: a field left as it was dangles, and the next assignment or the
        deletion of the object releases the same object again."""
    n = 0
    for lang, t in sorted(tabs.items()):
        for hname, h in sorted(t["CHelpers"].items()):
            text = helper_sources(h, lang)
            for m in re.finditer(r'\*\s*(\w+)\s*=\s*[^;]*\b(?:malloc|calloc)\s*\(', text):
                p = m.group(1)
                own = re.search(r'PyCapsule_New\(\s*%s\s*,' % re.escape(p), text[m.end():])
                if not own:
                    continue
                n += 1
                after = text[m.end() + own.end():]
                # up to the end of this function
                ok = not re.search(r'\bfree\(\s*%s\s*\)' % re.escape(p), after.split("\n// helper ")[0])
                ctx.item("%s/T5/%s/%s.capsule-owns-%s" % (prop, lang, hname, p), ok,
                         "helper %s frees %s after the capsule that owns it was created: the capsule destructor frees it "
                         "again when the wrapper drops the capsule on its fail path" % (hname, p), sample={"helper": hname})
        for row in t.get("py_raw", []):
            lines = [l for l in (row.get("setter") or []) if isinstance(l, str)]
            for i, l in enumerate(lines):
                m = re.match(r'\s*Py_(?:X?DECREF|CLEAR)\((\{c_var_(?:data|obj)\})\);', l)
                if not m:
                    continue
                n += 1
                fld = m.group(1)
                bad = []
                last_def = None
                for j in range(i + 1, len(lines)):
                    if re.match(r'\s*%s\s*=' % re.escape(fld), lines[j]):
                        last_def = j
                    if re.match(r'\s*return\b', lines[j]):
                        # the definition must belong to this path: between the release and this return, and not before
                        # an earlier return (which ends another path)
                        prev_ret = max([k for k in range(i + 1, j) if re.match(r'\s*return\b', lines[k])] or [i])
                        if last_def is None or last_def < prev_ret:
                            bad.append(lines[j].strip())
                if last_def is None:
                    bad.append("<end of setter>")
                ctx.item("%s/T5/%s/%s.setter-redefines-%s" % (prop, lang, row.get("name"), fld.strip("{}")), not bad,
                         "setter of %s drops the owner %s and returns (%s) without re-defining the field: it dangles, and the "
                         "next assignment / deletion releases the same object again" % (row.get("name"), fld, bad),
                         sample={"row": row.get("name")})
    ctx.item("%s/T5/reached" % prop, n >= 10, "python ownership clauses evaluated on %d sites" % n)
