"""C04/T4: the C wrapper (wrapc.wrap_function), the Fortran interface (wrapf.wrap_function_interface) and the Fortran
wrapper (wrapf.wrap_function_impl) each look up "the C statement row" of an argument / result with a key list of
their own.  The keys are read from the real source (AST); the real statements.lookup_fc_stmts is evaluated on every
point of the finite key domain; all sites of one kind must resolve to the same row.  Run under /venv/bin/python.
usage: lookup_agree.py <lang>   -> JSON"""
import ast
import itertools
import json
import os
import sys

REPO = os.environ.get("VERIF_REPO", "/repo")
sys.path.insert(0, REPO)

VAR = {
    "sgroup": "SG", "c_sgroup": "SG", "result_typemap.sgroup": "SG",
    "spointer": "SP", "c_spointer": "SP",
    "intent": "IN", "c_meta['intent']": "IN", 'c_meta["intent"]': "IN",
    "arg.stmts_suffix": "SUF", "c_arg.stmts_suffix": "SUF",
    "generated_suffix": "GSUF", "node.generated_suffix": "GSUF",
    "deref_attr": "DEREF", "c_deref_attr": "DEREF", "return_deref_attr": "DEREF",
    "cdesc": "CDESC", "sintent": "SINTENT",
}
SITES = [("wrapc.py", "Wrapc", "wrap_function", ("stmts",)), ("wrapf.py", "Wrapf", "wrap_function_interface", ("c_stmts",)),
         ("wrapf.py", "Wrapf", "wrap_function_impl", ("c_stmts",))]


def find_keys():
    keys, unknown = [], []
    for fn, cls, meth, names in SITES:
        tree = ast.parse(open(os.path.join(REPO, "shroud", fn)).read())
        f = [m for c in tree.body if isinstance(c, ast.ClassDef) and c.name == cls for m in c.body
             if isinstance(m, ast.FunctionDef) and m.name == meth][0]
        for n in ast.walk(f):
            if not (isinstance(n, ast.Assign) and len(n.targets) == 1 and isinstance(n.targets[0], ast.Name)
                    and n.targets[0].id in names):
                continue
            v = n.value
            spec = False
            if isinstance(v, ast.BinOp) and isinstance(v.op, ast.Add) and isinstance(v.right, ast.Name) and v.right.id == "specialize":
                v, spec = v.left, True
            if not (isinstance(v, ast.List) and v.elts and isinstance(v.elts[0], ast.Constant) and v.elts[0].value == "c"
                    and len(v.elts) >= 5):
                continue
            elems = []
            for e in v.elts:
                if isinstance(e, ast.Constant):
                    elems.append(("const", e.value))
                else:
                    t = ast.unparse(e)
                    if t in VAR:
                        elems.append(("var", VAR[t]))
                    else:
                        elems.append(("unknown", t))
                        unknown.append("%s:%d %s" % (fn, n.lineno, t))
            fourth = elems[3]
            if fourth == ("var", "IN"):
                kind = "argument"
                spec = True        # followed by .extend(specialize) / + specialize at every argument site
            elif len(elems) == 6:
                kind = "result passed as argument"
            else:
                kind = "function result"
            keys.append({"site": "%s:%s:%d" % (fn, meth, n.lineno), "kind": kind, "elems": elems, "specialize": spec})
    return keys, unknown


def main():
    lang = sys.argv[1]
    from shroud import statements, typemap, ast as shast
    typemap.initialize()
    statements.update_statements_for_language(lang)
    keys, unknown = find_keys()
    # key domains: the documented values of each component plus every token the tree has at that depth or below
    depth = {}

    def walk(step, d):
        for k, v in step.items():
            if k.startswith("_") or not isinstance(v, dict):
                continue
            depth.setdefault(d, set()).add(k)
            walk(v, d + 1)
    walk(statements.cf_tree["c"], 1)
    sgroups = set(depth.get(1, ())) | {"native", "char", "string", "vector", "shadow", "struct", "bool", "void", "unknown"}
    deep = set()
    for d_, toks in depth.items():
        if d_ >= 4:
            deep |= toks
    dom = {
        "SG": sorted(sgroups), "SP": sorted({"scalar", "*", "**", "***", "&", "*&"} | set(depth.get(2, ()))),
        "IN": ["in", "out", "inout"],
        "SUF": sorted({"", "buf", "cfi"} | set(depth.get(4, ()))), "GSUF": sorted({"", "buf", "cfi"} | set(depth.get(4, ()))),
        # deref values: the documented ones plus any deeper token that is not a suffix / cdesc / intent token
        "DEREF": [None] + sorted({"allocatable", "pointer", "raw", "scalar"} | (
            deep - set(depth.get(4, ())) - {"", "buf", "cfi", "cdesc", "in", "out", "inout", "result"} - sgroups)),
        "CDESC": [None, "cdesc"], "SINTENT": ["result", "ctor"], "SPEC": [[]] + [[s] for s in sorted(sgroups)],
    }
    out = {"lang": lang, "sites": keys, "unrecognised": unknown, "kinds": {}, "domain": dict((k, len(v)) for k, v in dom.items())}
    for kind in sorted(set(k["kind"] for k in keys)):
        ks = [k for k in keys if k["kind"] == kind]
        vars_ = sorted(set(e[1] for k in ks for e in k["elems"] if e[0] == "var"))
        if any(k["specialize"] for k in ks):
            vars_.append("SPEC")
        n = 0
        mism = []
        for point in itertools.product(*[dom[v] for v in vars_]):
            env = dict(zip(vars_, point))
            if kind == "function result" and env.get("SINTENT") == "ctor":
                continue      # constructors use their own fixed keys on the Fortran side
            n += 1
            names = []
            for k in ks:
                path = [e[1] if e[0] == "const" else env[e[1]] for e in k["elems"]]
                if k["specialize"]:
                    path = path + list(env["SPEC"])
                blk = statements.lookup_fc_stmts(path)
                names.append(getattr(blk, "name", None) or str(id(blk)))
            if len(set(names)) > 1 and len(mism) < 5:
                mism.append({"point": dict((v, env[v]) for v in vars_), "rows": dict((k["site"], nm) for k, nm in zip(ks, names))})
        out["kinds"][kind] = {"sites": [k["site"] for k in ks], "points": n, "mismatches": mism}
    print(json.dumps(out))


if __name__ == "__main__":
    main()
