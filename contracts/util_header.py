"""C05/U2: preprocessor conditional balance of the include block (util.Header)."""
from pyvc.unit import Unit
from pyvc.values import VFun, VNone
import z3

# ghost: every appended line that opens a conditional (#if / #ifdef / #ifndef) counts +1, "#endif" counts -1
_count = """
l_ = output[-1]
depth = depth + (1 if l_.startswith('#if') else 0) - (1 if l_ == '#endif' else 0)
assert depth >= 0
"""


def _write_include_group(ref):
    """callee contract (proved as unit write_include_group): appends lines, conditionals balanced"""
    def call(ex, st, args, kw, node):
        out = args[1]
        st.heap[out.oid] = ex.fresh_cell(st.heap[out.oid], st, "output")
        return VNone()
    return VFun("Header.write_include_group[contract: balanced]", call)


TYPEDEF = ("obj", "Typemap", {"cpp_if": "py"})

write_includes_tail = Unit(
    prop="C05", name="write_includes_for_header[tail]", target="shroud/util.py::Header.write_includes_for_header",
    # slice: the language dispatch that opens and closes `#ifdef __cplusplus` around the include groups
    slice=("self.write_include_group(wrap_headers, output)", "$END"),
    params={"self": ("obj", "Header", {"newlibrary": ("obj", "LibraryNode", {"language": "str"})}),
            "output": "list[str]", "wrap_headers": "opaque", "always": "opaque",
            "c_headers": "dict[str]", "cxx_headers": "dict[str]"},
    callees={("Header", "write_include_group"): _write_include_group},
    init="depth = 0\n",
    ghost=[("after", "output.append($X)", _count)],
    ensures=["depth == 0"],
    raises=[],
)

UNITS = [write_includes_tail]

# per-header body of write_include_group: a cpp_if guard is opened and closed around the one #include
include_group_body = Unit(
    prop="C05", name="write_include_group[one header]", target="shroud/util.py::Header.write_include_group",
    slice=("if typedef and typedef.cpp_if: pass", "$END"),
    params={"typedef": ("opt", ("obj", "Typemap", {"cpp_if": "py"})), "hdr": "str", "output": "list[str]"},
    # docs: cpp_if is the conditional without the leading '#', e.g. "ifdef USE_MPI"
    requires=["len(hdr) >= 1", "implies(typedef is not None and typedef.cpp_if, isstr(typedef.cpp_if) and asstr(typedef.cpp_if).startswith('if'))"],
    init="depth = 0\nn0 = len(output)\n",
    ghost=[("after", "output.append($X)", _count)],
    ensures=["depth == 0",
             # exactly one #include line for the header, inside the guard when there is one
             "implies(typedef is not None and typedef.cpp_if, len(output) == n0 + 3 and output[n0].startswith('#if') and output[n0 + 2] == '#endif' and output[n0 + 1].startswith('#include '))",
             "implies(not (typedef is not None and typedef.cpp_if), len(output) == n0 + 1 and output[n0].startswith('#include '))"],
    raises=[],
)

extern_c = Unit(
    prop="C05", name="extern_C", target="shroud/util.py::extern_C",
    params={"output": "list[str]", "position": "str"},
    init="n0 = len(output)\n",
    ensures=[
        "implies(position == 'begin', len(output) == n0 + 3 and output[n0] == '#ifdef __cplusplus' and output[n0 + 1] == 'extern \"C\" {' and output[n0 + 2] == '#endif')",
        "implies(position != 'begin', len(output) == n0 + 3 and output[n0] == '#ifdef __cplusplus' and output[n0 + 1] == '}' and output[n0 + 2] == '#endif')",
    ],
    raises=[],
)

UNITS += [include_group_body, extern_c]


# ---------------------------------------------------------------------------------------------------------
# Wrapc.write_header / write_header_utility: include guard and conditional balance (C05/U2) and
# "listed == written" (C15/U1).  Lines appended by callees (Header.write_headers, _create_splicer, enum/struct/proto
# lists) are assumed balanced: write_headers is covered by the two units above, user splicer text is the user's.
from pyvc.values import VStr, VBool, VInt, VRef, HList, fresh_name, StrS
PATHJOIN = z3.Function("os_path_join", StrS, StrS, StrS)

_dl = "(1 if output[%s].startswith('#if') else 0) - (1 if output[%s].startswith('#endif') else 0)"
_on_append = "depth = depth + " + (_dl % ("len(output) - 1", "len(output) - 1")) + "\nassert depth >= 0\nnprev = len(output)\n"
_on_extend_lit = """
nn_ = len(output) - nprev
assert nn_ >= 0 and nn_ <= 4
depth = depth + ((%s) if nn_ >= 1 else 0) + ((%s) if nn_ >= 2 else 0) + ((%s) if nn_ >= 3 else 0) + ((%s) if nn_ >= 4 else 0)
assert depth >= 0
nprev = len(output)
""" % tuple(_dl % ("nprev + %d" % i, "nprev + %d" % i) for i in range(4))
_on_extend_other = "nprev = len(output)\n"


def _opaque_appender(name, result=None):
    def factory(ref):
        def call(ex, st, args, kw, node):
            for a in args:
                if isinstance(a, VRef) and isinstance(st.heap[a.oid], HList):
                    c = st.heap[a.oid]
                    n2 = z3.Int(fresh_name("len_after_" + name))
                    st.assume(n2 >= c.n)
                    arr = z3.Array(fresh_name("arr_after_" + name), z3.IntSort(), StrS)
                    k = z3.Int("kk")
                    st.assume(z3.ForAll([k], z3.Implies(z3.And(k >= 0, k < c.n), z3.Select(arr, k) == z3.Select(c.arr, k))))
                    st.heap[a.oid] = HList("str", n2, arr)
            return VBool(z3.Bool(fresh_name(name + "_result"))) if result == "bool" else VNone()
        return VFun("%s[contract: appends balanced lines]" % name, call)
    return factory


def _write_output_file(ref):
    def call(ex, st, args, kw, node):
        st.env["written"] = VInt(st.env["written"].e + 1)
        st.env["written_name"], st.env["written_dir"] = args[0], args[1]
        return VNone()
    return VFun("WrapperMixin.write_output_file[contract: writes directory/fname]", call)


def _path_join(ref):
    return VFun("os.path.join", lambda ex, st, args, kw, node: VStr(PATHJOIN(args[0].e, args[1].e)))


def _noop(ref):
    return VFun("no effect on output", lambda ex, st, args, kw, node: VNone())


_HDR = ("obj", "Header", {})
_CONFIG = ("obj", "Config", {"cfiles": "list[str]", "c_fortran_dir": "str"})
_NODE = ("obj", "Node", {"options": ("obj", "Scope0", {"doxygen": "py"}), "cpp_if": "py"})
_HOOK = ("depth = depth + (1 if appended_.startswith('#if') else 0) - (1 if appended_.startswith('#endif') else 0)\n"
         "assert depth >= 0\n")
_GHOST = [
    ("after", "self.config.cfiles.append($X)", "listed = listed + 1\nlisted_name = self.config.cfiles[-1]\n"),
]
_CALLEES = {
    ("Header", "add_typemaps_xxx"): _noop, ("Header", "add_shroud_dict"): _noop,
    ("Header", "write_headers"): _opaque_appender("write_headers"),
    ("Wrapc", "_create_splicer"): _opaque_appender("_create_splicer", "bool"),
    ("Wrapc", "write_doxygen_file"): _opaque_appender("write_doxygen_file"),
    ("Wrapc", "write_output_file"): _write_output_file,
    ("module:os.path", "join"): _path_join,
}
_INIT = "depth = 0\nlisted = 0\nwritten = 0\nlisted_name = ''\nwritten_name = ''\nwritten_dir = ''\n"
_OS = ("obj", "module:os", {"path": ("obj", "module:os.path", {})})

write_header = Unit(
    prop="C05", name="Wrapc.write_header", target="shroud/wrapc.py::Wrapc.write_header",
    params={"self": ("obj", "Wrapc", {"language": "str", "header_iface": _HDR, "header_typedef_nodes": "opaque",
                                      "c_helper_include": "opaque", "enum_impl": "list[str]", "struct_impl": "list[str]",
                                      "header_proto_c": "list[str]", "config": _CONFIG}),
            "library": _NODE, "cls": ("opt", _NODE), "fname": "str", "os": _OS},
    requires=["self.language == 'c' or self.language == 'cxx'","implies(cls is not None and cls.cpp_if, isstr(cls.cpp_if) and asstr(cls.cpp_if).startswith('if'))"],
    callees=_CALLEES, init=_INIT, ghost=_GHOST,
    ensures=[
        "depth == 0",
        "output_last_ == '#endif  // ' + guard_",
        # C15: the file is listed iff it is written, under the same name, in the C/Fortran directory
        "listed == written and written <= 1 and result == (written == 1)",
        "implies(written == 1, written_dir == self.config.c_fortran_dir and written_name == fname "
        "and listed_name == pathjoin(self.config.c_fortran_dir, fname))",
    ],
    raises=[],
)
write_header.ghost = _GHOST + [
    ("after", "guard = fname.replace('.', '_').upper()", "guard_ = guard\n"),
    ("after", "output.extend(['', '#endif  // ' + guard])", "output_last_ = output[-1]\n"),
]
write_header.init = _INIT + "guard_ = ''\noutput_last_ = ''\n"
write_header.spec_funcs = {"pathjoin": PATHJOIN}
write_header.merge_ifs = True
write_header.append_hooks = {"output": _HOOK}

UNITS += [write_header]
