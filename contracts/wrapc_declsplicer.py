"""C12/U5: a splicer given on a declaration for its C wrapper (Wrapc.wrap_function).  When the declaration carries user
code for this wrapper variant, the wrapper IS written (need_wrapper) -- also for a function that would otherwise be called
directly -- and the user's lines are the forced body; otherwise the generated body is the default and whether a wrapper
is needed is what the statements decided."""
from pyvc.unit import Unit

decl_splicer = Unit(
    prop="C12", name="Wrapc.wrap_function[splicer on the declaration]", target="shroud/wrapc.py::Wrapc.wrap_function",
    slice=("if splicer_name in node.splicer: pass", "if splicer_name in node.splicer: pass"),
    params={"node": ("obj", "FunctionNode", {"splicer": "dict[liststr]"}), "splicer_name": "str", "need_wrapper": "bool",
            "pre_call": "list[str]", "call_code": "list[str]", "post_call_pattern": "list[str]", "post_call": "list[str]",
            "final_code": "list[str]", "return_code": "list[str]"},
    init="nw0 = need_wrapper\nhas0 = splicer_name in node.splicer\n",
    ensures=[
        "implies(has0, need_wrapper)",
        "implies(has0, C_force is not None and C_code is None)",
        "implies(not has0, C_force is None and need_wrapper == nw0)",
        "implies(not has0, C_code is not None)",
    ],
    raises=[],
)
UNITS = [decl_splicer]
