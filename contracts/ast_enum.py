"""C11: the enum value loop of ast.EnumNode.__init__ (slice).  DESIGN.md 6/C11, A.6.

Specification (C++ [dcl.enum]): v(i) = value of the explicit expression, else v(i-1) + 1, v(-1) = -1.
EVALAST(n)  the value a C++ compiler gives the parsed expression n
EVAL(s)     the value of the text s read as a C / Fortran integer constant expression
Assumptions (oracles written from the standards / from C09's printer contract):
  A1  a decimal literal without leading zero (optionally signed) that int() accepts evaluates to int(text)
      -- a literal WITH a leading zero is octal in C and decimal in Fortran: A1 says nothing about it
  A1o a leading-zero literal evaluates to int(text, 8) in C++
  A2  EVAL(e + "+" + str(k)) == EVAL(e) + k        (k >= 0; '+' binds loosest, left associative)
  A3  print_node_identifier(n, members, field) evaluates to EVALAST(n) in the target language (C09/U1, renaming)"""
import z3
from pyvc.unit import Unit
from pyvc.values import VFun, VStr, VInt, VPy, PyVal, StrS, IntS, BoolS
from pyvc.methods import TOINT, INTOK, TOINTB, INTOKB

EVAL = z3.Function("spec_eval_text", StrS, IntS)
EVALAST = z3.Function("spec_eval_ast", IntS, IntS)
PRINT = z3.Function("todict_print_node", IntS, StrS)
PRINTC = z3.Function("todict_print_node_identifier_C", IntS, StrS)
PRINTF = z3.Function("todict_print_node_identifier_F", IntS, StrS)


def leadzero(s):
    S = z3.StringVal
    signed = z3.Or(z3.PrefixOf(S("-"), s), z3.PrefixOf(S("+"), s))
    digits = z3.If(signed, z3.SubString(s, 1, z3.Length(s) - 1), s)
    return z3.And(z3.Length(digits) > 1, z3.PrefixOf(S("0"), digits))


def _print_node(ref):
    def call(ex, st, args, kw, node):
        n = args[0]
        n = getattr(n, "val", n)
        e = PRINT(n.e)
        # A1 / A1o, instantiated for this node
        st.assume(z3.Length(e) >= 1)
        st.assume(z3.Implies(z3.And(INTOK(e), z3.Not(leadzero(e))), TOINT(e) == EVALAST(n.e)))
        st.assume(z3.Implies(z3.And(INTOKB(e, 8), leadzero(e)), TOINTB(e, 8) == EVALAST(n.e)))
        st.assume(z3.Implies(z3.And(INTOK(e), leadzero(e)), INTOKB(e, 8)) if False else z3.BoolVal(True))
        return VStr(e)
    return VFun("todict.print_node[contract A1/A1o]", call)


def _print_node_identifier(ref):
    def call(ex, st, args, kw, node):
        n, field = getattr(args[0], "val", args[0]), args[2]
        f = PRINTC if field.e.as_string() == "C_enum_member" else PRINTF
        e = f(n.e)
        st.assume(EVAL(e) == EVALAST(n.e))      # A3
        return VStr(e)
    return VFun("todict.print_node_identifier[contract A3]", call)


def evalv(self):
    def sf(node, st):
        v = self.ev(node.args[0], st)
        e = self.to_py(v)
        return VInt(z3.If(PyVal.is_pint(e), PyVal.pi(e), EVAL(PyVal.ps(e))))
    return sf


MEMBERS = ("reclist", {"name": "str", "value": "opt:int"})

enum_values = Unit(
    prop="C11", name="EnumNode.__init__[values]", target="shroud/ast.py::EnumNode.__init__",
    slice=("cvalue = 0", "for member in ast.members: pass"),
    params={"ast": ("obj", "Enum", {"members": MEMBERS}), "fmtmembers": "objdict",
            "todict": ("obj", "module:todict", {})},
    callees={("module:todict", "print_node"): _print_node, ("module:todict", "print_node_identifier"): _print_node_identifier},
    init="prev = -1\nexpect = 0\nnset = 0\nFV = 0\nCV = 0\ncset = False\n",
    loops={1: {"index": "km",
               # the value the C++ compiler assigns to this member
               "head": "expect = EVALAST(member.value) if member.value is not None else prev + 1\ncset = False\n",
               "end": """
assert evalv(FV) == expect
assert iff(cset, old_member_explicit(km))
assert implies(cset, evalv(CV) == expect)
prev = expect
""",
               "inv": [
                   "evalv(cvalue) == prev + 1 and evalv(fvalue) == prev + 1",
                   "implies(value_is_int, isint(cvalue) and not isbool(cvalue) and fvalue == cvalue)",
                   "implies(not value_is_int, isstr(cvalue) and isstr(fvalue) and isstr(cbase) and isstr(fbase) and incr >= 0 "
                   "and (incr == 0 and cvalue == cbase and fvalue == fbase or "
                   "incr >= 1 and cvalue == cbase + '+' + str(incr) and fvalue == fbase + '+' + str(incr)) "
                   "and EVAL(cbase) + incr == prev + 1 and EVAL(fbase) + incr == prev + 1)",
               ]}},
    ghost=[
        ("after", "fmt.F_value = fvalue", "FV = fvalue\n"),
        ("after", "fmt.C_value = cvalue", "CV = cvalue\ncset = True\n"),
        # A2 for the two strings built here
        ("after", "cvalue = '{}+{}'.format(cbase, incr)", "eval_plus(cbase, incr)\n"),
        ("after", "fvalue = '{}+{}'.format(fbase, incr)", "eval_plus(fbase, incr)\n"),
    ],
    ensures=[],
    raises=[],
)
enum_values.var_kinds = {"cvalue": "py", "fvalue": "py", "FV": "py", "CV": "py", "cbase": "py", "fbase": "py"}
enum_values.spec_funcs = {"EVAL": EVAL, "EVALAST": EVALAST}
enum_values.defs = {"old_member_explicit": (["k_"], "ast.members[k_].value is not None")}

UNITS = [enum_values]


# ---------------------------------------------------------------------------------------------------------
# Emission.  EnumNode.__init__ (above) leaves, per member, C_value / F_value texts that evaluate to the member's C++ value.
# The C header repeats the enumerators: an enumerator WITHOUT initialiser gets previous + 1 from the C compiler, which is
# the C++ value only where the source had none either -- so the initialiser may be left out only for such members; the
# Fortran module gives every parameter its F_value.
from contracts.fc_args import _append_format as _append_format_fields
FCM = z3.Function("field_C_enum_member_by_key", StrS, StrS)
FCV = z3.Function("field_C_value_by_key", StrS, StrS)
FFM = z3.Function("field_F_enum_member_by_key", StrS, StrS)
FFV = z3.Function("field_F_value_by_key", StrS, StrS)

_ENUMNODE_C = ("obj", "EnumNode", {"options": ("obj", "Scope0", {}), "ast": ("obj", "Enum", {"members": MEMBERS}),
                                   "fmtdict": ("obj", "Fmt", {"namespace_scope": "str", "enum_name": "str", "C_enum": "str"}),
                                   "_fmtmembers": ("keyed", ["C_enum_member", "C_value"])})

wrapc_enum = Unit(
    prop="C11", name="Wrapc.wrap_enum", target="shroud/wrapc.py::Wrapc.wrap_enum",
    params={"self": ("obj", "Wrapc", {"enum_impl": "list[str]"}), "cls": "none", "node": _ENUMNODE_C},
    requires=["len(node.ast.members) >= 1"],
    callees={("EnumNode", "eval_template"): (lambda ref: VFun("eval_template", lambda ex, st, a, k, n: __import__("pyvc.values", fromlist=["VNone"]).VNone()))},
    init="n0 = len(self.enum_impl)\n",
    loops={0: {"index": "km", "inv": [
        "len(output) == n0 + 3 + km",
        "all(output[n0 + 3 + j] == cm(node.ast.members[j].name) + ' = ' + cv(node.ast.members[j].name) + ',' "
        "or (node.ast.members[j].value is None and output[n0 + 3 + j] == cm(node.ast.members[j].name) + ',') "
        "for j in range(km))"]}},
    ensures=[
        "len(self.enum_impl) == n0 + 4 + len(node.ast.members)",
        # every enumerator but the last: name [= value] ','  -- the initialiser is dropped only where the source has none
        "all(self.enum_impl[n0 + 3 + j] == cm(node.ast.members[j].name) + ' = ' + cv(node.ast.members[j].name) + ',' "
        "or (node.ast.members[j].value is None and self.enum_impl[n0 + 3 + j] == cm(node.ast.members[j].name) + ',') "
        "for j in range(len(node.ast.members) - 1))",
    ],
    raises=[],
)
wrapc_enum.global_callees["append_format"] = VFun("append_format[wformat model]", _append_format_fields)
wrapc_enum.spec_funcs = {"cm": FCM, "cv": FCV}
wrapc_enum.pure_callees = ["eval_template"]
UNITS += [wrapc_enum]

_ENUMNODE_F = ("obj", "EnumNode", {"options": ("obj", "Scope0", {}),
                                   "ast": ("obj", "Enum", {"members": MEMBERS, "scope": ("opt", "str")}),
                                   "fmtdict": ("obj", "Fmt", {"namespace_scope": "str", "enum_name": "str"}),
                                   "_fmtmembers": ("keyed", ["F_enum_member", "F_value"])})


def _setmod(ref):
    from pyvc.values import VNone
    return VFun("Wrapf.set_f_module", lambda ex, st, a, k, n: VNone())


wrapf_enum = Unit(
    prop="C11", name="Wrapf.wrap_enum", target="shroud/wrapf.py::Wrapf.wrap_enum",
    params={"self": ("obj", "Wrapf", {}), "cls": "none", "node": _ENUMNODE_F,
            "fileinfo": ("obj", "ModuleInfo", {"enum_impl": "list[str]", "module_use": "opaque"})},
    callees={("Wrapf", "set_f_module"): _setmod},
    init="n0 = len(fileinfo.enum_impl)\n",
    loops={0: {"index": "km", "inv": [
        "len(output) == n0 + 2 + km",
        "all(output[n0 + 2 + j] == 'integer(C_INT), parameter :: ' + fm(node.ast.members[j].name) + ' = ' + fv(node.ast.members[j].name) "
        "for j in range(km))"]}},
    ensures=[
        "len(fileinfo.enum_impl) == n0 + 2 + len(node.ast.members)",
        # one named constant per member, each with its own value text
        "all(fileinfo.enum_impl[n0 + 2 + j] == 'integer(C_INT), parameter :: ' + fm(node.ast.members[j].name) + ' = ' + "
        "fv(node.ast.members[j].name) for j in range(len(node.ast.members)))",
    ],
    raises=[],
)
wrapf_enum.global_callees["append_format"] = VFun("append_format[wformat model]", _append_format_fields)
wrapf_enum.spec_funcs = {"fm": FFM, "fv": FFV}
wrapf_enum.pure_callees = ["set_f_module"]
UNITS += [wrapf_enum]


# ---------------------------------------------------------------------------------------------------------
# A3 for literals: a constant inside a value expression is repeated verbatim, except that a C octal literal
# (leading zero, all digits) is rewritten in decimal for Fortran, where the same text would be read as decimal.
print_constant = Unit(
    prop="C11", name="PrintNodeIdentifier.visit_Constant", target="shroud/todict.py::PrintNodeIdentifier.visit_Constant",
    params={"self": ("obj", "PrintNodeIdentifier", {"key": "str"}), "node": ("obj", "Constant", {"value": "str"})},
    requires=["len(node.value) >= 1"],
    ensures=[
        "implies(self.key.startswith('F_') and len(node.value) > 1 and node.value[0] == '0' and isdigit_(node.value), "
        "result == str(tointb(node.value, 8)))",
        "implies(not (self.key.startswith('F_') and len(node.value) > 1 and node.value[0] == '0' and isdigit_(node.value)), "
        "result == node.value)",
    ],
    raises=["ValueError"],       # int(value, 8) of a leading-zero literal with a digit 8 or 9 (not a C literal either)
    result="str",
)
print_constant.spec_funcs = {"tointb": TOINTB}
UNITS += [print_constant]
