"""Contracts for shroud/util.py line writer (C13; reused by C12). DESIGN.md 6/C13, A.1, A.2."""
from pyvc.unit import Unit

FOLDS = {
    # DEL(s): s without TAB and FF characters (the break hints never reach the output)
    "DEL": ("str", '""', 'acc if ch == "\\t" or ch == "\\f" else acc + ch'),
}

# ghost run after every fp.write(...) inside write_continue.
# A write while parts remain (k1 < len(parts)) is a continuation line and must end with the continuation
# marker; the write after the last part is the final line.
_on_write = r"""
w_ = fp.out[-1]
suffix_ = (self.cont + "\n") if k1 < len(parts) else "\n"
assert w_ == curind + cur + suffix_
assert len(curind) + len(cur) <= self.linelen or np <= 1
assert Tdone + cur == "".join(Es)
Tdone = Tdone + cur
cur = ""
nfinal = nfinal + (0 if k1 < len(parts) else 1)
curind = spaces * (self.indent + extra)
np = 0
nw = nw + 1
"""

_P_def = r"all(P[i + 1] == P[i] + ('' if parts[i] == '\f' else parts[i]) for i in range(len(parts)))"
_parts_wf = (r"all(parts[i] == '\f' or (len(parts[i]) >= 1 and '\t' not in parts[i] and '\f' not in parts[i]) "
             r"for i in range(len(parts)))")
_E_spec = (r"all(Es[j] == parts[j] or (brk[j] and Es[j] == lstrip(parts[j])) or (Es[j] == '' and parts[j] == '\f') "
           r"for j in range(%s))")

write_continue = Unit(
    prop="C13", name="write_continue", target="shroud/util.py::WrapperMixin.write_continue",
    params={"self": ("obj", "WrapperMixin", {"linelen": "int", "indent": "int", "cont": "str"}),
            "fp": "file", "line": "str", "spaces": "str"},
    requires=["len(line) >= 1"],
    folds=FOLDS, uses_join=True,
    init=r"""
DEL_nil()
extra = 2 if line[0] == "\r" else 1
srcbody = line[1:] if line[0] == "\r" else line
P = [""]
Es = []
brk = []
Tdone = ""
cur = ""
curind = spaces * self.indent
np = 0
nw = 0
nfinal = 0
k1 = 0
""",
    loops={
        0: {"index": "k0",
            "head": "DEL_snoc(line[:k0], ch)\n",
            "inv": [
                "line == srcbody and indent == extra",
                "len(P) == len(parts) + 1 and P[0] == ''",
                _P_def,
                "P[len(parts)] + part == DEL(line[:k0])",
                _parts_wf,
                r"'\t' not in part and '\f' not in part",
            ]},
        1: {"index": "k1",
            "head": r"""
part0 = parts[k1]
nw0 = nw
""",
            # what this iteration contributed to the text: E_, read off the real `subline`
            "end": r"""
assert subline.startswith(curind)
cur1_ = subline[len(curind):]
assert cur1_.startswith(cur)
E_ = cur1_[len(cur):]
dumped_ = nw > nw0
assert E_ == part0 or (dumped_ and E_ == lstrip(part0)) or (E_ == "" and part0 == "\f")
assert implies(part0 == "\f", dumped_)
Es.append(E_)
brk.append(dumped_)
np = np + (0 if E_ == "" else 1)
cur = cur1_
""",
            "inv": [
                "indent == extra and (extra == 1 or extra == 2)",
                "len(P) == len(parts) + 1 and P[0] == ''",
                _P_def,
                _parts_wf,
                "P[len(parts)] == DEL(srcbody)",
                "subline == curind + cur",
                "Tdone + cur == ''.join(Es)",
                "len(Es) == k1 and len(brk) == k1",
                _E_spec % "k1",
                "len(subline) <= self.linelen or np <= 1",
                "np == nparts",
                "len(fp.out) == nw and nfinal == 0",
                "curind == spaces * self.indent if nw == 0 else curind == spaces * (self.indent + extra)",
            ]},
    },
    list_kinds={"brk": "bool"},
    ghost=[
        ("after", "parts.append($X)", r"P.append(P[-1] + ('' if parts[-1] == '\f' else parts[-1]))"),
        ("after", "fp.write($X)", _on_write),
    ],
    ensures=[
        # P1 text: the emitted line bodies, concatenated, are the per-part contributions; every part contributes
        # itself, or itself minus leading whitespace directly after a break, or nothing if it is a form-feed
        # marker; and the parts (minus FF markers) concatenate to the logical line minus TAB/FF (minus a leading CR).
        "Tdone == ''.join(Es) and len(Es) == len(parts)",
        _E_spec % "len(parts)",
        r"P[len(parts)] == DEL(old(line)[1:] if old(line)[0] == '\r' else old(line))",
        _P_def,
        # P2/P3/P4/P5 were asserted at every write (marker, break position, length, indentation);
        # exactly one final line, and it is the last write
        "nfinal == 1 and len(fp.out) == nw and nw >= 1",
    ],
    raises=[],
)

UNITS = [write_continue]


# ---------------------------------------------------------------------------------------------------------
# write_lines (C13/U2, DESIGN.md A.2).  The callee write_continue is used through its contract only: it needs a
# non-empty line (IndexError otherwise) and appends its physical lines to out(fp); the whole group is abstracted
# as the token WC(payload, indent at the call, spaces).
import z3
from pyvc.values import VFun, VNone, VInt, HList
from pyvc.methods import WC


def _wc_callee(ref):
    def call(ex, st, args, kw, node):
        fp, line, spaces = args
        s = ex.want_str(line, st, node)
        ex.safety(st, "IndexError", z3.Length(s) >= 1, node, "write_continue needs a non-empty line")
        me = st.heap[ref.oid]
        out = st.heap[fp.oid].f["out"]
        c = ex.as_hlist(st.heap[out.oid])
        st.heap[out.oid] = HList("str", c.n + 1, z3.Store(c.arr, c.n, WC(s, me.f["indent"].e, spaces.e)))
        return VNone()
    return VFun("WrapperMixin.write_continue[contract]", call)


write_lines = Unit(
    prop="C13", name="write_lines", target="shroud/util.py::WrapperMixin.write_lines",
    params={"self": ("obj", "WrapperMixin", {"indent": "int"}), "fp": "file", "lines": "list[py]", "spaces": "str"},
    requires=["all(isint(lines[i]) or isstr(lines[i]) for i in range(len(lines)))"],
    callees={("WrapperMixin", "write_continue"): _wc_callee},
    # IndexError is raised exactly for a piece that consists of directive characters only ("-", "--", "+", "+-",
    # "@"): generated code never contains one and C13 does not speak about it.
    raises=["IndexError"],
    init="s0 = ''\nn0 = 0\nind0 = 0\n",
    loops={
        0: {"index": "i0", "inv": ["len(fp.out) >= 0"]},
        1: {"index": "i1",
            "head": "s0 = subline\nn0 = len(fp.out)\nind0 = self.indent\n",
            # per piece: exactly the documented effect; directive characters steer indentation only and the payload
            # handed on is the piece minus exactly those characters
            "end": r"""
assert implies(len(s0) == 0, len(fp.out) == n0 + 1 and fp.out[n0] == "\n" and self.indent == ind0)
assert implies(len(s0) > 0 and s0[0] == "#", len(fp.out) == n0 + 2 and fp.out[n0] == s0 and fp.out[n0 + 1] == "\n" and self.indent == ind0)
assert implies(len(s0) > 0 and s0[0] == "^", len(fp.out) == n0 + 2 and fp.out[n0] == s0[1:] and fp.out[n0 + 1] == "\n" and self.indent == ind0)
assert implies(len(s0) > 0 and s0[0] == "@", len(fp.out) == n0 + 1 and fp.out[n0] == WC(s0[1:], ind0, spaces) and self.indent == ind0)
assert implies(len(s0) > 0 and s0[0] == "+" and s0[-1] == "-", len(fp.out) == n0 + 1 and fp.out[n0] == WC(s0[1:-1], ind0 + 1, spaces) and self.indent == ind0)
assert implies(len(s0) > 0 and s0[0] == "+" and s0[-1] != "-", len(fp.out) == n0 + 1 and fp.out[n0] == WC(s0[1:], ind0 + 1, spaces) and self.indent == ind0 + 1)
""" + r"""
nd_ = (ind0 - self.indent if s0[-1] != "+" else ind0 - self.indent + 1) if len(s0) > 0 else 0
assert implies(len(s0) > 0 and s0[0] not in "#^@+", nd_ >= 0 and nd_ < len(s0) and s0[nd_] != "-")
assert implies(len(s0) > 0 and s0[0] not in "#^@+", all(s0[j] == "-" for j in range(nd_)))
assert implies(len(s0) > 0 and s0[0] not in "#^@+" and s0[-1] == "+", len(fp.out) == n0 + 1 and fp.out[n0] == WC(s0[nd_:-1], ind0 - nd_, spaces) and self.indent == ind0 - nd_ + 1)
assert implies(len(s0) > 0 and s0[0] not in "#^@+" and s0[-1] != "+", len(fp.out) == n0 + 1 and fp.out[n0] == WC(s0[nd_:], ind0 - nd_, spaces) and self.indent == ind0 - nd_)
""",
            "inv": ["len(fp.out) >= 0"]},
        2: {"inv": ["ind0 - self.indent >= 0 and ind0 - self.indent <= len(s0)",
                    "subline == s0[ind0 - self.indent:]",
                    "all(s0[j] == '-' for j in range(ind0 - self.indent))",
                    "len(fp.out) == n0"],
            "decreases": "len(subline)"},
    },
    ensures=[],
)

UNITS.append(write_lines)


# ---------------------------------------------------------------------------------------------------------
# C12/U4 emission identity of a user (splicer) line.
# (a) write_continue on a line without break hints: exactly one physical line, indentation + line + newline.
write_continue_plain = Unit(
    prop="C12", name="write_continue_plain", target="shroud/util.py::WrapperMixin.write_continue",
    params={"self": ("obj", "WrapperMixin", {"linelen": "int", "indent": "int", "cont": "str"}),
            "fp": "file", "line": "str", "spaces": "str"},
    requires=["len(line) >= 1", r"'\t' not in line and '\f' not in line and line[0] != '\r'"],
    loops={
        0: {"index": "k0", "inv": ["len(parts) == 0", "part == line[:k0]", "indent == 1"]},
        1: {"index": "k1", "inv": [
            "len(parts) == 1 and parts[0] == line",
            "len(fp.out) == 0",
            "implies(k1 == 0, subline == spaces * self.indent and nparts == 0)",
            "implies(k1 == 1, subline == spaces * self.indent + line)",
        ]},
    },
    ensures=["len(fp.out) == 1 and fp.out[0] == spaces * self.indent + line + '\\n'"],
    raises=[],
)


def _wc_callee_plain(ref):
    """write_continue through the contract proved as write_continue_plain; for payloads with break hints the
    output is unspecified here (an arbitrary string is appended)."""
    def call(ex, st, args, kw, node):
        fp, line, spaces = args
        s = ex.want_str(line, st, node)
        ex.safety(st, "IndexError", z3.Length(s) >= 1, node, "write_continue needs a non-empty line")
        me = st.heap[ref.oid]
        out = st.heap[fp.oid].f["out"]
        c = ex.as_hlist(st.heap[out.oid])
        plain = z3.And(z3.Not(z3.Contains(s, z3.StringVal("\t"))), z3.Not(z3.Contains(s, z3.StringVal("\f"))),
                       z3.SubString(s, 0, 1) != z3.StringVal("\r"))
        unknown = z3.String(ex_fresh("wc_out"))
        val = z3.If(plain, z3.Concat(ex.rep(spaces.e, me.f["indent"].e, st), s, z3.StringVal("\n")), unknown)
        st.heap[out.oid] = HList("str", c.n + 1, z3.Store(c.arr, c.n, val))
        return VNone()
    return VFun("WrapperMixin.write_continue[plain contract]", call)


def ex_fresh(base):
    from pyvc.values import fresh_name
    return fresh_name(base)


_uli = dict(
    target="shroud/util.py::WrapperMixin.write_lines",
    params={"self": ("obj", "WrapperMixin", {"indent": "int"}), "fp": "file", "uline": "str", "spaces": "str",
            "lines": ("clist", "py")},
    callees={("WrapperMixin", "write_continue"): _wc_callee_plain},
    loops={1: {"index": "i1", "inv": [
        "i1 <= 1",
        "implies(i1 == 0, len(fp.out) == 0 and self.indent == old_indent)",
        "implies(i1 == 1 and len(uline) > 0, len(fp.out) == 1 and fp.out[0] == spaces * old_indent + uline + '\\n')",
        "implies(i1 == 1 and len(uline) == 0, len(fp.out) == 1 and fp.out[0] == '\\n')",
        "implies(i1 == 1, self.indent == old_indent)"]},
           2: {"inv": ["len(fp.out) == 0 and self.indent == old_indent and subline == uline"]}},
    init="old_indent = self.indent\n",
    ensures=[
        # identical up to leading indentation; an empty line stays an empty line
        "implies(len(uline) > 0, len(fp.out) == 1 and fp.out[0] == spaces * old_indent + uline + '\\n')",
        "implies(len(uline) == 0, len(fp.out) == 1 and fp.out[0] == '\\n')",
        "self.indent == old_indent",
    ],
    raises=[],
)
_domain = [
    "isstr(lines[0]) and asstr(lines[0]) == uline",
    r"'\n' not in uline",
    # the property's domain: the line does not begin in column one with a formatting metacharacter
    r"implies(len(uline) > 0, uline[0] not in '#@^+-\r')",
]
# unrestricted: expected to be refuted by an interior TAB/FF and a trailing '+' (known finding)
user_line_identity = Unit(prop="C12", name="user_line_identity", requires=_domain, **_uli)
# with the carve-out of the known finding: must verify
user_line_identity_carved = Unit(
    prop="C12", name="user_line_identity_carved",
    requires=_domain + [r"'\t' not in uline and '\f' not in uline and not uline.endswith('+')"], **_uli)

UNITS += [write_continue_plain, user_line_identity, user_line_identity_carved]
