"""Contracts for shroud/util.py line writer (C13; reused by C12). DESIGN.md 6/C13, A.1, A.2."""
from pyvc.unit import Unit

FOLDS = {
    # DEL(s): s without TAB and FF characters (the break hints never reach the output)
    "DEL": ("str", '""', 'acc if ch == "\\t" or ch == "\\f" else acc + ch'),
}

# ghost run after every fp.write(...) inside write_continue.
# A write while parts remain (k1 < len(parts)) is a continuation line and must end with the continuation
# marker; the write after the last part is the final line.
_on_write = r"""
w_ = fp.out[-1]
suffix_ = (self.cont + "\n") if k1 < len(parts) else "\n"
assert w_ == curind + cur + suffix_
assert len(curind) + len(cur) <= self.linelen or np <= 1
assert Tdone + cur == "".join(Es)
Tdone = Tdone + cur
cur = ""
nfinal = nfinal + (0 if k1 < len(parts) else 1)
curind = spaces * (self.indent + extra)
np = 0
nw = nw + 1
"""

_P_def = r"all(P[i + 1] == P[i] + ('' if parts[i] == '\f' else parts[i]) for i in range(len(parts)))"
_parts_wf = (r"all(parts[i] == '\f' or (len(parts[i]) >= 1 and '\t' not in parts[i] and '\f' not in parts[i]) "
             r"for i in range(len(parts)))")
_E_spec = (r"all(Es[j] == parts[j] or (brk[j] and Es[j] == lstrip(parts[j])) or (Es[j] == '' and parts[j] == '\f') "
           r"for j in range(%s))")

write_continue = Unit(
    prop="C13", name="write_continue", target="shroud/util.py::WrapperMixin.write_continue",
    params={"self": ("obj", "WrapperMixin", {"linelen": "int", "indent": "int", "cont": "str"}),
            "fp": "file", "line": "str", "spaces": "str"},
    requires=["len(line) >= 1"],
    folds=FOLDS, uses_join=True,
    init=r"""
DEL_nil()
extra = 2 if line[0] == "\r" else 1
srcbody = line[1:] if line[0] == "\r" else line
P = [""]
Es = []
brk = []
Tdone = ""
cur = ""
curind = spaces * self.indent
np = 0
nw = 0
nfinal = 0
k1 = 0
""",
    loops={
        0: {"index": "k0",
            "head": "DEL_snoc(line[:k0], ch)\n",
            "inv": [
                "line == srcbody and indent == extra",
                "len(P) == len(parts) + 1 and P[0] == ''",
                _P_def,
                "P[len(parts)] + part == DEL(line[:k0])",
                _parts_wf,
                r"'\t' not in part and '\f' not in part",
            ]},
        1: {"index": "k1",
            "head": r"""
part0 = parts[k1]
nw0 = nw
""",
            # what this iteration contributed to the text: E_, read off the real `subline`
            "end": r"""
assert subline.startswith(curind)
cur1_ = subline[len(curind):]
assert cur1_.startswith(cur)
E_ = cur1_[len(cur):]
dumped_ = nw > nw0
assert E_ == part0 or (dumped_ and E_ == lstrip(part0)) or (E_ == "" and part0 == "\f")
assert implies(part0 == "\f", dumped_)
Es.append(E_)
brk.append(dumped_)
np = np + (0 if E_ == "" else 1)
cur = cur1_
""",
            "inv": [
                "indent == extra and (extra == 1 or extra == 2)",
                "len(P) == len(parts) + 1 and P[0] == ''",
                _P_def,
                _parts_wf,
                "P[len(parts)] == DEL(srcbody)",
                "subline == curind + cur",
                "Tdone + cur == ''.join(Es)",
                "len(Es) == k1 and len(brk) == k1",
                _E_spec % "k1",
                "len(subline) <= self.linelen or np <= 1",
                "np == nparts",
                "len(fp.out) == nw and nfinal == 0",
                "curind == spaces * self.indent if nw == 0 else curind == spaces * (self.indent + extra)",
            ]},
    },
    list_kinds={"brk": "bool"},
    ghost=[
        ("after", "parts.append($X)", r"P.append(P[-1] + ('' if parts[-1] == '\f' else parts[-1]))"),
        ("after", "fp.write($X)", _on_write),
    ],
    ensures=[
        # P1 text: the emitted line bodies, concatenated, are the per-part contributions; every part contributes
        # itself, or itself minus leading whitespace directly after a break, or nothing if it is a form-feed
        # marker; and the parts (minus FF markers) concatenate to the logical line minus TAB/FF (minus a leading CR).
        "Tdone == ''.join(Es) and len(Es) == len(parts)",
        _E_spec % "len(parts)",
        r"P[len(parts)] == DEL(old(line)[1:] if old(line)[0] == '\r' else old(line))",
        _P_def,
        # P2/P3/P4/P5 were asserted at every write (marker, break position, length, indentation);
        # exactly one final line, and it is the last write
        "nfinal == 1 and len(fp.out) == nw and nw >= 1",
    ],
    raises=[],
)

UNITS = [write_continue]
