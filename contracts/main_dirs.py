"""C15/U1: main.main_with_args (slice): each output directory is the option for its kind, else --outdir."""
from pyvc.unit import Unit

ARGS = ("obj", "Namespace", {"outdir": "str", "outdir_c_fortran": "str", "outdir_python": "str", "outdir_lua": "str",
                             "outdir_yaml": "str", "write_helpers": "str", "write_statements": "str", "yaml_types": "str",
                             "write_version": "bool"})

config_dirs = Unit(
    prop="C15", name="main_with_args[directories]", target="shroud/main.py::main_with_args",
    slice=("config.out_dir = args.outdir", "config.log = log"),
    params={"args": ARGS, "config": ("obj", "Config", {}), "log": "py"},
    ensures=[
        "config.out_dir == args.outdir",
        "config.c_fortran_dir == (args.outdir_c_fortran if args.outdir_c_fortran else args.outdir)",
        "config.python_dir == (args.outdir_python if args.outdir_python else args.outdir)",
        "config.lua_dir == (args.outdir_lua if args.outdir_lua else args.outdir)",
        "config.yaml_dir == (args.outdir_yaml if args.outdir_yaml else args.outdir)",
    ],
    raises=[],
)
UNITS = [config_dirs]
