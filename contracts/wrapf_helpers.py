"""C05/U1: wrapf.Wrapf.gather_helper_code -- every C-implemented helper a Fortran module asked for (directly or through
a dependent helper gathered here) is handed to the shared table from which Wrapc writes the utility file.  The
function is called once per module written (library, each non-flattened namespace, each class module)."""
import z3
from pyvc.unit import Unit
from pyvc.values import VFun, VNone, VRef


def _gather_one(ref):
    """callee contract of _gather_helper_code: may add entries to `done` and to the module's helper lists and may ask
    for further C helpers (fileinfo.c_helper grows, nothing is removed)"""
    def call(ex, st, args, kw, node):
        fileinfo = st.heap[args[2].oid]
        ch = fileinfo.f["c_helper"]
        old = st.heap[ch.oid]
        new = ex.fresh_dict(old.ek, "c_helper_after", st, old.default, old.size is not None)
        k = z3.String("kk_ch")
        st.assume(z3.ForAll([k], z3.Implies(z3.Select(old.keys, k), z3.Select(new.keys, k))))
        st.heap[ch.oid] = new
        st.heap[args[1].oid] = ex.fresh_cell(st.heap[args[1].oid], st, "done")
        return VNone()
    return VFun("Wrapf._gather_helper_code[contract: c_helper only grows]", call)


gather = Unit(
    prop="C05", name="Wrapf.gather_helper_code", target="shroud/wrapf.py::Wrapf.gather_helper_code",
    params={"self": ("obj", "Wrapf", {"shared_helper": "dict[bool]"}),
            "fileinfo": ("obj", "ModuleInfo", {"f_helper": "dict[bool]", "c_helper": "dict[bool]"})},
    callees={("Wrapf", "_gather_helper_code"): _gather_one},
    loops={0: {"index": "kh", "inv": [
        "all(x in fileinfo.c_helper for x in old(fileinfo).c_helper)",
        "all(x in self.shared_helper for x in old(self).shared_helper)"]}},
    ensures=[
        # whole view: nothing already shared is lost, everything this module needs is now shared
        "all(x in self.shared_helper for x in old(self).shared_helper)",
        "all(x in self.shared_helper for x in fileinfo.c_helper)",
        "all(x in fileinfo.c_helper for x in old(fileinfo).c_helper)",
    ],
    raises=[],
)
UNITS = [gather]
