"""C09/U3: the pointer part of a rendering.  Ptr.gen_decl_work appends exactly: a blank and the pointer token ('*' for
every level under as_c / as_ptr -- a reference becomes a pointer one for one -- else the declared token), then the
cv-qualifiers of that level.  Declarator.gen_decl_work (shapes with 0..3 levels, the loop is unrolled over the object
list: a stated depth bound) appends one pointer token per level unless force_ptr (one '*') or as_scalar (none), then
the name (kwargs['name'] overrides, an empty override suppresses it)."""
from pyvc.unit import Unit

PTR = ("obj", "Ptr", {"ptr": "str", "const": "bool", "volatile": "bool"})

ptr_work = Unit(
    prop="C09", name="Ptr.gen_decl_work", target="shroud/declast.py::Ptr.gen_decl_work",
    params={"self": PTR, "decl": "list[str]", "kwargs": "ddict[py]"},
    requires=["self.ptr == '' or self.ptr == '*' or self.ptr == '&'"],
    init="n0 = len(decl)\n",
    modifies=["decl"],
    defs={"tok": (["s", "k"], "'*' if (k['as_c'] or k['as_ptr']) else s.ptr")},
    ensures=[
        "len(decl) == n0 + (2 if self.ptr else 0) + (1 if self.const else 0) + (1 if self.volatile else 0)",
        "implies(self.ptr, decl[n0] == ' ' and decl[n0 + 1] == tok(self, kwargs))",
        # with as_c (the C rendering) no '&' is ever emitted, and a level is never dropped
        "implies(self.ptr and (kwargs['as_c'] or kwargs['as_ptr']), decl[n0 + 1] == '*')",
        "implies(self.const, decl[n0 + (2 if self.ptr else 0)] == ' const')",
        "implies(self.volatile, decl[len(decl) - 1] == ' volatile')",
        "all(decl[i] == old(decl)[i] for i in range(n0))",
    ],
    raises=[],
)
UNITS = [ptr_work]

# ---------------------------------------------------------------------------------------------------------
from contracts.util_header import _opaque_appender


def make_declarator(nptr):
    ptrs = ("clist",) + (PTR,) * nptr if nptr else "emptylist"
    base = "n0"
    per = []
    # positions: each level contributes 2 (if it has a token) + cv entries; state totals instead of positions
    total = " + ".join("((2 if self.pointer[%d].ptr else 0) + (1 if self.pointer[%d].const else 0) + (1 if self.pointer[%d].volatile else 0))" % (i, i, i)
                       for i in range(nptr)) or "0"
    stars = " + ".join("(1 if self.pointer[%d].ptr else 0)" % i for i in range(nptr)) or "0"
    u = Unit(
        prop="C09", name="Declarator.gen_decl_work[%d pointer level%s]" % (nptr, "" if nptr == 1 else "s"),
        target="shroud/declast.py::Declarator.gen_decl_work",
        params={"self": ("obj", "Declarator", {"pointer": ptrs, "name": ("opt", "str"), "func": ("opt", ("obj", "Declarator", {}))}),
                "decl": "list[str]", "kwargs": "ddict[py]"},
        requires=["self.func is None"] + ["self.pointer[%d].ptr == '*' or self.pointer[%d].ptr == '&'" % (i, i) for i in range(nptr)] +
                 ["kwargs['name'] is None or isstr(kwargs['name'])"],
        callee_units={("Ptr", "gen_decl_work"): ptr_work},
        init="n0 = len(decl)\n",
        defs={"namelen": (["s", "k"], "(2 if k['name'] else 0) if 'name' in k else (2 if s.name else 0)")},
        ensures=[
            # one pointer token per declared level (none for as_scalar, exactly one '*' for force_ptr), then the name
            "implies(kwargs['force_ptr'], len(decl) == n0 + 1 + namelen(self, kwargs) and decl[n0] == ' *')",
            "implies(not kwargs['force_ptr'] and kwargs['as_scalar'], len(decl) == n0 + namelen(self, kwargs))",
            "implies(not kwargs['force_ptr'] and not kwargs['as_scalar'], len(decl) == n0 + %s + namelen(self, kwargs))" % total,
            "implies('name' in kwargs and kwargs['name'], decl[len(decl) - 1] == asstr(kwargs['name']) and decl[len(decl) - 2] == ' ')",
            "implies(not ('name' in kwargs) and self.name, decl[len(decl) - 1] == self.name and decl[len(decl) - 2] == ' ')",
        ],
        raises=[],
    )
    u.list_kinds = {"pointer": "opaque"}
    return u


UNITS += [make_declarator(n) for n in (0, 1, 2, 3)]


# ---------------------------------------------------------------------------------------------------------
# Declaration.gen_attrs: every attribute that is SET (value is not None -- 0, 0.0, '' and False are values) and is neither
# internal ('_...'), an annotation that is rendered elsewhere, nor explicitly skipped, is rendered as +name or +name(value):
# parse(gen_decl(d)) keeps it.
gen_attrs = Unit(
    prop="C09", name="Declaration.gen_attrs", target="shroud/declast.py::Declaration.gen_attrs",
    params={"self": ("obj", "Declaration", {"_skip_annotations": ("clist", ("const", "template"))}),
            "attrs": "ddict[py]", "decl": "list[str]", "skip": "dict[bool]"},
    init="n0 = len(decl)\nshown = 0\n",
    loops={0: {"index": "ka", "head": "d0 = len(decl)\n",
               "end": "rendered_ = len(attr) > 0 and attr[0] != '_' and attr != 'template' and not (attr in skip) and attrs[attr] is not None\n"
                      "assert implies(rendered_, len(decl) == d0 + 3 and decl[d0 + 1] == '+')\n"
                      "assert implies(rendered_ and attrs[attr] is True, decl[d0 + 2] == attr)\n"
                      "assert implies(not rendered_, len(decl) == d0)\n",
               "inv": ["len(decl) >= n0"]}},
    requires=["all(len(k) > 0 for k in attrs)"] if False else [],
    ensures=["len(decl) >= n0"],
    raises=[],
)
UNITS += [gen_attrs]
