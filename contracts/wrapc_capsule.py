"""Contracts for the destructor (capsule) table of wrapc.Wrapc (C06/U1, DESIGN.md 6/C06, A.7).

Data structure against an abstract view:  capsule_code : name -> (index string, lines),  capsule_order : [name].
Ghost inverse map pos : name -> int Skolemises "exists i".  well_formed:
    len(code) == len(order)
    forall i < len(order):  order[i] in code  and  pos[order[i]] == i  and  code[order[i]][0] == str(i)
    forall x in code:       0 <= pos[x] < len(order)  and  order[pos[x]] == x
"""
from pyvc.unit import Unit

WF = [
    "len(self.capsule_code) == len(self.capsule_order)",
    "all(self.capsule_order[i] in self.capsule_code and pos[self.capsule_order[i]] == i "
    "and self.capsule_code[self.capsule_order[i]][0] == str(i) for i in range(len(self.capsule_order)))",
    "all(x in pos and 0 <= pos[x] and pos[x] < len(self.capsule_order) and self.capsule_order[pos[x]] == x "
    "for x in self.capsule_code)",
]
# every existing entry is unchanged (whole-view postcondition) and keeps its position
FRAME = [
    "all(x in self.capsule_code and self.capsule_code[x][0] == old(self).capsule_code[x][0] and pos[x] == old(pos)[x] "
    "for x in old(self).capsule_code)",
    "all(self.capsule_order[i] == old(self).capsule_order[i] for i in range(len(old(self).capsule_order)))",
    "len(self.capsule_order) >= len(old(self).capsule_order)",
]

TYPEMAP = ("obj", "Typemap", {"cxx_header": "list[str]", "cxx_type": "str", "idtor": "str", "cxx_to_c": "py", "name": "str"})
SELF = ("obj", "Wrapc", {"capsule_code": "dict[str,liststr]", "capsule_order": "list[str]", "capsule_include": "dict[bool]"})

add_capsule_code = Unit(
    prop="C06", name="add_capsule_code", target="shroud/wrapc.py::Wrapc.add_capsule_code",
    params={"self": SELF, "name": "str", "var_typemap": ("opt", TYPEMAP), "lines": "list[str]", "pos": "dict[int]"},
    requires=WF,
    modifies=["self.capsule_code", "self.capsule_order", "self.capsule_include", "pos"], result="str",
    loops={0: {"index": "kh", "inv": WF + FRAME + [
        "name in self.capsule_code and pos[name] == len(old(self).capsule_order) and not (name in old(self).capsule_code)",
        "len(self.capsule_order) == len(old(self).capsule_order) + 1"]}},
    ghost=[("after", "self.capsule_order.append(name)", "pos[name] = len(self.capsule_order) - 1\n")],
    ensures=WF + FRAME + [
        "name in self.capsule_code",
        "result == str(pos[name]) and result == self.capsule_code[name][0]",
        "self.capsule_order[pos[name]] == name",
        # an already registered name changes nothing and gets its old index back
        "implies(name in old(self).capsule_code, len(self.capsule_order) == len(old(self).capsule_order) "
        "and result == old(self).capsule_code[name][0])",
        # a new name goes to the end
        "implies(not (name in old(self).capsule_code), pos[name] == len(old(self).capsule_order) "
        "and len(self.capsule_order) == len(old(self).capsule_order) + 1)",
    ],
    raises=[],
)
add_capsule_code.ghost_params = ["pos"]

UNITS = [add_capsule_code]

# ---------------------------------------------------------------------------------------------------------
import z3
from pyvc.values import VFun, VNone, VStr, VBool, VRef, HList, HCList, fresh_name, StrS, IntS

WFMT = z3.Function("spec_wformat", StrS, StrS)     # wformat(template, fmt) for the (fixed) format scope of the unit


def _wformat(ex, st, args, kw, node):
    """util.wformat(template, fmt): trusted (string.Formatter.vformat); result abstract, a function of the template
    while the format scope is not written; may exit with SystemExit("Error with template")."""
    t = ex.want_str(args[0], st, node)
    ex.safety(st, "SystemExit", z3.Bool(fresh_name("fmt_ok")), node, "wformat may stop with 'Error with template'")
    return VStr(WFMT(t))


def _append_format(ex, st, args, kw, node):
    lst, t = args[0], ex.want_str(args[1], st, node)
    ex.safety(st, "SystemExit", z3.Bool(fresh_name("fmt_ok")), node, "wformat may stop with 'Error with template'")
    c = ex.as_hlist(st.heap[lst.oid])
    st.heap[lst.oid] = HList("str", c.n + 1, z3.Store(c.arr, c.n, WFMT(t)))
    return VNone()


def _append_format_cmds(ref):
    def call(ex, st, args, kw, node):
        lst = args[0]
        ex.safety(st, "SystemExit", z3.Bool(fresh_name("fmt_ok")), node, "wformat may stop with 'Error with template'")
        st.heap[lst.oid] = ex.fresh_cell(st.heap[lst.oid], st, "del_lines")
        return VBool(z3.Bool(fresh_name("found")))
    return VFun("util.append_format_cmds[trusted contract]", call)


def _sf_wfmt(self):
    def sf(node, st):
        return VStr(WFMT(self.ev(node.args[0], st).e))
    return sf


add_destructor = Unit(
    prop="C06", name="add_destructor", target="shroud/wrapc.py::Wrapc.add_destructor",
    params={"self": SELF, "fmt": ("obj", "Fmt", {"idtor": "str"}), "name": "str", "cmd_list": "list[str]",
            "arg_typemap": ("opt", TYPEMAP), "pos": "dict[int]"},
    requires=WF,
    modifies=["self.capsule_code", "self.capsule_order", "self.capsule_include", "pos"], result="str",
    callee_units={("Wrapc", "add_capsule_code"): add_capsule_code},
    loops={0: {"index": "kc", "inv": []}},
    ensures=WF + FRAME + [
        "name in self.capsule_code and result == self.capsule_code[name][0] and result == str(pos[name])",
        "self.capsule_order[pos[name]] == name",
        "implies(name in old(self).capsule_code, result == old(self).capsule_code[name][0])",
    ],
    raises=["SystemExit"],
)
add_destructor.ghost_params = ["pos"]
add_destructor.global_callees["wformat"] = VFun("wformat[trusted contract]", _wformat)
add_destructor.pure_callees = ["wformat"]     # formats, never writes into the format scope

INTENT_BLK = ("obj", "Scope0", {"destructor_name": "py", "owner": "py"})
AST = ("obj", "Declaration", {"attrs": "ddict[py]", "is_pointer()": "int"})
MOD_UTIL = ("obj", "module:util", {})

find_idtor = Unit(
    prop="C06", name="find_idtor", target="shroud/wrapc.py::Wrapc.find_idtor",
    params={"self": ("obj", "Wrapc", {"capsule_code": "dict[str,liststr]", "capsule_order": "list[str]",
                                      "capsule_include": "dict[bool]", "patterns": "dict[str]"}),
            "ast": AST, "ntypemap": TYPEMAP, "fmt": ("obj", "Fmt", {"idtor": "str"}), "intent_blk": INTENT_BLK,
            "pos": "dict[int]", "util": MOD_UTIL, "default_owner": ("const", "library")},
    requires=WF + [
        "ast.is_pointer() >= 0",
        # free_pattern was validated against the patterns section by VerifyAttrs.check_common_attrs
        "implies(not isnone(ast.attrs['free_pattern']), isstr(ast.attrs['free_pattern']) and ast.attrs['free_pattern'] in self.patterns)",
        "isnone(intent_blk.destructor_name) or isstr(intent_blk.destructor_name)",
        # typemap cache: a non-zero cached idtor is the index registered under the typemap's cxx_type
        "ntypemap.idtor == '0' or (ntypemap.cxx_type in self.capsule_code and self.capsule_code[ntypemap.cxx_type][0] == ntypemap.idtor)",
    ],
    callees={("module:util", "append_format_cmds"): _append_format_cmds},
    callee_units={("Wrapc", "add_capsule_code"): add_capsule_code, ("Wrapc", "add_destructor"): add_destructor},
    modifies=["self.capsule_code", "self.capsule_order", "self.capsule_include", "pos", "fmt", "ntypemap"],
    init="dname_ = ''\nowner_ = ast.attrs['owner'] if ast.attrs['owner'] else (intent_blk.owner if intent_blk.owner else 'library')\n"
         "from_stmt_ = (not ast.attrs['owner']) and bool(intent_blk.owner)\ncustom_ = bool(intent_blk.destructor_name)\n",
    ghost=[("after", "destructor_name = wformat(destructor_name, fmt)", "dname_ = destructor_name\n")],
    ensures=WF + FRAME + [
        # custom destructor from the statement table: the index of exactly that name
        "implies(custom_, dname_ in self.capsule_code and fmt.idtor == self.capsule_code[dname_][0])",
        # library-owned memory and non-pointers never get a destructor: idtor untouched ("0" by default)
        "implies(not custom_ and owner_ == 'library', fmt.idtor == old(fmt).idtor)",
        "implies(not custom_ and not (owner_ == 'library') and ast.is_pointer() == 0 and not from_stmt_, fmt.idtor == old(fmt).idtor)",
        # free_pattern: the index registered under the pattern name
        "implies(not custom_ and not (owner_ == 'library') and (ast.is_pointer() > 0 or from_stmt_) and not isnone(ast.attrs['free_pattern']), "
        "fmt.idtor == self.capsule_code[asstr(ast.attrs['free_pattern'])][0])",
        # otherwise: the destructor registered under the type's cxx_type (cached, delete or free), and the cache agrees
        "implies(not custom_ and not (owner_ == 'library') and (ast.is_pointer() > 0 or from_stmt_) and isnone(ast.attrs['free_pattern']), "
        "ntypemap.cxx_type in self.capsule_code and fmt.idtor == self.capsule_code[ntypemap.cxx_type][0])",
        "ntypemap.idtor == '0' or (ntypemap.cxx_type in self.capsule_code and self.capsule_code[ntypemap.cxx_type][0] == ntypemap.idtor)",
    ],
    raises=["SystemExit"],
)
find_idtor.ghost_params = ["pos"]
find_idtor.global_callees["wformat"] = VFun("wformat[trusted contract]", _wformat)

UNITS += [add_destructor, find_idtor]

compute_idtor = Unit(
    prop="C06", name="compute_idtor", target="shroud/wrapc.py::Wrapc.compute_idtor",
    # slice: the part after the scan for a wrapped destructor (`has_dtor` is then a plain boolean)
    slice=("ntypemap = node.typemap", "if has_dtor: pass"),
    params={"self": ("obj", "Wrapc", {"capsule_code": "dict[str,liststr]", "capsule_order": "list[str]",
                                      "capsule_include": "dict[bool]", "capsule_typedef_nodes": "opaque"}),
            "node": ("obj", "ClassNode", {"typemap": TYPEMAP}), "has_dtor": "bool", "pos": "dict[int]"},
    requires=WF,
    callee_units={("Wrapc", "add_capsule_code"): add_capsule_code},
    ensures=WF + FRAME + [
        "implies(has_dtor, node.typemap.cxx_type in self.capsule_code and node.typemap.idtor == self.capsule_code[node.typemap.cxx_type][0])",
        "implies(not has_dtor, node.typemap.idtor == '0')",
    ],
    raises=[],
)
compute_idtor.ghost_params = ["pos"]


def _header_impl(ref):
    return VFun("Header.add_shroud_file[no effect on output]", lambda ex, st, args, kw, node: VNone())


write_capsule_code = Unit(
    prop="C06", name="write_capsule_code", target="shroud/wrapc.py::Wrapc.write_capsule_code",
    # slice: from the switch over the destructor table to the lines that reset the capsule
    slice=("if len(self.capsule_order) > 1: pass", "append_format(output, $X, fmt)"),
    params={"self": ("obj", "Wrapc", {"capsule_code": "dict[str,liststr]", "capsule_order": "list[str]", "language": "str",
                                      "header_impl": ("obj", "Header", {})}),
            "output": "list[str]", "fmt": ("obj", "Fmt", {}), "pos": "dict[int]"},
    callees={("Header", "add_shroud_file"): _header_impl},
    requires=WF,
    init="n00 = len(output)\nnb = 0\n",
    loops={0: {"index": "ke",
               "head": "n0 = len(output)\n",
               # one case block per table entry, in table order: the label is the index string handed out as idtor
               # for that name, followed by exactly the lines registered under it
               "end": """
assert i == ke and name == self.capsule_order[ke]
assert len(output) == n0 + 2 + len(self.capsule_code[name][1])
assert output[n0] == 'case ' + self.capsule_code[name][0] + ':   // ' + name + '\\n{+'
assert all(output[n0 + 1 + j] == self.capsule_code[name][1][j] for j in range(len(self.capsule_code[name][1])))
assert output[len(output) - 1] == 'break;\\n-}'
nb = nb + 1
""",
               "inv": WF + ["nb == ke", "len(output) >= n00"]}},
    ensures=[
        # every entry got its case block when there is more than the reserved slot 0
        "implies(len(self.capsule_order) > 1, nb == len(self.capsule_order))",
        # a released capsule dispatches to slot 0 next time: the reset lines follow on every path
        "output[len(output) - 1] == wfmt('cap->addr = {nullptr};\\ncap->idtor = 0;  // avoid deleting again\\n-}}')",
    ],
    raises=["SystemExit"],
)
write_capsule_code.global_callees["append_format"] = VFun("append_format[trusted contract]", _append_format)
write_capsule_code.defs = {}

UNITS += [compute_idtor, write_capsule_code]
