"""Fortran side of the character rules (C10/U2, U3): implied length expressions and the ftrim_char_in flag."""
from pyvc.unit import Unit
from pyvc.values import VFun, VStr, fresh_name
import z3

IDENT = ("obj", "Identifier", {"name": "str"})
TM = ("obj", "Typemap", {"f_kind": "str", "sh_type": "str", "name": "str", "base": "str"})
ARGDECL = ("obj", "Declaration", {"typemap": TM})


def _param_list(ref):
    return VFun("PrintNode.param_list[opaque]", lambda ex, st, args, kw, node: VStr(z3.String(fresh_name("param_list"))))


def make_to_implied(suffix, argspec):
    return Unit(
        prop="C10", name="ToImplied.visit_Identifier" + suffix, target="shroud/wrapf.py::ToImplied.visit_Identifier",
        params={"self": ("obj", "ToImplied", {"arg": ARGDECL, "intermediate": "bool", "helper": "str",
                                              "func": ("obj", "FunctionNode", {"ast": ("obj", "Declaration", {"find_arg_by_name()": ARGDECL})})}),
                "node": ("obj", "Identifier", {"name": "str", "args": argspec})},
        callees={("ToImplied", "param_list"): _param_list},
        ensures=[
            # the Fortran intrinsic emitted is the one the user wrote, on the named argument, with the kind of the
            # C argument the value is passed to
            "implies(node.name == 'len_trim' and node.args is not None, "
            "result == 'len_trim(' + node.args[0].name + ',kind=' + self.arg.typemap.f_kind + ')')",
            "implies(node.name == 'len' and node.args is not None, "
            "result == 'len(' + node.args[0].name + ',kind=' + self.arg.typemap.f_kind + ')')",
            "implies(node.name == 'size' and node.args is not None, "
            "result == 'size(' + node.args[0].name + ',kind=' + self.arg.typemap.f_kind + ')')",
            "implies(node.args is None and node.name != 'true' and node.name != 'false', result == node.name)",
        ],
        raises=[],
    )


to_implied_call = make_to_implied("[call]", ("clist", IDENT))
to_implied_name = make_to_implied("[name]", "none")

# slice of VerifyAttrs.check_arg_attrs: when is a character argument passed as trim(arg)//C_NULL_CHAR
ftrim = Unit(
    prop="C10", name="check_arg_attrs[ftrim_char_in]", target="shroud/generate.py::VerifyAttrs.check_arg_attrs",
    slice=("if options.F_CFI is False and $X: pass", "if options.F_CFI is False and $X: pass"),
    params={"options": ("obj", "Scope0", {"F_CFI": "py"}), "intent": "py", "is_ptr": "int",
            "arg_typemap": ("obj", "Typemap", {"name": "str"}), "arg": ("obj", "Declaration", {"ftrim_char_in": "bool"})},
    requires=["is_ptr >= 0"],
    ensures=[
        # exactly for: no CFI, intent in, one level of indirection, type char
        "iff(arg.ftrim_char_in, old(arg).ftrim_char_in or (options.F_CFI is False and intent == 'in' and is_ptr == 1 "
        "and arg_typemap.name == 'char'))",
    ],
    raises=[],
)

UNITS = [to_implied_call, to_implied_name, ftrim]
