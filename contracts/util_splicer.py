"""Contracts for splicer emission and reading (C12; also C16 for the marker lines). DESIGN.md 6/C12, A.4, A.5."""
from pyvc.unit import Unit

_self = ("obj", "WrapperMixin", {
    "newlibrary": ("obj", "LibraryNode", {"options": ("obj", "Scope0", {"show_splicer_comments": "bool"})}),
    "comment": "str", "splicer_path": "str",
    "splicer_stack": ("clist", "dict[liststr]"),
})

_mid = "(force if force is not None else self.splicer_stack[-1][name] if name in self.splicer_stack[-1] else default)"

create_splicer = Unit(
    prop="C12", name="_create_splicer", target="shroud/util.py::WrapperMixin._create_splicer",
    params={"self": _self, "name": "str", "out": "list[str]",
            "default": ("opt", "list[str]"), "force": ("opt", "list[str]")},
    requires=[],
    init="""
marks = self.newlibrary.options.show_splicer_comments
b_ = 1 if marks else 0
n0 = len(old(out))
has_ = force is not None or name in self.splicer_stack[-1] or default is not None
""",
    ensures=[
        # only appended to
        "all(out[i] == old(out)[i] for i in range(n0))",
        # marker lines iff show_splicer_comments, with the documented text
        "implies(marks, out[n0] == self.comment + ' splicer begin ' + self.splicer_path + name)",
        "implies(marks, out[len(out) - 1] == self.comment + ' splicer end ' + self.splicer_path + name)",
        # precedence force > user splicer > default > nothing; body complete, in order, unchanged
        "implies(force is not None, len(out) == n0 + 2 * b_ + len(force))",
        "implies(force is not None, all(out[n0 + b_ + i] == force[i] for i in range(len(force))))",
        "implies(force is None and name in self.splicer_stack[-1], len(out) == n0 + 2 * b_ + len(self.splicer_stack[-1][name]))",
        "implies(force is None and name in self.splicer_stack[-1], all(out[n0 + b_ + i] == self.splicer_stack[-1][name][i] for i in range(len(self.splicer_stack[-1][name]))))",
        "implies(force is None and name not in self.splicer_stack[-1] and default is not None, len(out) == n0 + 2 * b_ + len(default))",
        "implies(force is None and name not in self.splicer_stack[-1] and default is not None, all(out[n0 + b_ + i] == default[i] for i in range(len(default))))",
        "implies(not has_, len(out) == n0 + 2 * b_)",
        # the returned flag does not depend on the comment option (C16)
        "result == has_",
        # the user's block stays available: a name that is emitted again (another instantiation of a class template, a
        # second file) gets the same code
        "implies(name in old(self).splicer_stack[-1], name in self.splicer_stack[-1])",
    ],
    raises=[],
)

UNITS = [create_splicer]


# ---------------------------------------------------------------------------------------------------------
# splicer.get_splicers: two-state line machine.  The nested-dict store is abstracted (class Tree): the contract
# attaches a ghost event to the statement that stores a block and states what exactly is stored.
_DEFS = {
    "isB": (["l"], "l.find('splicer begin') > 0"),
    "isE": (["l"], "l.find('splicer end') > 0"),
    "tagB": (["l"], "firstfield(l[l.find('splicer begin') + 13:])"),
    "tagE": (["l"], "firstfield(l[l.find('splicer end') + 11:])"),
}

get_splicers = Unit(
    prop="C12", name="get_splicers", target="shroud/splicer.py::get_splicers",
    params={"fname": "str", "out": ("obj", "Tree", {}), "filelines": "list[str]"},
    defs=_DEFS,
    init="b_ = 0\ne_ = 0\nnev = 0\n",
    loops={
        0: {"index": "k",
            "inv": [
                "state == 1 or state == 2",
                "0 <= e_ and e_ <= k and nev >= 0",
                # look state: no begin marker has been skipped since the last closed block
                "implies(state == 1, all(not isB(filelines[i]) for i in range(e_, k)))",
                # collect state: block opened at line b_, everything since is saved right-stripped, no end marker yet
                "implies(state == 2, e_ <= b_ and b_ < k and isB(filelines[b_]) and begin_tag == tagB(filelines[b_]))",
                "implies(state == 2, all(not isB(filelines[i]) for i in range(e_, b_)))",
                "implies(state == 2, all(not isE(filelines[i]) for i in range(b_ + 1, k)))",
                "implies(state == 2, len(save) == k - b_ - 1)",
                "implies(state == 2, all(save[i] == rstrip(filelines[b_ + 1 + i]) for i in range(k - b_ - 1)))",
                "implies(state == 2, begin_subtag == lastpiece(begin_tag, '.'))",
                # WHERE the block will be stored: between blocks `top` is the root of the store; while a block is being
                # collected it is the node reached through the dotted prefix of its tag
                "implies(state == 1, top.path == '')",
                "implies(state == 2, begin_tag == top.path + begin_subtag)",
            ]},
        1: {"index": "k1", "inv": ["len(subtags) >= 1", "top.path == splitpre(subtags, k1, '.')"]},
    },
    ghost=[
        ("after", "state = state_collect", "b_ = k\n"),
        # the store event: exactly the lines between the begin line b_ and this end line k, right-stripped,
        # complete and in order, under the last dotted component of the tag; tags agree
        ("after", "top[$X] = $X", """
assert isB(filelines[b_]) and isE(filelines[k]) and tagB(filelines[b_]) == tagE(filelines[k])
assert len(tree_val) == k - b_ - 1
assert all(tree_val[i] == rstrip(filelines[b_ + 1 + i]) for i in range(k - b_ - 1))
assert all(not isE(filelines[i]) for i in range(b_ + 1, k))
assert tree_key == lastpiece(tagB(filelines[b_]), '.')
assert tagB(filelines[b_]) == tree_path + tree_key
nev = nev + 1
e_ = k + 1
"""),
    ],
    ensures=["nev >= 0"],
    # mismatched end tag / duplicate tag
    raises=["RuntimeError"],
)

UNITS.append(get_splicers)
