"""Printer contract (C09/U1 printer half; assumption A3 of C11): the text todict.PrintNode produces for an
expression is split into the same tokens by the C and Fortran lexers as by shroud's own tokenizer.

Oracle (grammar form of "no adjacent pair of tokens merges or is illegal in C / Fortran" for this alphabet):
  WELL(s)    s is expression text whose first token is not a sign
  SIGNED(s)  s is expression text whose first token is a sign
  W1  WELL(a) or SIGNED(a), WELL(b), op in + - * /   =>  a op b  is WELL resp. SIGNED   (right operand NOT signed:
      "1--1" lexes as 1 -- 1 in C and two consecutive operators are not Fortran)
  W2  WELL(a) or SIGNED(a)  =>  WELL("(" a ")")
  W3  WELL(a)  =>  SIGNED(sign a)                     ("--1" / "+-1" are not produced)
  WX  SIGNED(s) => s starts with + or -;  WELL(s) => it does not
Nothing else is assumed well formed."""
import z3
from pyvc.unit import Unit
from pyvc.values import VFun, VStr, VNone, fresh_name, StrS, BoolS

WELL = z3.Function("spec_well_unsigned", StrS, BoolS)
SIGNED = z3.Function("spec_well_signed", StrS, BoolS)
S = z3.StringVal


def _visit(ref):
    """callee contract of self.visit(child) (each visit_* method below proves it for its own node class)"""
    def call(ex, st, args, kw, node):
        r = z3.String(fresh_name("printed"))
        st.assume(z3.Length(r) >= 1)
        st.assume(z3.Xor(WELL(r), SIGNED(r)))
        sign0 = z3.Or(z3.PrefixOf(S("+"), r), z3.PrefixOf(S("-"), r))
        st.assume(SIGNED(r) == sign0)
        from pyvc.values import HCList
        lst = st.env["visited_"]
        st.heap[lst.oid] = HCList(st.heap[lst.oid].items + [VStr(r)])
        return VStr(r)
    return VFun("Visitor.visit[contract: well-formed text; SIGNED iff it starts with a sign]", call)


def _lemma(self):
    def w1(node, st):
        a, op, b = [self.ev(x, st).e for x in node.args]
        isop = z3.Or(*[op == S(o) for o in "+-*/"])
        st.assume(z3.Implies(z3.And(isop, WELL(b), WELL(a)), WELL(z3.Concat(a, op, b))))
        st.assume(z3.Implies(z3.And(isop, WELL(b), SIGNED(a)), SIGNED(z3.Concat(a, op, b))))
        return VNone()

    def w2(node, st):
        a = self.ev(node.args[0], st).e
        st.assume(z3.Implies(z3.Or(WELL(a), SIGNED(a)), WELL(z3.Concat(S("("), a, S(")")))))
        return VNone()

    def w3(node, st):
        sg, a = [self.ev(x, st).e for x in node.args]
        st.assume(z3.Implies(z3.And(WELL(a), z3.Or(sg == S("+"), sg == S("-"))), SIGNED(z3.Concat(sg, a))))
        return VNone()
    def wx(node, st):
        r = self.ev(node.args[0], st).e
        sign0 = z3.Or(z3.PrefixOf(S("+"), r), z3.PrefixOf(S("-"), r))
        st.assume(z3.And(z3.Implies(SIGNED(r), sign0), z3.Implies(WELL(r), z3.Not(sign0))))
        return VNone()
    return {"W1": w1, "W2": w2, "W3": w3, "WX": wx}


NODE = ("obj", "Node", {})
SELF = ("obj", "PrintNode", {})
ENS = ["len(result) >= 1", "WELL(result) != SIGNED(result)",
       "SIGNED(result) == (result.startswith('+') or result.startswith('-'))"]

visit_binary = Unit(
    prop="C11", name="PrintNode.visit_BinaryOp", target="shroud/todict.py::PrintNode.visit_BinaryOp",
    params={"self": SELF, "node": ("obj", "BinaryOp", {"left": NODE, "op": "str", "right": NODE})},
    requires=["node.op == '+' or node.op == '-' or node.op == '*' or node.op == '/'"],   # OPINFO_MAP keys
    callees={("PrintNode", "visit"): _visit},
    ensures=ENS, raises=[],
)
visit_unary = Unit(
    prop="C11", name="PrintNode.visit_UnaryOp", target="shroud/todict.py::PrintNode.visit_UnaryOp",
    params={"self": SELF, "node": ("obj", "UnaryOp", {"op": "str", "node": NODE})},
    requires=["node.op == '+' or node.op == '-'"],      # ExprParser.primary builds UnaryOp for these two only
    callees={("PrintNode", "visit"): _visit},
    ensures=ENS, raises=[],
)
visit_paren = Unit(
    prop="C11", name="PrintNode.visit_ParenExpr", target="shroud/todict.py::PrintNode.visit_ParenExpr",
    params={"self": SELF, "node": ("obj", "ParenExpr", {"node": NODE})},
    callees={("PrintNode", "visit"): _visit},
    ensures=ENS, raises=[],
)
UNITS = [visit_binary, visit_unary, visit_paren]
for _u in UNITS:
    _u.spec_funcs = {"WELL": WELL, "SIGNED": SIGNED}
    _u.special_factories = [_lemma]
    _u.init = "visited_ = []\n"
# oracle instances for the operand texts the method obtained (plain and parenthesised forms)
visit_binary.exit_ghost = """
WX(result)
W2(visited_[0])
W2(visited_[1])
W1(visited_[0], node.op, visited_[1])
W1(visited_[0], node.op, '(' + visited_[1] + ')')
W1('(' + visited_[0] + ')', node.op, visited_[1])
W1('(' + visited_[0] + ')', node.op, '(' + visited_[1] + ')')
"""
visit_unary.exit_ghost = """
WX(result)
W2(visited_[0])
W3(node.op, visited_[0])
W3(node.op, '(' + visited_[0] + ')')
"""
visit_paren.exit_ghost = "WX(result)\nW2(visited_[0])\n"
