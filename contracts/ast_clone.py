"""C14/U5: instantiating a class template keeps every enclosing scope of its functions.

A util.Scope is abstracted by ghost fields: `lid` (identity of its own dictionary content), `parent`, and `sig`, the
signature of the whole lookup chain: sig(s) = CONS(s.lid, sig(s.parent)).  Two scopes with equal sig give equal
lookups for every key (parent fallback walks exactly that chain).

Spec function for the clone of a class `old` into `new`:
    RESIG(old, new, old) = sig(new)                                     the class's own scope is replaced by the clone's
    RESIG(old, new, s)   = CONS(s.lid, RESIG(old, new, s.parent))  s != old   every scope between a function and the class
                                                                        (blocks) is kept
ClassNode.clone must give every cloned function a scope whose chain above it is RESIG(parent of the original function's
scope), for fmtdict and for options; the scopes of the template itself stay untouched (frame).

Assumed contracts (util.Scope, three-line methods, listed as trusted): clone() -> new scope, same content, same parent;
reparent(p) sets the parent; get_parent() returns it.  FunctionNode.clone() -> new node whose fmtdict/options are
.clone()s of the original's."""
import z3
from pyvc.unit import Unit
from pyvc.values import VFun, VInt, VRef, VNone, HObj, fresh_name

CONS = z3.Function("scope_CONS", z3.IntSort(), z3.IntSort(), z3.IntSort())
RESIG = z3.Function("scope_RESIG", z3.IntSort(), z3.IntSort(), z3.IntSort(), z3.IntSort())   # (old.gid, sig(new), s.gid)


def _scope_fields(gid=None, lid=None, sig=None, parent=None):
    return {"gid": gid if gid is not None else VInt(z3.Int(fresh_name("gid"))),
            "lid": lid if lid is not None else VInt(z3.Int(fresh_name("lid"))),
            "sig": sig if sig is not None else VInt(z3.Int(fresh_name("sig"))),
            "parent": parent if parent is not None else VNone()}


def _scope_clone(ref):
    def call(ex, st, args, kw, node):
        c = st.heap[ref.oid]
        return st.alloc(HObj("ScopeObj", _scope_fields(lid=c.f["lid"], sig=c.f["sig"], parent=c.f["parent"])))
    return VFun("util.Scope.clone[assumed: new scope, same content, same parent]", call)


def _scope_reparent(ref):
    def call(ex, st, args, kw, node):
        c = st.heap[ref.oid]
        p = args[0]
        f = dict(c.f)
        f["parent"] = p
        if isinstance(p, VRef):
            f["sig"] = VInt(CONS(c.f["lid"].e, st.heap[p.oid].f["sig"].e))
        else:
            f["sig"] = VInt(z3.Int(fresh_name("sig_noparent")))
        st.heap[ref.oid] = HObj("ScopeObj", f)
        return VNone()
    return VFun("util.Scope.reparent[assumed: sets the parent]", call)


def _scope_get_parent(ref):
    def call(ex, st, args, kw, node):
        return st.heap[ref.oid].f["parent"]
    return VFun("util.Scope.get_parent[assumed: returns the parent]", call)


SCOPE_METHODS = {("ScopeObj", "clone"): _scope_clone, ("ScopeObj", "reparent"): _scope_reparent,
                 ("ScopeObj", "get_parent"): _scope_get_parent}


def _scope(parent=None):
    f = {"gid": "int", "lid": "int", "sig": "int"}
    f["parent"] = parent if parent is not None else "none"
    return ("obj", "ScopeObj", f)


def _rec_contract(ex, st, args, kw, node):
    """clone_scope_chain by its own contract (the recursive call): result.sig == RESIG(scope); scope None -> new"""
    scope, old, new = args
    if isinstance(scope, VNone) or (isinstance(scope, VRef) and scope.oid == old.oid):
        return new
    c = st.heap[scope.oid]
    return st.alloc(HObj("ScopeObj", _scope_fields(lid=c.f["lid"], sig=VInt(RESIG(st.heap[old.oid].f["gid"].e, st.heap[new.oid].f["sig"].e, c.f["gid"].e)))))


# ---- clone_scope_chain: three shapes (is-tests on references are decided per shape) --------------------------------
def _chain_unit(shape):
    if shape == "at-class":
        params = {"old": _scope(), "scope": ("same", "old"), "new": _scope()}
        requires = ["RESIG(old.gid, new.sig, old.gid) == new.sig"]                 # definition, base case
        ensures = ["result is new"]
    elif shape == "none":
        params = {"old": _scope(), "scope": "none", "new": _scope()}
        requires, ensures = [], ["result is new"]
    else:
        params = {"old": _scope(), "scope": _scope(parent=_scope()), "new": _scope()}
        # definition, step case: scope is a block scope below the class
        requires = ["RESIG(old.gid, new.sig, scope.gid) == CONS(scope.lid, RESIG(old.gid, new.sig, scope.parent.gid))",
                    "scope.sig == CONS(scope.lid, scope.parent.sig)"]
        ensures = ["result.sig == RESIG(old.gid, new.sig, scope.gid)", "result.lid == scope.lid",
                   "result is not scope and result is not old and result is not new and result is not scope.parent"]
    u = Unit(prop="C14", name="clone_scope_chain[%s]" % shape, target="shroud/ast.py::clone_scope_chain",
             params=params, requires=requires, ensures=ensures, raises=[], modifies=[], callees=dict(SCOPE_METHODS))
    u.global_callees["clone_scope_chain"] = VFun("clone_scope_chain[own contract: recursive call]", _rec_contract)
    u.spec_funcs = {"RESIG": RESIG, "CONS": CONS}
    u.pure_callees = ["clone_scope_chain", "clone", "get_parent"]
    u.check_frame = True
    return u


# ---- ClassNode.clone, body of the loop over the functions of the template -------------------------------------------
def _fn_clone(ref):
    def call(ex, st, args, kw, node):
        c = st.heap[ref.oid]
        f = dict(c.f)
        for k in ("fmtdict", "options"):
            s = st.heap[c.f[k].oid]
            f[k] = st.alloc(HObj("ScopeObj", _scope_fields(lid=s.f["lid"], sig=s.f["sig"], parent=s.f["parent"])))
        return st.alloc(HObj("FunctionNode", f))
    return VFun("FunctionNode.clone[assumed: new node, fmtdict/options are clones]", call)


def _full_contract(ex, st, args, kw, node):
    """clone_scope_chain by contract, any shape: requires the scope to be one of the template (its RESIG is defined)"""
    return _rec_contract(ex, st, args, kw, node)


def _body_unit(depth):
    """depth 0: the function is declared directly in the class; depth 1: inside a block (its scope's parent is a block
    scope; how many more blocks lie above is immaterial: the callee's contract covers the rest of the chain)"""
    if depth == 0:
        fparent = lambda cls: ("same", cls)
    else:
        fparent = lambda cls: _scope(parent=_scope())
    params = {
        "self": ("obj", "ClassNode", {"fmtdict": _scope(parent=_scope()), "options": _scope(parent=_scope())}),
        "new": ("obj", "ClassNode", {"fmtdict": _scope(parent=_scope()), "options": _scope(parent=_scope())}),
        "fcn": ("obj", "FunctionNode", {}),
        "newfcns": ("clist",),
    }
    if depth == 0:
        params["fcn"] = ("obj", "FunctionNode", {"fmtdict": _scope(parent=("same", "self.fmtdict")),
                                                 "options": _scope(parent=("same", "self.options"))})
        requires = []
        want_f, want_o = "new.fmtdict.sig", "new.options.sig"
    else:
        params["fcn"] = ("obj", "FunctionNode", {"fmtdict": _scope(parent=_scope(parent=_scope())),
                                                 "options": _scope(parent=_scope(parent=_scope()))})
        requires = []
        want_f = "RESIG(self.fmtdict.gid, new.fmtdict.sig, fcn.fmtdict.parent.gid)"
        want_o = "RESIG(self.options.gid, new.options.sig, fcn.options.parent.gid)"
    u = Unit(prop="C14", name="ClassNode.clone[loop body, function %s]" % ("in the class" if depth == 0 else "in a block"),
             target="shroud/ast.py::ClassNode.clone",
             slice=("newfcn = fcn.clone()", "newfcns.append(newfcn)"),
             params=params, requires=requires,
             init="f0 = fcn.fmtdict.sig\no0 = fcn.options.sig\n",
             ensures=[
                 # the clone looks up: its own fields, then every block between it and the class, then the NEW class
                 "newfcns[0].fmtdict.sig == CONS(fcn.fmtdict.lid, %s)" % want_f,
                 "newfcns[0].options.sig == CONS(fcn.options.lid, %s)" % want_o,
                 "newfcns[0].fmtdict is not fcn.fmtdict and newfcns[0].options is not fcn.options",
                 # the template's own function keeps its chain
                 "fcn.fmtdict.sig == f0 and fcn.options.sig == o0",
             ], raises=[], callees=dict(SCOPE_METHODS))
    u.callees[("FunctionNode", "clone")] = _fn_clone
    u.global_callees["clone_scope_chain"] = VFun("clone_scope_chain[contract]", _full_contract)
    u.spec_funcs = {"RESIG": RESIG, "CONS": CONS}
    u.pure_callees = ["clone_scope_chain", "clone", "get_parent"]
    return u


UNITS = [_chain_unit("at-class"), _chain_unit("none"), _chain_unit("block"), _body_unit(0), _body_unit(1)]
