"""Contract for shroud/util.py::un_camel (C08/U1, DESIGN.md A.3)."""
from pyvc.unit import Unit

FOLDS = {
    # name: (result kind, nil, snoc(acc, ch))
    "DU": ("str", '""', 'acc if ch == "_" else acc + ch'),          # delete underscores
    "LOW": ("str", '""', 'acc + ch.lower()'),                          # lower-case every character
    "NOUP": ("bool", 'True', 'acc and not ch.isupper()'),              # no upper-case character
}

_step = """
assert text[:pos + 1] == text[:pos] + text[pos]
LOW_snoc(text[:pos], text[pos])
DU_snoc(LOW(text[:pos]), text[pos].lower())
"""

un_camel = Unit(
    prop="C08", name="un_camel", target="shroud/util.py::un_camel",
    params={"text": "str"},
    requires=[
        # ASCII identifier characters: per-character case functions are axiomatised for ASCII only
        "all(code(text[i]) < 128 for i in range(len(text)))",
    ],
    folds=FOLDS,
    init="""
DU_nil()
LOW_nil()
NOUP_nil()
""",
    loops={0: {
        "inv": [
            "0 <= pos and pos <= len(text) and len(result) == pos",
            'DU("".join(result)) == DU(LOW(text[:pos]))',
            'NOUP("".join(result))',
            'pos <= len("".join(result)) and len("".join(result)) <= 2 * pos',
            # a name without capitals is returned unchanged
            'implies(NOUP(text[:pos]), "".join(result) == text[:pos])',
        ],
        "decreases": "len(text) - pos",
        "head": "J0 = ''.join(result)\np0_ = pos\n" + _step + "NOUP_snoc(text[:pos], text[pos])\n",
        # the documented mapping itself (names must be predictable from the input alone): an underscore goes before a
        # capital that is not among the first two characters and that follows a lower-case letter or precedes one
        "end": """
c_ = text[p0_]
sep_ = c_.isupper() and p0_ >= 2 and (text[p0_ - 1].islower() or (p0_ + 1 < len(text) and text[p0_ + 1].islower()))
assert result[-1] == (('_' + c_.lower()) if sep_ else c_.lower())
assert len(result) == p0_ + 1
""",
    }},
    ghost=[
        # whatever is appended: unfold the folds over its (at most two) characters
        ("after", "result.append($X)", """
x_ = result[-1]
assert len(x_) == 1 or len(x_) == 2
DU_snoc(J0, x_[0:1])
DU_snoc(J0 + x_[0:1], x_[1:2])
NOUP_snoc(J0, x_[0:1])
NOUP_snoc(J0 + x_[0:1], x_[1:2])
"""),
    ],
    ensures=[
        "NOUP(result)",
        "DU(result) == DU(LOW(text))",
        "len(text) <= len(result) and len(result) <= 2 * len(text)",
        "implies(NOUP(text), result == text)",
    ],
    raises=[],
)

UNITS = [un_camel]
