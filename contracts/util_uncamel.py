"""Contract for shroud/util.py::un_camel (C08/U1, DESIGN.md A.3)."""
from pyvc.unit import Unit

FOLDS = {
    # name: (result kind, nil, snoc(acc, ch))
    "DU": ("str", '""', 'acc if ch == "_" else acc + ch'),          # delete underscores
    "LOW": ("str", '""', 'acc + ch.lower()'),                          # lower-case every character
    "NOUP": ("bool", 'True', 'acc and not ch.isupper()'),              # no upper-case character
}

_step = """
assert text[:pos + 1] == text[:pos] + text[pos]
LOW_snoc(text[:pos], text[pos])
DU_snoc(LOW(text[:pos]), text[pos].lower())
"""

un_camel = Unit(
    prop="C08", name="un_camel", target="shroud/util.py::un_camel",
    params={"text": "str"},
    requires=[
        # ASCII identifier characters: per-character case functions are axiomatised for ASCII only
        "all(code(text[i]) < 128 for i in range(len(text)))",
    ],
    folds=FOLDS,
    init="""
DU_nil()
LOW_nil()
NOUP_nil()
""",
    loops={0: {
        "inv": [
            "0 <= pos and pos <= len(text)",
            'DU("".join(result)) == DU(LOW(text[:pos]))',
            'NOUP("".join(result))',
            'pos <= len("".join(result)) and len("".join(result)) <= 2 * pos',
            # a name without capitals is returned unchanged
            'implies(NOUP(text[:pos]), "".join(result) == text[:pos])',
        ],
        "decreases": "len(text) - pos",
        "head": "J0 = ''.join(result)\n" + _step + "NOUP_snoc(text[:pos], text[pos])\n",
    }},
    ghost=[
        # whatever is appended: unfold the folds over its (at most two) characters
        ("after", "result.append($X)", """
x_ = result[-1]
assert len(x_) == 1 or len(x_) == 2
DU_snoc(J0, x_[0:1])
DU_snoc(J0 + x_[0:1], x_[1:2])
NOUP_snoc(J0, x_[0:1])
NOUP_snoc(J0 + x_[0:1], x_[1:2])
"""),
    ],
    ensures=[
        "NOUP(result)",
        "DU(result) == DU(LOW(text))",
        "len(text) <= len(result) and len(result) <= 2 * len(text)",
        "implies(NOUP(text), result == text)",
    ],
    raises=[],
)

UNITS = [un_camel]
