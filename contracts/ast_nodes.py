"""C14/U2-U3: per-node scope wiring and the attrs/fattrs merge of ast.FunctionNode.__init__."""
import ast as _ast
import os
import z3
from pyvc.unit import Unit
from pyvc.values import VFun, VStr, VPy, VRef, HObj, PyVal, fresh_name


# ---- U3: the YAML fattrs reach the declaration before anything reads its name -------------------------------------
def _decl_name(ex, ref, st):
    """declast.Declaration.name (property get_name): attrs['name'] or attrs['_name'], else the declarator's name"""
    cell = st.heap[ref.oid]
    attrs = st.heap[cell.f["attrs"].oid]
    S = z3.StringVal

    def rd(k):
        return z3.If(z3.Select(attrs.keys, S(k)), z3.Select(attrs.vals, S(k)), PyVal.pnone)
    n1, n2 = rd("name"), rd("_name")
    t1 = ex.truth(VPy(n1), st)
    chosen = z3.If(t1, n1, n2)
    return VPy(z3.If(z3.Not(PyVal.is_pnone(chosen)), chosen, PyVal.pstr(cell.f["declarator_name"].e)))


def _un_camel(ref):
    def call(ex, st, args, kw, node):
        a = args[0]
        if isinstance(a, VPy):
            # un_camel(text): len(text), text[i] -- anything but a str is a TypeError (C17: must not escape)
            ex.safety(st, "TypeError", PyVal.is_pstr(a.e), node, "un_camel of a value that is not a string")
        r = VStr(z3.String(fresh_name("un_camel")))
        st.env["uc_result_"] = r            # ghost: what un_camel returned for the function's name
        st.env["uc_arg_"] = a
        return r
    return VFun("util.un_camel[contract C08/U1: pure, needs a str]", call)


def make_fattrs_unit(with_fattrs):
    kw = ("obj", "KwargsFattrs" if with_fattrs else "KwargsNone", {})
    u = Unit(
        prop="C14", name="FunctionNode.__init__[fattrs%s]" % ("" if with_fattrs else "-absent"),
        target="shroud/ast.py::FunctionNode.__init__",
        # from the point where the parsed declaration is attached to the node to the end of __init__
        slice=("self.ast = ast", "$END"),
        params={"self": ("obj", "FunctionNode", {"fmtdict": ("obj", "ScopeObj", {}), "splicer": "py", "fstatements": "opaque",
                                                 "fortran_generic": ("clist",), "have_template_args": "bool", "ast": "py"}),
                "ast": ("obj", "Declaration", {"attrs": "ddict[py]", "declarator_name": "str", "params": ("clist",),
                                               "typemap": ("obj", "Typemap", {"base": "str"})}),
                "kwargs": ("clistdict", {"fattrs": "dict[py]"} if with_fattrs else {}),
                "util": ("obj", "module:util", {})},
        callees={("module:util", "un_camel"): _un_camel},
        # '_name' is set by the parser itself (constructors / destructors): a string when present
        requires=["ast.attrs['_name'] is None or isstr(ast.attrs['_name'])"] +
                 (["not ('_name' in kwargs['fattrs'])"] if with_fattrs else []),      # internal key, not a YAML attribute
        ensures=[
            # the name used for every generated symbol is the declaration's name AFTER the YAML attributes were merged:
            # fattrs: {name: x} equals the inline attribute +name(x)
            "self.fmtdict.function_name == ast.name",
            # C08: the underscore name is un_camel of exactly that name, unaltered (un_camel is injective on the documented
            # alphabet; stripping or trimming its result would merge names)
            "self.fmtdict.underscore_name == uc_result_ and uc_arg_ == ast.name",
        ] + (["implies(kwargs['fattrs'].get('name'), self.fmtdict.function_name == kwargs['fattrs']['name'])"] if with_fattrs else []),
        # a name attribute without a value (+name -> True) or with a non-string value is rejected with a message
        raises=["RuntimeError"],
    )
    u.properties = {("Declaration", "name"): _decl_name}
    return u


UNITS = [make_fattrs_unit(True)]


# ---- U2: every node gets its own option / format scope whose parent is the container's ---------------------------
def scope_wiring_items(ctx, repo):
    """self.options / self.fmtdict of a node must be a FRESH util.Scope whose parent is the container's scope on
    every path of __init__ (a write through node.options must never land in the container).  Decided per assignment
    statement: a constructor call util.Scope(parent.X ...) is fresh; an existing object (name / attribute) is a
    violation; anything else is undecided."""
    tree = _ast.parse(open(os.path.join(repo, "shroud/ast.py")).read())
    for cls in [n for n in tree.body if isinstance(n, _ast.ClassDef)]:
        if cls.name in ("LibraryNode", "WrapFlags", "AstNode", "NamespaceMixin", "TemplateArgument", "FortranGeneric", "PromoteWrap"):
            continue
        init = [m for m in cls.body if isinstance(m, _ast.FunctionDef) and m.name == "__init__"]
        if not init:
            continue
        for st in _ast.walk(init[0]):
            if not isinstance(st, _ast.Assign):
                continue
            for t in st.targets:
                if isinstance(t, _ast.Attribute) and isinstance(t.value, _ast.Name) and t.value.id == "self" \
                        and t.attr in ("options", "fmtdict"):
                    field = {"options": "options", "fmtdict": "fmtdict"}[t.attr]
                    ident = "C14/U2/%s.__init__:%d:self.%s" % (cls.name, st.lineno, t.attr)
                    v = st.value
                    fresh = False
                    alias = False
                    for sub in ([v] if not isinstance(v, _ast.IfExp) else [v.body, v.orelse]):
                        if isinstance(sub, _ast.Call) and getattr(sub.func, "attr", getattr(sub.func, "id", "")) == "Scope":
                            args = list(sub.args) + [k.value for k in sub.keywords if k.arg == "parent"]
                            ok_parent = any(isinstance(a, _ast.Attribute) and a.attr == field and isinstance(a.value, _ast.Name)
                                            and a.value.id == "parent" for a in args)
                            fresh = fresh or ok_parent
                            if not ok_parent:
                                alias = True
                        elif isinstance(sub, (_ast.Name, _ast.Attribute)):
                            alias = True
                    if alias:
                        ctx.item(ident, False, "%s.%s may be bound to an existing scope object (%s): options written on the "
                                 "node would land in the shared container scope" % (cls.name, t.attr, _ast.unparse(v)[:70]),
                                 sample={"class": cls.name, "statement": _ast.unparse(st)[:100]})
                    elif fresh:
                        ctx.item(ident, True, sample={"class": cls.name, "statement": _ast.unparse(st)[:100]})
                    else:
                        ctx.undecided.append("%s: %s" % (ident, _ast.unparse(st)[:80]))


# ---- U3b: the YAML attrs reach the argument that CARRIES that name (Declaration.name: for a function-pointer argument the
# name sits in declarator.func, not in declarator) ----------------------------------------------------------------------
def _attr_update(ref):
    def call(ex, st, args, kw, node):
        c = st.heap[ref.oid]
        f = dict(c.f)
        f["upd"] = __import__("pyvc.values", fromlist=["VBool"]).VBool(True)
        f["val"] = VPy(ex.to_py(args[0]))
        st.heap[ref.oid] = HObj(c.cls, f)
        return __import__("pyvc.values", fromlist=["VNone"]).VNone()
    return VFun("dict.update on the argument's attrs[ghost: records what was merged]", call)


_ARG = ("obj", "Declaration", {"name": "str", "declarator": ("opt", ("obj", "Declarator", {"name": ("opt", "str")})),
                               "attrs": ("obj", "AttrDict", {"upd": ("const", False), "val": "py"})})
attrs_merge = Unit(
    prop="C14", name="FunctionNode.__init__[attrs of an argument]", target="shroud/ast.py::FunctionNode.__init__",
    slice=('if "attrs" in kwargs: pass', 'if "attrs" in kwargs: pass'),
    params={"kwargs": ("clistdict", {"attrs": "dict[py]"}), "ast": ("obj", "Declaration", {"params": ("clist", _ARG)})},
    callees={("AttrDict", "update"): _attr_update},
    ensures=[
        # keyed by the name of the argument as the declaration reports it
        "implies(ast.params[0].name in kwargs['attrs'], ast.params[0].attrs.upd and ast.params[0].attrs.val == kwargs['attrs'][ast.params[0].name])",
        "implies(not (ast.params[0].name in kwargs['attrs']), not ast.params[0].attrs.upd)",
    ],
    raises=[],
)
UNITS += [attrs_merge]
