"""C15/U2: WrapFlags.accumulate is a field-wise OR; PromoteWrap leaves a container's flag true iff its own or some
member's flag is (one fold step per child collection; recursion through the visitor by contract)."""
import z3
from pyvc.unit import Unit
from pyvc.values import VFun, VNone, HObj, VBool, fresh_name

FLAGS = ["fortran", "c_f", "c", "lua", "python"]
WRAP = ("obj", "WrapFlags", dict((f, "bool") for f in FLAGS))

accumulate = Unit(
    prop="C15", name="WrapFlags.accumulate", target="shroud/ast.py::WrapFlags.accumulate",
    params={"self": WRAP, "wrap": WRAP},
    modifies=["self"],
    ensures=["self.%s == (old(self).%s or wrap.%s)" % (f, f, f) for f in FLAGS] +
            ["wrap.%s == old(wrap).%s" % (f, f) for f in FLAGS],
    raises=[],
)


def _visit(ref):
    """self.visit(child): the child's own promotion (its wrap may only gain flags); other objects untouched"""
    def call(ex, st, args, kw, node):
        child = args[0]
        w = st.heap[child.oid].f["wrap"]
        cell = st.heap[w.oid]
        f = {}
        for k, v in cell.f.items():
            nv = z3.Bool(fresh_name("promoted_" + k))
            st.assume(z3.Implies(v.e, nv))
            f[k] = VBool(nv)
        st.heap[w.oid] = HObj("WrapFlags", f)
        st.env.setdefault("visited_", st.alloc(__import__("pyvc.values", fromlist=["HCList"]).HCList([])))
        lst = st.env["visited_"]
        from pyvc.values import HCList
        st.heap[lst.oid] = HCList(st.heap[lst.oid].items + [child])
        return VNone()
    return VFun("Visitor.visit[contract: child's flags may only be raised]", call)


def CHILD():
    return ("obj", "Node", {"wrap": WRAP})


def make_promote(method, colls, containers):
    node = ("obj", "Node", dict([("wrap", WRAP)] + [(c, ("clist", CHILD())) for c in colls]))
    ens = []
    for f in FLAGS:
        terms = " or ".join(["old(node).wrap.%s" % f] + ["node.%s[0].wrap.%s" % (c, f) for c in colls])
        ens.append("node.wrap.%s == (%s)" % (f, terms))
    u = Unit(
        prop="C15", name="PromoteWrap." + method, target="shroud/ast.py::PromoteWrap." + method,
        params={"self": ("obj", "PromoteWrap", {}), "node": node},
        callees={("PromoteWrap", "visit"): _visit},
        callee_units={("WrapFlags", "accumulate"): accumulate},
        init="visited_ = []\n",
        # the container's flag after promotion is the OR of its own flag and the (promoted) flag of every member of
        # every member collection; member containers (classes, namespaces) are promoted first
        ensures=ens + ["len(visited_) == %d" % len(containers)] +
                ["visited_[%d] is node.%s[0]" % (i, c) for i, c in enumerate(containers)],
        raises=[],
    )
    return u


ALL = ["classes", "enums", "functions", "namespaces", "typedefs", "variables"]
promote_library = make_promote("visit_LibraryNode", ALL, ["classes", "namespaces"])
promote_namespace = make_promote("visit_NamespaceNode", ALL, ["classes", "namespaces"])
promote_class = make_promote("visit_ClassNode", [c for c in ALL if c != "namespaces"], ["classes"])

UNITS = [accumulate, promote_library, promote_namespace, promote_class]

# ---------------------------------------------------------------------------------------------------------
# WrapFlags.assign sets every flag (defaults False); a default-argument variant created by GenFunctions.has_default_args
# keeps its function's own choice for C and Fortran and is never wrapped for Python / Lua (they handle defaults
# themselves): a declaration switched off for a language does not come back through its shorter signatures.
assign = Unit(
    prop="C15", name="WrapFlags.assign", target="shroud/ast.py::WrapFlags.assign",
    params=dict([("self", WRAP)] + [(f, "bool") for f in FLAGS]),
    modifies=["self"],
    ensures=["self.%s == %s" % (f, f) for f in FLAGS],
    raises=[],
)
assign.defaults = dict((f, False) for f in FLAGS)

_FN = ("obj", "FunctionNode", {"wrap": WRAP})
default_arg_clone = Unit(
    prop="C15", name="GenFunctions.has_default_args[wrap flags of the variant]",
    target="shroud/generate.py::GenFunctions.has_default_args",
    slice=("new.wrap.assign($X)", "new.wrap.assign($X)"),
    params={"node": _FN, "new": _FN},
    callee_units={("WrapFlags", "assign"): assign},
    ensures=["new.wrap.c == node.wrap.c", "new.wrap.fortran == node.wrap.fortran",
             "not new.wrap.python and not new.wrap.lua",
             "node.wrap.c == old(node).wrap.c and node.wrap.fortran == old(node).wrap.fortran"],
    raises=[],
)
UNITS += [assign, default_arg_clone]

# ---------------------------------------------------------------------------------------------------------
# GenFunctions.process_return_this: the variant without result takes over the C and Fortran wrappers of the method; the
# method itself keeps exactly its Python and Lua choice (those languages wrap the original, which can be chained).
clear = Unit(
    prop="C15", name="WrapFlags.clear", target="shroud/ast.py::WrapFlags.clear",
    params={"self": WRAP}, modifies=["self"], ensures=["not self.%s" % f for f in FLAGS], raises=[],
)


def _noop_method(ref):
    return VFun("Declaration.set_return_to_void[does not touch wrap flags]", lambda ex, st, args, kw, node: VNone())


_FN2 = ("obj", "FunctionNode", {"wrap": WRAP, "_generated": "py", "ast": ("obj", "Declaration", {})})
return_this = Unit(
    prop="C15", name="GenFunctions.process_return_this[wrap flags]", target="shroud/generate.py::GenFunctions.process_return_this",
    slice=('new._generated = "return_this"', "new.ast.set_return_to_void()"),
    params={"node": _FN2, "new": _FN2},
    callee_units={("WrapFlags", "assign"): assign, ("WrapFlags", "clear"): clear},
    callees={("Declaration", "set_return_to_void"): _noop_method},
    init="c0 = node.wrap.c\nf0 = node.wrap.fortran\np0 = node.wrap.python\nl0 = node.wrap.lua\n",
    ensures=["new.wrap.c == c0 and new.wrap.fortran == f0", "not new.wrap.python and not new.wrap.lua",
             "not node.wrap.c and not node.wrap.fortran",
             # the method stays wrapped for the languages that wrap the original
             "node.wrap.python == p0 and node.wrap.lua == l0"],
    raises=[],
)
return_this.pure_callees = ["set_return_to_void"]
UNITS += [clear, return_this]
