"""C14/U4: the --option merge of main.main_with_args (slice) -- command-line options equal the same YAML options."""
import ast
import os
from pyvc.unit import Unit


def int_option_names(repo):
    """options whose default (LibraryNode.default_options) is an int: YAML delivers them as int"""
    src = open(os.path.join(repo, "shroud/ast.py")).read()
    names = []
    for n in ast.walk(ast.parse(src)):
        if isinstance(n, ast.FunctionDef) and n.name == "default_options":
            for c in ast.walk(n):
                if isinstance(c, ast.Call) and getattr(c.func, "attr", "") == "Scope":
                    for kw in c.keywords:
                        if isinstance(kw.value, ast.Constant) and isinstance(kw.value.value, int) \
                                and not isinstance(kw.value.value, bool):
                            names.append(kw.arg)
    return sorted(names)


def make_unit(repo):
    ints = int_option_names(repo)
    isint_name = " or ".join("nm_ == %r" % n for n in ints) or "False"
    return Unit(
        prop="C14", name="main_with_args[--option]", target="shroud/main.py::main_with_args",
        slice=("if args.option: pass", "if args.option: pass"),
        params={"args": ("obj", "Namespace", {"option": "list[str]"}),
                "allinput": ("obj", "Tree", {})},
        init="nm_ = ''\nval_ = ''\n",
        loops={2: {"index": "ko",
                   "head": "opt0 = option\n",
                   # per option: name=value is split at the first '='; the value is typed as the YAML file would type it:
                   # true/false -> bool, digits -> int (integer options such as F_line_length must not stay text), else text
                   "end": """
nm_ = tree_key
assert opt0 == asstr(tree_key) + '=' + vtext_ and '=' not in asstr(tree_key)
assert implies(vtext_ == 'true' or vtext_ == 'True', tree_val is True)
assert implies(vtext_ == 'false' or vtext_ == 'False', tree_val is False)
assert implies(isdigit_(vtext_) and not (vtext_ in ['true', 'True', 'false', 'False']), isint(tree_val) and tree_val == toint(vtext_))
assert implies(not isdigit_(vtext_) and not (vtext_ in ['true', 'True', 'false', 'False']), tree_val == vtext_)
""",
                   "inv": []}},
        ghost=[("after", "name, value = option.split('=', 1)", "vtext_ = value\n")],
        # a malformed --option (no '=') must stop with a message, not an internal ValueError
        raises=["SystemExit"],
    ), ints
