"""Contracts for the recursive-descent parser helpers and statement driver (C17/U2, DESIGN.md 6/C17).

Parser state is abstracted as (token stream, position): TYP(i)/VAL(i) are the type and text of the i-th token, the
stream is EOF from EOFPOS on, and `self.token` is token number self.pos.  RecursiveDescent.next is TRUSTED to advance
by one (it pulls from a generator); have/mustbe are verified against it; every sub-parser is used through the
contract "consumes zero or more tokens, keeps the object in sync, may raise RuntimeError"."""
import z3
from pyvc.unit import Unit
from pyvc.values import VFun, VNone, VStr, VInt, VRef, HObj, fresh_name, StrS, IntS

TYP = z3.Function("tok_typ", IntS, StrS)
VAL = z3.Function("tok_val", IntS, StrS)
EOFPOS = z3.Int("tok_eofpos")

TOKEN = ("obj", "Token", {"typ": "str", "value": "str", "column": "int"})
PARSER = ("obj", "Parser", {"token": TOKEN, "pos": "int", "decl": "str", "trace": ("const", False), "indent": "int"})

DEFS = {
    # the object agrees with the abstract stream at its position; the stream is EOF exactly from EOFPOS on
    "synced": (["p"], "p.token.typ == TYP(p.pos) and p.token.value == VAL(p.pos) and p.pos >= 0 and p.token.column >= 0 "
                      "and iff(p.token.typ == 'EOF', p.pos >= EOFPOS())"),
}
STREAM = ["EOFPOS() >= 0"]


def _set_token(ex, st, ref, pos):
    me = st.heap[ref.oid]
    col = z3.Int(fresh_name("col"))
    st.assume(col >= 0)
    tok = st.alloc(HObj("Token", {"typ": VStr(TYP(pos)), "value": VStr(VAL(pos)), "column": VInt(col)}))
    f = dict(me.f)
    f["token"], f["pos"] = tok, VInt(pos)
    st.heap[ref.oid] = HObj(me.cls, f)
    st.terms.append(pos)
    # the stream stays EOF once it is EOF (generator exhausted -> Token("EOF"))
    st.assume(z3.Implies(pos >= EOFPOS, TYP(pos) == z3.StringVal("EOF")))
    st.assume(z3.Implies(pos < EOFPOS, TYP(pos) != z3.StringVal("EOF")))


def _next(ref):
    def call(ex, st, args, kw, node):
        _set_token(ex, st, ref, st.heap[ref.oid].f["pos"].e + 1)
        return VNone()
    return VFun("RecursiveDescent.next[trusted: advances by one token]", call)


def _subparser(name):
    def factory(ref):
        def call(ex, st, args, kw, node):
            p0 = st.heap[ref.oid].f["pos"].e
            p1 = z3.Int(fresh_name("pos_after_" + name))
            st.assume(p1 >= p0)
            ex.safety(st, "RuntimeError", z3.Bool(fresh_name(name + "_ok")), node, "sub-parser may reject")
            _set_token(ex, st, ref, p1)
            return st.alloc(HObj("AstNode", {}))
        return VFun("Parser.%s[contract: consumes >= 0 tokens, may raise RuntimeError]" % name, call)
    return factory


def _noop(ref):
    return VFun("trace hook (trace is False)", lambda ex, st, args, kw, node: VNone())


def _error_msg(ref):
    def call(ex, st, args, kw, node):
        from pyvc.state import RaiseSignal
        raise RaiseSignal("RuntimeError", args[:1])
    return VFun("RecursiveDescent.error_msg[contract: always raises RuntimeError]", call)


HOOKS = {("Parser", "enter"): _noop, ("Parser", "exit"): _noop, ("Parser", "info"): _noop}


def merged(*ds):
    out = {}
    for d in ds:
        out.update(d)
    return out

have = Unit(
    prop="C17", name="have", target="shroud/declast.py::RecursiveDescent.have",
    params={"self": PARSER, "typ": "str"}, defs=DEFS,
    requires=["synced(self)"],
    callees=merged(HOOKS, {("Parser", "next"): _next}),
    modifies=["self"], result="bool",
    ensures=["synced(self)",
             "implies(old(self).token.typ == typ, result and self.pos == old(self).pos + 1)",
             "implies(old(self).token.typ != typ, not result and self.pos == old(self).pos)"],
    raises=[],
)

SPEC = {"TYP": TYP, "VAL": VAL, "EOFPOS": EOFPOS}
have.spec_funcs = SPEC

mustbe = Unit(
    prop="C17", name="mustbe", target="shroud/declast.py::RecursiveDescent.mustbe",
    params={"self": PARSER, "typ": "str"}, defs=DEFS,
    requires=["synced(self)"],
    callees=merged(HOOKS, {("Parser", "next"): _next, ("Parser", "error_msg"): _error_msg}),
    modifies=["self"], result=TOKEN,
    # returns only when the current token has the required type (then it is consumed); otherwise RuntimeError
    ensures=["synced(self)", "old(self).token.typ == typ and self.pos == old(self).pos + 1",
             "result.typ == typ and result.value == old(self).token.value"],
    raises=["RuntimeError"],
)
mustbe.spec_funcs = SPEC

_SUBS = ["class_statement", "enum_statement", "struct_statement", "namespace_statement", "template_statement", "declaration"]

decl_statement = Unit(
    prop="C17", name="decl_statement", target="shroud/declast.py::Parser.decl_statement",
    params={"self": PARSER}, defs=DEFS,
    requires=["synced(self)"] + STREAM,
    callees=merged(HOOKS, dict(((("Parser", n), _subparser(n)) for n in _SUBS))),
    callee_units={("Parser", "have"): have, ("Parser", "mustbe"): mustbe},
    # never silently accepts trailing text: every normal exit has consumed the whole token stream
    ensures=["synced(self)", "self.pos > EOFPOS()", "self.token.typ == 'EOF'"],
    raises=["RuntimeError"],
)
decl_statement.spec_funcs = SPEC

error_msg = Unit(
    prop="C17", name="error_msg", target="shroud/declast.py::RecursiveDescent.error_msg",
    params={"self": PARSER, "format": "str", "args": "list[py]"}, defs=DEFS,
    # call sites that pass arguments use literal templates valid for them (checked per call site by the C17 check);
    # a message passed WITHOUT arguments is arbitrary text (it echoes user tokens, braces included)
    requires=["synced(self)", "implies(len(args) > 0, validfmt(format, len(args)))"],
    ensures=["False"],          # never returns
    raises=["RuntimeError"],
)
error_msg.spec_funcs = SPEC

UNITS = [have, mustbe, decl_statement, error_msg]


# ---------------------------------------------------------------------------------------------------------
# C09/C17: comma-separated lists.  A sub-parser that succeeds consumes at least one token, does not start at EOF
# and does not end on a COMMA (expressions and declarations end on a name, literal, ')' or ']').
def _item_parser(name):
    def factory(ref):
        def call(ex, st, args, kw, node):
            p0 = st.heap[ref.oid].f["pos"].e
            p1 = z3.Int(fresh_name("pos_after_" + name))
            ex.safety(st, "RuntimeError", z3.Bool(fresh_name(name + "_ok")), node, "sub-parser may reject")
            st.assume(z3.And(p1 > p0, p0 < EOFPOS, TYP(p1 - 1) != z3.StringVal("COMMA"), TYP(p1 - 1) != z3.StringVal("EOF")))
            _set_token(ex, st, ref, p1)
            return st.alloc(HObj("AstNode", {}))
        return VFun("Parser.%s[contract: consumes >= 1 token, does not end on a comma, may raise RuntimeError]" % name, call)
    return factory


def _list_unit(fname, cls, item, prop):
    u = Unit(
        prop=prop, name=fname, target="shroud/declast.py::%s.%s" % (cls, fname),
        params={"self": PARSER}, defs=DEFS,
        # called with the '(' as current token (peeked by the caller)
        requires=["synced(self)", "self.token.typ == 'LPAREN'", "self.pos >= 0"] + STREAM,
        callees=merged(HOOKS, {("Parser", "next"): _next, ("Parser", item): _item_parser(item), ("Parser", "error_msg"): _error_msg}),
        callee_units={("Parser", "have"): have, ("Parser", "mustbe"): mustbe},
        init="p0 = self.pos\n",
        loops={0: {"inv": ["synced(self)", "self.pos >= p0 + 1",
                           "TYP(self.pos - 1) == 'LPAREN' or TYP(self.pos - 1) == 'COMMA'",
                           # a comma is followed by another item, never directly by the closing parenthesis
                           "implies(TYP(self.pos - 1) == 'COMMA', self.token.typ != 'RPAREN')"],
                   "decreases": "EOFPOS() + 1 - self.pos"}},
        ensures=["synced(self)", "self.pos >= p0 + 2",
                 # the list is closed by ')' and the token before it is not a ',': f(a,) is not silently accepted
                 "TYP(self.pos - 1) == 'RPAREN'", "TYP(self.pos - 2) != 'COMMA'"],
        raises=["RuntimeError", "NotImplementedError"], modifies=["self"],
    )
    u.spec_funcs = SPEC
    u.list_kinds = {"params": "opaque"}
    return u


argument_list = _list_unit("argument_list", "ExprParser", "expression", "C09")
parameter_list = _list_unit("parameter_list", "Parser", "declaration", "C09")
LIST_UNITS = [argument_list, parameter_list]


# ---------------------------------------------------------------------------------------------------------
# C09: "(void)" is the empty parameter list -- and nothing else is ([dcl.fct]: a parameter list consisting of the single
# unnamed, non-dependent parameter of type void; `void *` or `void (*)(int)` are ordinary parameters).
_PARAM = ("obj", "Declaration", {"declarator": ("opt", ("obj", "Declarator", {})), "specifier": "list[str]"})
void_rule = Unit(
    prop="C09", name="Parser.declaration[(void)]", target="shroud/declast.py::Parser.declaration",
    slice=("if len(node.params) == 1: pass", "if len(node.params) == 1: pass"),
    params={"node": ("obj", "Declaration", {"params": ("clist", _PARAM)})},
    init="p0 = node.params[0]\nplist0 = node.params\n",
    ensures=[
        "implies(p0.declarator is None and len(p0.specifier) == 1 and p0.specifier[0] == 'void', len(node.params) == 0)",
        "implies(not (p0.declarator is None and len(p0.specifier) == 1 and p0.specifier[0] == 'void'), "
        "len(node.params) == 1 and node.params is plist0)",
    ],
    raises=[],
)
LIST_UNITS += [void_rule]


# ---------------------------------------------------------------------------------------------------------
# RecursiveDescent.next itself (the trusted step of the units above): whatever the current token is -- None right after
# the constructor, a token, or EOF already -- it leaves a token object in self.token and raises nothing; once the
# generator is exhausted the token is EOF.  The generator is modelled by the two outcomes of the builtin next().
def _mk_token(ex, st, args, kw, node):
    vals = list(args) + [None] * 4
    return st.alloc(HObj("Token", {"typ": vals[0], "value": vals[1], "line": vals[2], "column": vals[3]}))


def _builtin_next(exhausted):
    def call(ex, st, args, kw, node):
        if exhausted:
            from pyvc.state import RaiseSignal
            raise RaiseSignal("StopIteration", [])
        typ = z3.String(fresh_name("gen_typ"))
        st.assume(typ != z3.StringVal("EOF"))            # tokenize() never yields an EOF token itself
        col = z3.Int(fresh_name("gen_col"))
        st.assume(col >= 0)
        return st.alloc(HObj("Token", {"typ": VStr(typ), "value": VStr(z3.String(fresh_name("gen_val"))),
                                       "line": VInt(z3.Int(fresh_name("gen_line"))), "column": VInt(col)}))
    return VFun("builtin next(generator)[%s]" % ("exhausted: StopIteration" if exhausted else "yields a token"), call)


def _next_unit(exhausted, first):
    tok = "none" if first else ("obj", "Token", {"typ": "str", "value": ("opt", "str"), "line": "int", "column": "int"})
    u = Unit(
        prop="C17", name="RecursiveDescent.next[%s, %s]" % ("generator exhausted" if exhausted else "token available",
                                                           "first call (self.token is None)" if first else "later call"),
        target="shroud/declast.py::RecursiveDescent.next",
        params={"self": ("obj", "Parser", {"token": tok, "tokenizer": "opaque", "trace": ("const", False), "indent": "int"})},
        callees=dict(HOOKS),
        # only the synthetic EOF token has no text
        requires=[] if first else ["implies(self.token.typ != 'EOF', self.token.value is not None)"],
        ensures=["self.token is not None", "self.token.typ == 'EOF'" if exhausted else "self.token.typ != 'EOF'"],
        raises=[],
    )
    u.global_callees["next"] = _builtin_next(exhausted)
    u.global_callees["Token"] = VFun("Token(typ, value, line, column)", _mk_token)
    u.pure_callees = ["next", "Token", "info"]
    return u


NEXT_UNITS = [_next_unit(e, f) for e in (True, False) for f in (True, False)]
UNITS += NEXT_UNITS


# ---------------------------------------------------------------------------------------------------------
# C09/C11: ExprParser.expression (precedence climbing), primary, identifier.  The tree is abstracted by the precedence
# of its root: `rootprec` = the table precedence of the operator for a BinaryOp, ATOM for everything a primary returns.
#   expression(m) returns the LONGEST expression all of whose top-level operators bind at least as tightly as m:
#     - every BinaryOp it builds has a left operand binding at least as tightly as the operator and a right operand
#       binding strictly tighter (left associativity) -- asserted where the node is built, from the table OPINFO_MAP
#       read from the source;
#     - on return the current token is not an operator of precedence >= m (nothing that belongs to the expression is left);
#   a unary sign applies to a primary only (its operand's rootprec is ATOM): -2*3 is (-2)*3.
# The recursive calls are used through these same contracts.
ATOM = 100
_NODE = ("obj", "ExprNode", {"rootprec": "int", "oprec": "int"})


def _mk_node(kind):
    def call(ex, st, args, kw, node):
        f = {"rootprec": VInt(ATOM), "oprec": VInt(ATOM)}
        if kind == "BinaryOp":
            tbl = ex.resolve_constant(__import__("pyvc.values", fromlist=["VNS"]).VNS("declast"), "OPINFO_MAP", st)
            ent = ex.dict_get(st.heap[tbl.oid], args[1], st, node, True)
            f["rootprec"] = ent.items[0]
        if kind == "UnaryOp":
            f["oprec"] = st.heap[args[1].oid].f["rootprec"]
        return st.alloc(HObj("ExprNode", f))
    return VFun("%s(...)[ghost: precedence of the root]" % kind, call)


def _peek(ref):
    def call(ex, st, args, kw, node):
        from pyvc.values import VBool
        return VBool(st.heap[st.heap[ref.oid].f["token"].oid].f["typ"].e == args[0].e)
    return VFun("RecursiveDescent.peek[self.token.typ == typ]", call)


EXPR_DEFS = dict(DEFS)
EXPR_DEFS.update({
    "isop": (["t"], "t in OPINFO_MAP"),
    "precof": (["t"], "OPINFO_MAP[t].prec"),
    # what a successful sub-parser leaves behind: it consumed at least one token, did not start at the end of the text,
    # and the last token it consumed is neither a comma nor EOF
    "consumed": (["p", "p0"], "p.pos > p0 and p0 < EOFPOS() and TYP(p.pos - 1) != 'COMMA' and TYP(p.pos - 1) != 'EOF'"),
})

peek = Unit(
    prop="C09", name="peek", target="shroud/declast.py::RecursiveDescent.peek",
    params={"self": PARSER, "typ": "str"}, defs=DEFS, requires=["synced(self)"], modifies=[], result="bool",
    ensures=["result == (self.token.typ == typ)", "synced(self)"], raises=[],
)
peek.spec_funcs = SPEC


def _expr_units():
    primary = Unit(
        prop="C09", name="ExprParser.primary", target="shroud/declast.py::ExprParser.primary",
        params={"self": PARSER}, defs=EXPR_DEFS, requires=["synced(self)"] + STREAM, modifies=["self"], result=_NODE,
        init="p0 = self.pos\n",
        ensures=["synced(self)", "consumed(self, p0)",
                 # a primary is atomic, and a sign inside it applies to a primary
                 "result.rootprec == %d" % ATOM, "result.oprec == %d" % ATOM,
                 # an opening parenthesis is closed (C17: unbalanced text is never silently accepted)
                 "implies(TYP(p0) == 'LPAREN', TYP(self.pos - 1) == 'RPAREN')"],
        raises=["RuntimeError", "NotImplementedError"],
        callees=merged(HOOKS, {("Parser", "next"): _next, ("Parser", "error_msg"): _error_msg}),
    )
    identifier = Unit(
        prop="C09", name="ExprParser.identifier", target="shroud/declast.py::ExprParser.identifier",
        params={"self": PARSER}, defs=EXPR_DEFS, requires=["synced(self)"] + STREAM, modifies=["self"], result=_NODE,
        init="p0 = self.pos\n",
        ensures=["synced(self)", "consumed(self, p0)", "result.rootprec == %d" % ATOM, "result.oprec == %d" % ATOM],
        raises=["RuntimeError", "NotImplementedError"],
        callees=merged(HOOKS, {("Parser", "next"): _next}),
    )
    expression = Unit(
        prop="C09", name="ExprParser.expression", target="shroud/declast.py::ExprParser.expression",
        params={"self": PARSER, "min_prec": "int"}, defs=EXPR_DEFS,
        requires=["synced(self)", "min_prec >= 0 and min_prec <= %d" % ATOM] + STREAM, modifies=["self"], result=_NODE,
        init="p0 = self.pos\n",
        loops={0: {"inv": ["synced(self)", "consumed(self, p0)",
                           "atom_lhs.rootprec >= min_prec",
                           # what follows binds no tighter than what has been built: the tree may become its left operand
                           "implies(isop(self.token.value), atom_lhs.rootprec >= precof(self.token.value))"]}},
        ghost=[("before", "atom_lhs = BinaryOp(atom_lhs, op, atom_rhs)",
                "assert atom_lhs.rootprec >= prec\n"
                "assert implies(assoc == 'LEFT', atom_rhs.rootprec > prec)\n"
                "assert implies(assoc != 'LEFT', atom_rhs.rootprec >= prec)\n")],
        ensures=["synced(self)", "consumed(self, p0)", "result.rootprec >= min_prec",
                 # maximal: nothing that belongs to this expression is left in the stream
                 "not (isop(self.token.value) and precof(self.token.value) >= min_prec)"],
        raises=["RuntimeError", "NotImplementedError"],
        callees=merged(HOOKS, {("Parser", "next"): _next}),
    )
    expression.defaults = {"min_prec": 0}          # def expression(self, min_prec=0)
    for u in (primary, identifier, expression):
        u.spec_funcs = SPEC
        for k in ("BinaryOp", "Constant", "ParenExpr", "UnaryOp", "Identifier"):
            u.global_callees[k] = _mk_node(k)
        u.pure_callees = ["BinaryOp", "Constant", "ParenExpr", "UnaryOp", "Identifier", "enter", "exit", "info", "peek"]
        u.list_kinds = {"args": "opaque"}
    primary.callee_units = {("Parser", "peek"): peek, ("Parser", "have"): have, ("Parser", "mustbe"): mustbe,
                            ("Parser", "identifier"): identifier, ("Parser", "expression"): expression,
                            ("Parser", "primary"): primary}
    identifier.callee_units = {("Parser", "peek"): peek, ("Parser", "mustbe"): mustbe, ("Parser", "argument_list"): argument_list}
    expression.callee_units = {("Parser", "primary"): primary, ("Parser", "expression"): expression}
    return [peek, primary, identifier, expression]


EXPR_UNITS = _expr_units()

# ExprParser.argument_list now calls expression through the unit above (call-by-contract) instead of a trusted item contract
argument_list.callees = dict((k, v) for k, v in argument_list.callees.items() if k != ("Parser", "expression"))
argument_list.callee_units = dict(argument_list.callee_units)
argument_list.callee_units[("Parser", "expression")] = EXPR_UNITS[3]
