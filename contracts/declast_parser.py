"""Contracts for the recursive-descent parser helpers and statement driver (C17/U2, DESIGN.md 6/C17).

Parser state is abstracted as (token stream, position): TYP(i)/VAL(i) are the type and text of the i-th token, the
stream is EOF from EOFPOS on, and `self.token` is token number self.pos.  RecursiveDescent.next is TRUSTED to advance
by one (it pulls from a generator); have/mustbe are verified against it; every sub-parser is used through the
contract "consumes zero or more tokens, keeps the object in sync, may raise RuntimeError"."""
import z3
from pyvc.unit import Unit
from pyvc.values import VFun, VNone, VStr, VInt, VRef, HObj, fresh_name, StrS, IntS

TYP = z3.Function("tok_typ", IntS, StrS)
VAL = z3.Function("tok_val", IntS, StrS)
EOFPOS = z3.Int("tok_eofpos")

TOKEN = ("obj", "Token", {"typ": "str", "value": "str", "column": "int"})
PARSER = ("obj", "Parser", {"token": TOKEN, "pos": "int", "decl": "str", "trace": ("const", False), "indent": "int"})

DEFS = {
    # the object agrees with the abstract stream at its position; the stream is EOF exactly from EOFPOS on
    "synced": (["p"], "p.token.typ == TYP(p.pos) and p.token.value == VAL(p.pos) and p.pos >= 0 and p.token.column >= 0 "
                      "and iff(p.token.typ == 'EOF', p.pos >= EOFPOS())"),
}
STREAM = ["EOFPOS() >= 0"]


def _set_token(ex, st, ref, pos):
    me = st.heap[ref.oid]
    col = z3.Int(fresh_name("col"))
    st.assume(col >= 0)
    tok = st.alloc(HObj("Token", {"typ": VStr(TYP(pos)), "value": VStr(VAL(pos)), "column": VInt(col)}))
    f = dict(me.f)
    f["token"], f["pos"] = tok, VInt(pos)
    st.heap[ref.oid] = HObj(me.cls, f)
    st.terms.append(pos)
    # the stream stays EOF once it is EOF (generator exhausted -> Token("EOF"))
    st.assume(z3.Implies(pos >= EOFPOS, TYP(pos) == z3.StringVal("EOF")))
    st.assume(z3.Implies(pos < EOFPOS, TYP(pos) != z3.StringVal("EOF")))


def _next(ref):
    def call(ex, st, args, kw, node):
        _set_token(ex, st, ref, st.heap[ref.oid].f["pos"].e + 1)
        return VNone()
    return VFun("RecursiveDescent.next[trusted: advances by one token]", call)


def _subparser(name):
    def factory(ref):
        def call(ex, st, args, kw, node):
            p0 = st.heap[ref.oid].f["pos"].e
            p1 = z3.Int(fresh_name("pos_after_" + name))
            st.assume(p1 >= p0)
            ex.safety(st, "RuntimeError", z3.Bool(fresh_name(name + "_ok")), node, "sub-parser may reject")
            _set_token(ex, st, ref, p1)
            return st.alloc(HObj("AstNode", {}))
        return VFun("Parser.%s[contract: consumes >= 0 tokens, may raise RuntimeError]" % name, call)
    return factory


def _noop(ref):
    return VFun("trace hook (trace is False)", lambda ex, st, args, kw, node: VNone())


def _error_msg(ref):
    def call(ex, st, args, kw, node):
        from pyvc.state import RaiseSignal
        raise RaiseSignal("RuntimeError", args[:1])
    return VFun("RecursiveDescent.error_msg[contract: always raises RuntimeError]", call)


HOOKS = {("Parser", "enter"): _noop, ("Parser", "exit"): _noop, ("Parser", "info"): _noop}


def merged(*ds):
    out = {}
    for d in ds:
        out.update(d)
    return out

have = Unit(
    prop="C17", name="have", target="shroud/declast.py::RecursiveDescent.have",
    params={"self": PARSER, "typ": "str"}, defs=DEFS,
    requires=["synced(self)"],
    callees=merged(HOOKS, {("Parser", "next"): _next}),
    modifies=["self"], result="bool",
    ensures=["synced(self)",
             "implies(old(self).token.typ == typ, result and self.pos == old(self).pos + 1)",
             "implies(old(self).token.typ != typ, not result and self.pos == old(self).pos)"],
    raises=[],
)

SPEC = {"TYP": TYP, "VAL": VAL, "EOFPOS": EOFPOS}
have.spec_funcs = SPEC

mustbe = Unit(
    prop="C17", name="mustbe", target="shroud/declast.py::RecursiveDescent.mustbe",
    params={"self": PARSER, "typ": "str"}, defs=DEFS,
    requires=["synced(self)"],
    callees=merged(HOOKS, {("Parser", "next"): _next, ("Parser", "error_msg"): _error_msg}),
    modifies=["self"], result=TOKEN,
    # returns only when the current token has the required type (then it is consumed); otherwise RuntimeError
    ensures=["synced(self)", "old(self).token.typ == typ and self.pos == old(self).pos + 1",
             "result.typ == typ and result.value == old(self).token.value"],
    raises=["RuntimeError"],
)
mustbe.spec_funcs = SPEC

_SUBS = ["class_statement", "enum_statement", "struct_statement", "namespace_statement", "template_statement", "declaration"]

decl_statement = Unit(
    prop="C17", name="decl_statement", target="shroud/declast.py::Parser.decl_statement",
    params={"self": PARSER}, defs=DEFS,
    requires=["synced(self)"] + STREAM,
    callees=merged(HOOKS, dict(((("Parser", n), _subparser(n)) for n in _SUBS))),
    callee_units={("Parser", "have"): have, ("Parser", "mustbe"): mustbe},
    # never silently accepts trailing text: every normal exit has consumed the whole token stream
    ensures=["synced(self)", "self.pos > EOFPOS()", "self.token.typ == 'EOF'"],
    raises=["RuntimeError"],
)
decl_statement.spec_funcs = SPEC

error_msg = Unit(
    prop="C17", name="error_msg", target="shroud/declast.py::RecursiveDescent.error_msg",
    params={"self": PARSER, "format": "str", "args": "list[py]"}, defs=DEFS,
    # call sites that pass arguments use literal templates valid for them (checked per call site by the C17 check);
    # a message passed WITHOUT arguments is arbitrary text (it echoes user tokens, braces included)
    requires=["synced(self)", "implies(len(args) > 0, validfmt(format, len(args)))"],
    ensures=["False"],          # never returns
    raises=["RuntimeError"],
)
error_msg.spec_funcs = SPEC

UNITS = [have, mustbe, decl_statement, error_msg]


# ---------------------------------------------------------------------------------------------------------
# C09/C17: comma-separated lists.  A sub-parser that succeeds consumes at least one token, does not start at EOF
# and does not end on a COMMA (expressions and declarations end on a name, literal, ')' or ']').
def _item_parser(name):
    def factory(ref):
        def call(ex, st, args, kw, node):
            p0 = st.heap[ref.oid].f["pos"].e
            p1 = z3.Int(fresh_name("pos_after_" + name))
            ex.safety(st, "RuntimeError", z3.Bool(fresh_name(name + "_ok")), node, "sub-parser may reject")
            st.assume(z3.And(p1 > p0, p0 < EOFPOS, TYP(p1 - 1) != z3.StringVal("COMMA"), TYP(p1 - 1) != z3.StringVal("EOF")))
            _set_token(ex, st, ref, p1)
            return st.alloc(HObj("AstNode", {}))
        return VFun("Parser.%s[contract: consumes >= 1 token, does not end on a comma, may raise RuntimeError]" % name, call)
    return factory


def _list_unit(fname, cls, item, prop):
    u = Unit(
        prop=prop, name=fname, target="shroud/declast.py::%s.%s" % (cls, fname),
        params={"self": PARSER}, defs=DEFS,
        # called with the '(' as current token (peeked by the caller)
        requires=["synced(self)", "self.token.typ == 'LPAREN'"] + STREAM,
        callees=merged(HOOKS, {("Parser", "next"): _next, ("Parser", item): _item_parser(item), ("Parser", "error_msg"): _error_msg}),
        callee_units={("Parser", "have"): have, ("Parser", "mustbe"): mustbe},
        loops={0: {"inv": ["synced(self)", "self.pos >= 1",
                           "TYP(self.pos - 1) == 'LPAREN' or TYP(self.pos - 1) == 'COMMA'",
                           # a comma is followed by another item, never directly by the closing parenthesis
                           "implies(TYP(self.pos - 1) == 'COMMA', self.token.typ != 'RPAREN')"],
                   "decreases": "EOFPOS() + 1 - self.pos"}},
        ensures=["synced(self)", "self.pos >= 2",
                 # the list is closed by ')' and the token before it is not a ',': f(a,) is not silently accepted
                 "TYP(self.pos - 1) == 'RPAREN'", "TYP(self.pos - 2) != 'COMMA'"],
        raises=["RuntimeError", "NotImplementedError"],
    )
    u.spec_funcs = SPEC
    u.list_kinds = {"params": "opaque"}
    return u


argument_list = _list_unit("argument_list", "ExprParser", "expression", "C09")
parameter_list = _list_unit("parameter_list", "Parser", "declaration", "C09")
LIST_UNITS = [argument_list, parameter_list]


# ---------------------------------------------------------------------------------------------------------
# C09: "(void)" is the empty parameter list -- and nothing else is ([dcl.fct]: a parameter list consisting of the single
# unnamed, non-dependent parameter of type void; `void *` or `void (*)(int)` are ordinary parameters).
_PARAM = ("obj", "Declaration", {"declarator": ("opt", ("obj", "Declarator", {})), "specifier": "list[str]"})
void_rule = Unit(
    prop="C09", name="Parser.declaration[(void)]", target="shroud/declast.py::Parser.declaration",
    slice=("if len(node.params) == 1: pass", "if len(node.params) == 1: pass"),
    params={"node": ("obj", "Declaration", {"params": ("clist", _PARAM)})},
    init="p0 = node.params[0]\nplist0 = node.params\n",
    ensures=[
        "implies(p0.declarator is None and len(p0.specifier) == 1 and p0.specifier[0] == 'void', len(node.params) == 0)",
        "implies(not (p0.declarator is None and len(p0.specifier) == 1 and p0.specifier[0] == 'void'), "
        "len(node.params) == 1 and node.params is plist0)",
    ],
    raises=[],
)
LIST_UNITS += [void_rule]


# ---------------------------------------------------------------------------------------------------------
# RecursiveDescent.next itself (the trusted step of the units above): whatever the current token is -- None right after
# the constructor, a token, or EOF already -- it leaves a token object in self.token and raises nothing; once the
# generator is exhausted the token is EOF.  The generator is modelled by the two outcomes of the builtin next().
def _mk_token(ex, st, args, kw, node):
    vals = list(args) + [None] * 4
    return st.alloc(HObj("Token", {"typ": vals[0], "value": vals[1], "line": vals[2], "column": vals[3]}))


def _builtin_next(exhausted):
    def call(ex, st, args, kw, node):
        if exhausted:
            from pyvc.state import RaiseSignal
            raise RaiseSignal("StopIteration", [])
        typ = z3.String(fresh_name("gen_typ"))
        st.assume(typ != z3.StringVal("EOF"))            # tokenize() never yields an EOF token itself
        col = z3.Int(fresh_name("gen_col"))
        st.assume(col >= 0)
        return st.alloc(HObj("Token", {"typ": VStr(typ), "value": VStr(z3.String(fresh_name("gen_val"))),
                                       "line": VInt(z3.Int(fresh_name("gen_line"))), "column": VInt(col)}))
    return VFun("builtin next(generator)[%s]" % ("exhausted: StopIteration" if exhausted else "yields a token"), call)


def _next_unit(exhausted, first):
    tok = "none" if first else ("obj", "Token", {"typ": "str", "value": ("opt", "str"), "line": "int", "column": "int"})
    u = Unit(
        prop="C17", name="RecursiveDescent.next[%s, %s]" % ("generator exhausted" if exhausted else "token available",
                                                           "first call (self.token is None)" if first else "later call"),
        target="shroud/declast.py::RecursiveDescent.next",
        params={"self": ("obj", "Parser", {"token": tok, "tokenizer": "opaque", "trace": ("const", False), "indent": "int"})},
        callees=dict(HOOKS),
        # only the synthetic EOF token has no text
        requires=[] if first else ["implies(self.token.typ != 'EOF', self.token.value is not None)"],
        ensures=["self.token is not None", "self.token.typ == 'EOF'" if exhausted else "self.token.typ != 'EOF'"],
        raises=[],
    )
    u.global_callees["next"] = _builtin_next(exhausted)
    u.global_callees["Token"] = VFun("Token(typ, value, line, column)", _mk_token)
    u.pure_callees = ["next", "Token", "info"]
    return u


NEXT_UNITS = [_next_unit(e, f) for e in (True, False) for f in (True, False)]
UNITS += NEXT_UNITS
