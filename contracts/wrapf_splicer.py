"""C12/U4: which splicer scope a Fortran module's blocks are looked up in.  Wrapf.wrap_namespace keeps one replaceable
level on the splicer stack for namespaces ("namespace.<scope>"): it is set to the scope of a nested namespace before
that namespace is wrapped and must be THIS namespace's scope again when this namespace's own module is written (the
module_use / module_top / file_top blocks of write_module are looked up then)."""
import z3
from pyvc.unit import Unit
from pyvc.values import VFun, VNone, VStr, HObj, VRef


def _update_top(ref):
    def call(ex, st, args, kw, node):
        st.env["stop_"] = args[0]
        return VNone()
    return VFun("WrapperMixin._update_splicer_top[contract: replaces the name of the innermost splicer level]", call)


def _push(ref):
    def call(ex, st, args, kw, node):
        st.env["depth_"] = __import__("pyvc.values", fromlist=["VInt"]).VInt(st.env["depth_"].e + 1)
        return VNone()
    return VFun("WrapperMixin._push_splicer", call)


def _pop(ref):
    def call(ex, st, args, kw, node):
        st.env["depth_"] = __import__("pyvc.values", fromlist=["VInt"]).VInt(st.env["depth_"].e - 1)
        return VNone()
    return VFun("WrapperMixin._pop_splicer", call)


def _wrap_ns(ref):
    """recursive call, by this unit's own contract: on return from a namespace that is not the library the innermost
    level carries THAT namespace's scope (it restores its own), the depth is unchanged"""
    def call(ex, st, args, kw, node):
        ns = args[0]
        cell = st.heap[ns.oid]
        sf = cell.f["scope_file"]
        from pyvc.methods import JOINSEP
        c = ex.as_hlist(st.heap[sf.oid])
        # "::".join(ns.scope_file[1:]) through the same slice/join terms the body uses
        e = ex.ev(__import__("ast").parse('"::".join(ns_.scope_file[1:])', mode="eval").body, _with(st, "ns_", ns))
        st.env["stop_"] = e
        return VNone()
    return VFun("Wrapf.wrap_namespace[contract: leaves its own scope on the namespace level]", call)


def _with(st, name, val):
    st.env[name] = val
    return st


def _write_module(ref):
    def call(ex, st, args, kw, node):
        st.env["written_"] = __import__("pyvc.values", fromlist=["VInt"]).VInt(st.env["written_"].e + 1)
        st.env["scope_at_write_"] = st.env["stop_"]
        return VNone()
    return VFun("Wrapf.write_module[contract: looks its blocks up in the current splicer scope]", call)


NS = ("obj", "NamespaceNode", {"wrap": ("obj", "WrapFlags", {"fortran": "bool"}),
                               "options": ("obj", "Scope0", {"F_flatten_namespace": "py"}), "scope_file": "list[str]"})


def make(nchildren):
    node = ("obj", "NamespaceNode", {"options": ("obj", "Scope0", {"F_flatten_namespace": "py"}), "scope_file": "list[str]",
                                     "namespaces": (("clist",) + (NS,) * nchildren) if nchildren else "emptylist"})
    u = Unit(
        prop="C12", name="Wrapf.wrap_namespace[splicer scope, %d nested namespace%s]" % (nchildren, "" if nchildren == 1 else "s"),
        target="shroud/wrapf.py::Wrapf.wrap_namespace",
        slice=("if top: pass", "$END"),
        params={"self": ("obj", "Wrapf", {}), "node": node, "fileinfo": "opaque", "top": "bool", "do_write": "bool"},
        requires=["len(node.scope_file) >= 1"],
        callees={("Wrapf", "_update_splicer_top"): _update_top, ("Wrapf", "_push_splicer"): _push, ("Wrapf", "_pop_splicer"): _pop,
                 ("Wrapf", "wrap_namespace"): _wrap_ns, ("Wrapf", "write_module"): _write_module},
        # at entry a namespace (not the library) finds its own scope on the namespace level: the caller has set it
        init="depth_ = 0\nwritten_ = 0\nscope_at_write_ = ''\nstop_ = '::'.join(node.scope_file[1:])\n",
        ensures=[
            "depth_ == 0",
            "written_ == (1 if do_write else 0)",
            # the module of a namespace is written under that namespace's own scope
            "implies(do_write and not top, scope_at_write_ == '::'.join(node.scope_file[1:]))",
            # and that scope is what the caller finds afterwards
            "implies(not top, stop_ == '::'.join(node.scope_file[1:]))",
        ],
        raises=[],
    )
    u.global_callees["ModuleInfo"] = VFun("ModuleInfo", lambda ex, st, args, kw, node: st.alloc(__import__("pyvc.values", fromlist=["HOpaque"]).HOpaque()))
    u.pure_callees = ["_update_splicer_top", "_push_splicer", "_pop_splicer", "wrap_namespace", "write_module", "ModuleInfo"]
    return u


UNITS = [make(0), make(1), make(2)]
