"""C04/U1: the C prototype (wrapc.Wrapc.build_proto_list), the Fortran bind(C) interface
(wrapf.Wrapf.build_arg_list_interface) and the actual arguments of the call (wrapf.Wrapf.build_arg_list_impl) are
built by three loops over the SAME buf_args list.  Each function is proved against one shared descriptor table
(KINDS): per buf_arg kind, what the C parameter is (type, by value / pointer) and what the Fortran dummy is
(type, VALUE or not, intent, the ISO_C_BINDING kind that must be USEd) and what the actual argument's kind is.
The pairs of the table are judged interoperable by the independent judgement of DESIGN.md App. B
(tables/invariants.interop) -- checks/C04.py.  Agreement of the three functions is then a corollary of the three
contracts:  same number of entries per buf_arg, same order, entry i of each described by KINDS[buf_args[i]].

Declaration texts are compared modulo the two attribute orders / pointer spacings a Fortran/C programmer would write.
"""
import z3
from pyvc.unit import Unit
from pyvc.values import VFun, VNone, VStr, VBool, VInt, VRef, VPy, HList, HObj, fresh_name, StrS, IntS
from pyvc.evalexpr import OutOfSubset

META = ("size", "capsule", "context", "len_trim", "len")
ALL = ("arg", "shadow", "arg_decl") + META

# descriptor table: kind -> C side (type text expr, pointer?, name expr)  /  Fortran side (type text expr, value?, kind to USE)
KINDS = {
    "size": dict(c_type="'long'", c_ptr=False, c_name="fmt.c_var_size", f_type="'integer(C_LONG)'", f_value=True,
                 f_intent="'IN'", use="C_LONG", call="'size(' + fmt.f_var + ', kind=C_LONG)'"),
    "len_trim": dict(c_type="'int'", c_ptr=False, c_name="fmt.c_var_trim", f_type="'integer(C_INT)'", f_value=True,
                     f_intent="'IN'", use="C_INT", call="'len_trim(' + fmt.f_var + ', kind=C_INT)'"),
    "len": dict(c_type="'int'", c_ptr=False, c_name="fmt.c_var_len", f_type="'integer(C_INT)'", f_value=True,
                f_intent="'IN'", use="C_INT", call="'len(' + fmt.f_var + ', kind=C_INT)'"),
    "capsule": dict(c_type="fmt.C_capsule_data_type", c_ptr=True, c_name="fmt.c_var_capsule",
                    f_type="'type(' + fmt.F_capsule_data_type + ')'", f_value=False, f_intent="'INOUT'", use=None,
                    imports="fmt.F_capsule_data_type", call="fmt.c_var_capsule + '%mem'"),
    "context": dict(c_type="fmt.C_array_type", c_ptr=True, c_name="fmt.c_var_context",
                    f_type="'type(' + fmt.F_array_type + ')'", f_value=False,
                    f_intent="('OUT' if ast.metaattrs['is_result'] else 'INOUT')", use=None,
                    imports="fmt.F_array_type", call="fmt.c_var_context"),
}

DEFS = {
    # C parameter text: by value / through a pointer
    "cval": (["d", "t", "n"], "d == t + ' ' + n"),
    "cptr": (["d", "t", "n"], "d == t + ' *' + n or d == t + ' * ' + n or d == t + '* ' + n"),
    # Fortran dummy declaration: with VALUE / by reference
    "fval": (["d", "t", "i", "n"], "d == t + ', value, intent(' + i + ') :: ' + n or d == t + ', intent(' + i + '), value :: ' + n"),
    "fref": (["d", "t", "i", "n"], "d == t + ', intent(' + i + ') :: ' + n"),
}

# ------------------------------------------------------------------------------------------------ wformat model
WFMT2 = z3.Function("spec_wformat2", StrS, IntS, StrS)      # non-constant template: abstract in (template, scope id)


def _fmt_const(ex, st, tmpl, fmtref, node):
    """util.wformat(constant template, fmt): string.Formatter semantics -- literal pieces with every {field}
    replaced by str(fmt.field) (Scope attribute lookup); trusted model, listed as an assumption."""
    import string
    pieces = []
    cell = st.heap[fmtref.oid]
    for lit, field, spec, conv in string.Formatter().parse(tmpl):
        if lit:
            pieces.append(z3.StringVal(lit))
        if field is None:
            continue
        if spec or conv or not field.isidentifier():
            raise OutOfSubset("format field %r in wformat template" % field, node)
        if field not in cell.f:
            raise OutOfSubset("field %s of the format scope is not declared by the contract" % field, node)
        pieces.append(ex.strof(cell.f[field], st, node))
    ex.assumptions.add("util.wformat(constant template, fmt) == the template's literal text with each {field} replaced "
                       "by fmt.field (string.Formatter over util.Scope; trusted)")
    if not pieces:
        return z3.StringVal("")
    return z3.Concat(*pieces) if len(pieces) > 1 else pieces[0]


def _append_format(ex, st, args, kw, node):
    lst, t, fmtref = args[0], ex.want_str(args[1], st, node), args[2]
    if z3.is_string_value(t):
        res = _fmt_const(ex, st, t.as_string(), fmtref, node)
    else:
        res = WFMT2(t, z3.IntVal(fmtref.oid))
    c = ex.as_hlist(st.heap[lst.oid])
    st.heap[lst.oid] = HList("str", c.n + 1, z3.Store(c.arr, c.n, res))
    return VNone()


def _const_str_method(name):
    def factory(ref):
        return VFun(name, lambda ex, st, args, kw, node: VStr(z3.String("spec_%s_result" % name)))
    return factory


def _noop(ref):
    return VFun("no effect on the lists under contract", lambda ex, st, args, kw, node: VNone())


def _scope_ctor(ref):
    def call(ex, st, args, kw, node):
        parent = st.heap[args[0].oid]
        return st.alloc(HObj(parent.cls, dict(parent.f)))      # util.Scope(parent): reads fall through to the parent
    return VFun("util.Scope[contract: child scope, lookups fall through to the parent]", call)


FMT_C = ("obj", "Fmt", dict((k, "str") for k in (
    "c_var_size", "c_var_trim", "c_var_len", "c_var_capsule", "c_var_context", "C_capsule_data_type", "C_array_type",
    "c_var", "cxx_var")))
TYPEMAP_C = ("obj", "Typemap", {"c_type": "str"})
AST_C = ("obj", "Declaration", {"attrs": "ddict[py]", "name": "str", "typemap": TYPEMAP_C})


def _c_end():
    lines = ["assert implies(buf_arg != 'arg_decl', len(proto_list) == p0 + 1)",
             "assert implies(buf_arg == 'arg_decl', len(proto_list) == p0 + len(intent_blk.c_arg_decl))",
             "assert implies(buf_arg == 'arg', proto_list[p0] == genc_)",
             "assert implies(buf_arg == 'shadow' and attrs['value'], cval(proto_list[p0], ast.typemap.c_type, (name or ast.name)))",
             "assert implies(buf_arg == 'shadow' and not attrs['value'], cptr(proto_list[p0], ast.typemap.c_type, (name or ast.name)))"]
    for k in META:
        d = KINDS[k]
        lines.append("assert implies(buf_arg == %r, %s(proto_list[p0], %s, %s))" % (
            k, "cptr" if d["c_ptr"] else "cval", d["c_type"], d["c_name"]))
    lines.append("assert buf_arg in %r" % (ALL,))
    lines.append("assert implies(buf_arg in %r, need_wrapper)" % (META,))
    lines.append("assert implies(need0, need_wrapper)")
    return "\n".join(lines) + "\n"


proto_list = Unit(
    prop="C04", name="Wrapc.build_proto_list", target="shroud/wrapc.py::Wrapc.build_proto_list",
    params={"self": ("obj", "Wrapc", {}), "fmt": FMT_C, "ast": AST_C,
            "intent_blk": ("obj", "Scope0", {"c_arg_decl": "list[str]"}), "buf_args": "list[str]",
            "proto_list": "list[str]", "need_wrapper": "bool", "name": ("opt", "str"),
            "util": ("obj", "module:util", {})},
    callees={("Declaration", "gen_arg_as_c"): _const_str_method("gen_arg_as_c"), ("Wrapc", "add_c_helper"): _noop,
             ("module:util", "Scope"): _scope_ctor},
    init="genc_ = genc()\nnin = len(proto_list)\n",
    defs=DEFS,
    loops={0: {"index": "kb",
               "head": "p0 = len(proto_list)\nneed0 = need_wrapper\n",
               "end": _c_end(),
               # with one declaration per arg_decl row (statement-table invariant C04/T1) there is exactly one C
               # parameter per buf_arg, in order
               "inv": ["len(proto_list) == nin + kb", "implies(old(need_wrapper), need_wrapper)"]},
           1: {"index": "kd", "inv": ["len(proto_list) == p0 + kd", "need_wrapper == need0"]}},
    requires=["len(intent_blk.c_arg_decl) == 1"],
    ensures=["len(proto_list) == nin + len(buf_args)", "implies(old(need_wrapper), result)"],
    raises=["RuntimeError"],
    ensures_raise=["not (buf_arg in %r)" % (ALL,)],
)
proto_list.global_callees["append_format"] = VFun("append_format[wformat model]", _append_format)
proto_list.pure_callees = ["gen_arg_as_c", "add_c_helper", "Scope"]
proto_list.spec_funcs = {"genc": z3.String("spec_gen_arg_as_c_result")}

UNITS = [proto_list]

# ================================================================================================ Fortran interface
def _set_f_module(ref):
    def call(ex, st, args, kw, node):
        st.env["nreg"] = VInt(st.env["nreg"].e + 1)
        st.env["reg_mod"] = args[1]
        st.env["reg_sym"] = args[2] if len(args) > 2 else VStr("")
        return VNone()
    return VFun("Wrapf.set_f_module[contract: registers module:symbol for the USE statement]", call)


def _update_f_module(ref):
    def call(ex, st, args, kw, node):
        st.env["nupd"] = VInt(st.env["nupd"].e + 1)
        st.env["upd_"] = VPy(ex.to_py(args[2]))
        return VNone()
    return VFun("Wrapf.update_f_module[contract: registers every module:symbol of the given f_module dict]", call)


FMT_F = ("obj", "Fmt", dict((k, "str") for k in (
    "F_C_var", "f_type", "f_intent", "f_c_dimension", "F_capsule_data_type", "F_array_type")))
TYPEMAP_F = ("obj", "Typemap", {"f_c_type": "str", "f_c_module": "py", "f_module": "py"})


def ast_f(templated):
    return ("obj", "Declaration", {
        "attrs": "ddict[py]", "name": "str", "metaattrs": "ddict[py]", "typemap": TYPEMAP_F,
        "template_arguments": ("clist", ("obj", "Declaration", {"typemap": TYPEMAP_F})) if templated else "emptylist",
        "is_function_pointer()": "bool", "is_array()": "int", "bind_c()": "str"})


_F_HEAD = "n0 = len(arg_c_names)\nd0 = len(arg_c_decl)\nnreg = 0\nreg_mod = ''\nreg_sym = ''\nnupd = 0\nintent0 = intent\n"


def _f_end(templated):
    tm = "ast.template_arguments[0].typemap" if templated else "ast.typemap"
    plain = "buf_arg == 'arg' and not attrs['assumedtype'] and not ast.is_function_pointer()"
    lines = [
        "assert buf_arg in %r" % (ALL,),
        "assert len(arg_c_names) == n0 + 1",
        "assert implies(buf_arg != 'arg_decl', len(arg_c_decl) == d0 + 1)",
        "assert implies(buf_arg == 'arg_decl', len(arg_c_decl) == d0 + len(intent_blk.f_arg_decl))",
        "assert implies(buf_arg == 'arg', arg_c_names[n0] == ast.name)",
        "assert implies(buf_arg == 'shadow' or buf_arg == 'arg_decl', arg_c_names[n0] == fmt.F_C_var)",
        # T ** and deeper: an opaque C pointer, registered for USE
        "assert implies(%s and ast.is_array() > 1, fref(arg_c_decl[d0], 'type(C_PTR)', asstr(ast.metaattrs['intent']).upper(), fmt.F_C_var) "
        "and nreg == 1 and reg_mod == 'iso_c_binding' and reg_sym == 'C_PTR')" % plain,
        # everything else: Declaration.bind_c, and the module of the (template argument's) typemap is USEd
        "assert implies(%s and not (ast.is_array() > 1), arg_c_decl[d0] == ast.bind_c() and nupd == 1 "
        "and upd_ == (%s.f_c_module or %s.f_module))" % (plain, tm, tm),
        # shadow (class instance): VALUE exactly when the attribute says by value
        "assert implies(buf_arg == 'shadow' and attrs['value'], fval(arg_c_decl[d0], ast.typemap.f_c_type, "
        "asstr(intent0 or ast.metaattrs['intent']).upper(), fmt.F_C_var))",
        "assert implies(buf_arg == 'shadow' and not attrs['value'], fref(arg_c_decl[d0], ast.typemap.f_c_type, "
        "asstr(intent0 or ast.metaattrs['intent']).upper(), fmt.F_C_var))",
        "assert implies(buf_arg == 'shadow', nupd == 1 and upd_ == (ast.typemap.f_c_module or ast.typemap.f_module))",
        # C05: the capsule type a class argument imports into the interface is defined by the module that holds the interface
        "assert implies(buf_arg == 'shadow', 'capsule_data_helper' in fileinfo.f_helper and fileinfo.f_helper['capsule_data_helper'])",
    ]
    for k in META:
        d = KINDS[k]
        c = "%s(arg_c_decl[d0], %s, %s, asstr(attrs[%r])) and arg_c_names[n0] == attrs[%r]" % (
            "fval" if d["f_value"] else "fref", d["f_type"], d["f_intent"], k, k)
        if d["use"]:
            c += " and nreg == 1 and reg_mod == 'iso_c_binding' and reg_sym == %r" % d["use"]
        if d.get("imports"):
            c += " and %s in imports and imports[%s]" % (d["imports"], d["imports"])
        lines.append("assert implies(buf_arg == %r, %s)" % (k, c))
    return "\n".join(lines) + "\n"


def make_interface(templated):
    u = Unit(
        prop="C04", name="Wrapf.build_arg_list_interface[%s]" % ("template argument" if templated else "plain"),
        target="shroud/wrapf.py::Wrapf.build_arg_list_interface",
        params={"self": ("obj", "Wrapf", {}), "node": ("obj", "Node", {"declgen": "str"}),
                "fileinfo": ("obj", "ModuleInfo", {"f_helper": "dict[bool]"}),
                "fmt": FMT_F, "ast": ast_f(templated),
                "intent_blk": ("obj", "Scope0", {"f_arg_decl": "list[str]", "f_module": "py", "f_module_line": "py"}),
                "buf_args": "list[str]", "modules": "opaque", "imports": "dict[bool]",
                "arg_c_names": "list[py]", "arg_c_decl": "list[str]", "intent": ("opt", "str")},
        callees={("Wrapf", "add_abstract_interface"): _const_str_method("add_abstract_interface"),
                 ("Wrapf", "set_f_module"): _set_f_module, ("Wrapf", "update_f_module"): _update_f_module,
                 ("Wrapf", "update_f_module_line"): _noop},
        init="nin = len(arg_c_names)\ndin = len(arg_c_decl)\nnreg = 0\nreg_mod = ''\nreg_sym = ''\nnupd = 0\nintent0 = intent\n",
        defs=DEFS,
        prebind={"upd_": "py"},
        loops={0: {"index": "kb", "head": _F_HEAD, "end": _f_end(templated),
                   "inv": ["len(arg_c_names) == nin + kb", "len(arg_c_decl) == din + kb"]},
               1: {"index": "kd", "inv": ["len(arg_c_decl) == d0 + kd", "len(arg_c_names) == n0 + 1"]}},
        requires=["len(intent_blk.f_arg_decl) == 1",
                  "all(validfmtkw(intent_blk.f_arg_decl[i], 'c_var,f_c_dimension,f_intent,f_type') for i in range(len(intent_blk.f_arg_decl)))",
                  "isstr(ast.metaattrs['intent'])"] +
                 ["attrs_ok_%s" % k for k in ()] +
                 ["ast.attrs[%r] is None or isstr(ast.attrs[%r])" % (k, k) for k in META],
        ensures=["len(arg_c_names) == nin + len(buf_args)", "len(arg_c_decl) == din + len(buf_args)"],
        raises=["RuntimeError"],
        ensures_raise=["not (buf_arg in %r) or (buf_arg in %r and attrs[buf_arg] is None)" % (ALL, META)],
    )
    # the contracts of these callees speak about ghost state only; none of them touches the objects passed in
    u.pure_callees = ["add_abstract_interface", "set_f_module", "update_f_module", "update_f_module_line"]
    return u


iface_plain = make_interface(False)
iface_templ = make_interface(True)
UNITS += [iface_plain, iface_templ]

# ================================================================================================ actual arguments
FMT_I = ("obj", "Fmt", {"f_var": "str", "F_derived_member": "str", "c_var_capsule": "str", "c_var_context": "str",
                        "F_capsule_type": "str", "F_array_type": "str", "c_var": "str", "c_var_dimension": "py"})
TM_NAME = ("obj", "Typemap", {"name": "str"})


def _i_end():
    lines = ["assert buf_arg in %r" % (ALL,),
             # exactly one actual argument per buf_arg, in order
             "assert len(arg_c_call) == a0 + 1",
             "assert implies(buf_arg == 'shadow', arg_c_call[a0] == fmt.f_var + '%' + fmt.F_derived_member)",
             "assert implies(buf_arg in %r or buf_arg == 'shadow', need_wrapper)" % (META,),
             "assert implies(need0, need_wrapper)"]
    for k in META:
        d = KINDS[k]
        c = "arg_c_call[a0] == %s" % d["call"]
        if d["use"]:
            # the kind named in the actual argument is the dummy's kind and is registered for USE
            c += " and nreg == 1 and reg_mod == 'iso_c_binding' and reg_sym == %r" % d["use"]
        lines.append("assert implies(buf_arg == %r, %s)" % (k, c))
    return "\n".join(lines) + "\n"


arg_list_impl = Unit(
    prop="C04", name="Wrapf.build_arg_list_impl", target="shroud/wrapf.py::Wrapf.build_arg_list_impl",
    params={"self": ("obj", "Wrapf", {}), "fileinfo": ("obj", "ModuleInfo", {}), "fmt": FMT_I,
            "c_ast": ("obj", "Declaration", {"attrs": "ddict[py]", "typemap": TM_NAME}),
            "f_ast": ("opt", ("obj", "Declaration", {"typemap": TM_NAME})),
            "arg_typemap": ("obj", "Typemap", {"f_to_c": "py", "f_cast": "py", "f_module": "py"}),
            "f_intent_blk": ("obj", "Scope0", {"arg_c_call": "list[str]"}),
            "buf_args": "list[str]", "modules": "opaque", "imports": "opaque",
            "arg_f_decl": "list[str]", "arg_c_call": "list[str]", "need_wrapper": "bool"},
    callees={("Wrapf", "set_f_module"): _set_f_module, ("Wrapf", "update_f_module"): _update_f_module,
             ("ModuleInfo", "add_f_helper"): _noop},
    init="ain = len(arg_c_call)\nnreg = 0\nreg_mod = ''\nreg_sym = ''\nnupd = 0\nneed0 = need_wrapper\na0 = 0\n",
    prebind={"upd_": "py"},
    loops={0: {"index": "ko", "inv": ["len(arg_c_call) == ain + ko", "need_wrapper == old(need_wrapper)"]},
           1: {"index": "kb", "head": "a0 = len(arg_c_call)\nnreg = 0\nreg_mod = ''\nreg_sym = ''\nnupd = 0\nneed0 = need_wrapper\n",
               "end": _i_end(),
               "inv": ["len(arg_c_call) == ain + kb", "implies(old(need_wrapper), need_wrapper)"]}},
    requires=["arg_typemap.f_to_c is None or isstr(arg_typemap.f_to_c)",
              "isstr(arg_typemap.f_cast)"],   # Typemap default is "{f_var}"; C04/T2 looks at every f_cast
    ensures=["implies(len(f_intent_blk.arg_c_call) == 0, len(arg_c_call) == ain + len(buf_args))",
             "implies(len(f_intent_blk.arg_c_call) > 0, len(arg_c_call) == ain + len(f_intent_blk.arg_c_call) and result == old(need_wrapper))",
             "implies(old(need_wrapper), result)"],
    raises=["RuntimeError"],
    ensures_raise=["not (buf_arg in %r)" % (ALL,)],
)
arg_list_impl.global_callees["append_format"] = VFun("append_format[wformat model]", _append_format)
arg_list_impl.pure_callees = ["set_f_module", "update_f_module", "add_f_helper"]
UNITS += [arg_list_impl]

# ================================================================================================ function result
# The C return type (wrapc.Wrapc.wrap_function) and the result declaration of the bind(C) interface
# (wrapf.Wrapf.wrap_function_interface) are decided by two different if-chains over the same statement row and the same
# deref attribute.  Shared decision table (RESULT): what each side must emit per case; the pairs are interoperable:
#   row.return_cptr (and no explicit return_type)  -> C: the declared pointer type      F: type(C_PTR)
#   deref in pointer/allocatable/raw               -> C: the declared pointer type      F: type(C_PTR)
#   deref == scalar (row does not return a C ptr)  -> C: the pointee, by value          F: Declaration.bind_c (scalar)
#   otherwise                                      -> C: the declared type              F: Declaration.bind_c


def _gen_arg_as_c_result(ref):
    def call(ex, st, args, kw, node):
        scalar = "as_scalar" in kw
        return VStr(z3.String("spec_c_result_scalar" if scalar else "spec_c_result_declared"))
    return VFun("Declaration.gen_arg_as_c[contract: as_scalar drops one level of indirection]", call)


def _wformat_abs(ex, st, args, kw, node):
    t = ex.want_str(args[0], st, node)
    return VStr(WFMT2(t, z3.IntVal(args[1].oid)))


c_result = Unit(
    prop="C04", name="Wrapc.wrap_function[C_return_type]", target="shroud/wrapc.py::Wrapc.wrap_function",
    slice=('return_deref_attr = ast.metaattrs["deref"]', "if result_blk.return_type: pass"),
    params={"ast": ("obj", "Declaration", {"metaattrs": "ddict[py]"}),
            "result_blk": ("obj", "Scope0", {"return_type": "py", "return_cptr": "py"}),
            "fmt_func": ("obj", "Fmt", {"C_return_type": "str"}), "fmt_result": ("obj", "Fmt", {}),
            "need_wrapper": "bool"},
    callees={("Declaration", "gen_arg_as_c"): _gen_arg_as_c_result},
    requires=["result_blk.return_type is None or isstr(result_blk.return_type)"],
    ensures=[
        # a row that tells the Fortran side "this function returns a C pointer" keeps the declared (pointer) type
        "implies(not result_blk.return_type and result_blk.return_cptr, fmt_func.C_return_type == c_declared())",
        "implies(not result_blk.return_type and not result_blk.return_cptr and ast.metaattrs['deref'] == 'scalar', "
        "fmt_func.C_return_type == c_scalar() and need_wrapper)",
        "implies(not result_blk.return_type and not result_blk.return_cptr and ast.metaattrs['deref'] != 'scalar', "
        "fmt_func.C_return_type == c_declared())",
    ],
    raises=[],
)
c_result.global_callees["wformat"] = VFun("wformat[abstract]", _wformat_abs)
c_result.spec_funcs = {"c_declared": z3.String("spec_c_result_declared"), "c_scalar": z3.String("spec_c_result_scalar")}
c_result.pure_callees = ["gen_arg_as_c", "wformat"]

f_result = Unit(
    prop="C04", name="Wrapf.wrap_function_interface[result declaration]",
    target="shroud/wrapf.py::Wrapf.wrap_function_interface",
    slice=('if fmt_func.F_C_subprogram == "function": pass', 'if fmt_func.F_C_subprogram == "function": pass'),
    params={"self": ("obj", "Wrapf", {}),
            "ast": ("obj", "Declaration", {"metaattrs": "ddict[py]", "bind_c()": "str"}),
            "c_result_blk": ("obj", "Scope0", {"f_result_decl": "list[str]", "f_module": "py", "return_cptr": "py",
                                               "return_type": "py"}),
            "fmt_func": ("obj", "Fmt", {"F_C_subprogram": "str", "F_result": "str"}),
            "result_typemap": TYPEMAP_F, "modules": "opaque", "imports": "opaque", "arg_c_decl": "list[str]",
            "typemap": ("obj", "module:typemap", {})},
    callees={("Wrapf", "set_f_module"): _set_f_module, ("Wrapf", "update_f_module"): _update_f_module,
             ("module:typemap", "lookup_type"): lambda ref: VFun(
                 "typemap.lookup_type[contract: some typemap]",
                 lambda ex, st, args, kw, node: ex.make_value(TYPEMAP_FT, st, "ntypemap"))},
    init="din = len(arg_c_decl)\nnreg = 0\nreg_mod = ''\nreg_sym = ''\nnupd = 0\n",
    prebind={"upd_": "py"},
    loops={1: {"index": "kr", "inv": ["len(arg_c_decl) == din + kr", "nreg == 0 and nupd == 0"]}},
    requires=["len(c_result_blk.f_result_decl) <= 1",
              "all(validfmtkw(c_result_blk.f_result_decl[i], 'c_var') for i in range(len(c_result_blk.f_result_decl)))",
              "c_result_blk.return_type is None or isstr(c_result_blk.return_type)"],
    ensures=[
        "implies(fmt_func.F_C_subprogram != 'function', len(arg_c_decl) == din)",
        # exactly one result declaration
        "implies(fmt_func.F_C_subprogram == 'function' and len(c_result_blk.f_result_decl) == 0, len(arg_c_decl) == din + 1)",
        # the row says the C function returns a C pointer: type(C_PTR), registered for USE
        "implies(fmt_func.F_C_subprogram == 'function' and len(c_result_blk.f_result_decl) == 0 and c_result_blk.return_cptr, "
        "arg_c_decl[din] == 'type(C_PTR) ' + fmt_func.F_result and nreg == 1 and reg_mod == 'iso_c_binding' and reg_sym == 'C_PTR')",
        # pointer-valued results that Fortran dereferences itself
        "implies(fmt_func.F_C_subprogram == 'function' and len(c_result_blk.f_result_decl) == 0 and not c_result_blk.return_cptr "
        "and not c_result_blk.return_type and (ast.metaattrs['deref'] == 'pointer' or ast.metaattrs['deref'] == 'allocatable' "
        "or ast.metaattrs['deref'] == 'raw'), "
        "arg_c_decl[din] == 'type(C_PTR) ' + fmt_func.F_result and nreg == 1 and reg_sym == 'C_PTR')",
        # everything else (including deref(scalar)): the declaration of the value
        "implies(fmt_func.F_C_subprogram == 'function' and len(c_result_blk.f_result_decl) == 0 and not c_result_blk.return_cptr "
        "and not c_result_blk.return_type and not (ast.metaattrs['deref'] == 'pointer' or ast.metaattrs['deref'] == 'allocatable' "
        "or ast.metaattrs['deref'] == 'raw'), "
        "arg_c_decl[din] == ast.bind_c() and nupd == 1 and upd_ == (result_typemap.f_c_module or result_typemap.f_module))",
    ],
    raises=[],
)
TYPEMAP_FT = ("obj", "Typemap", {"f_type": "str", "f_module": "py"})
f_result.pure_callees = ["set_f_module", "update_f_module", "lookup_type"]
UNITS += [c_result, f_result]

# ---- abstract interface of a function-pointer argument: its result is the FUNCTION POINTER's result
TYPEMAP_R = ("obj", "Typemap", {"f_c_type": "py", "f_type": "py", "f_c_module": "py", "f_module": "py"})
abstract_result = Unit(
    prop="C04", name="Wrapf.dump_abstract_interfaces[result]", target="shroud/wrapf.py::Wrapf.dump_abstract_interfaces",
    slice=('if subprogram == "function": pass', 'if subprogram == "function": pass'),
    params={"self": ("obj", "Wrapf", {}), "subprogram": "str", "key": "str",
            "arg": ("obj", "Declaration", {"typemap": TYPEMAP_R, "is_pointer()": "int", "bind_c()": "str"}),
            "ast": ("obj", "Declaration", {"typemap": TYPEMAP_R, "is_pointer()": "int", "bind_c()": "str"}),
            "modules": "opaque", "imports": "opaque", "arg_c_decl": "list[str]"},
    callees={("Wrapf", "set_f_module"): _set_f_module, ("Wrapf", "update_f_module"): _update_f_module},
    init="din = len(arg_c_decl)\nnreg = 0\nreg_mod = ''\nreg_sym = ''\nnupd = 0\n",
    prebind={"upd_": "py"},
    requires=["isstr(arg.typemap.f_type)", "arg.typemap.f_c_type is None or isstr(arg.typemap.f_c_type)"],
    ensures=[
        "implies(subprogram != 'function', len(arg_c_decl) == din)",
        "implies(subprogram == 'function', len(arg_c_decl) == din + 1)",
        "implies(subprogram == 'function' and arg.is_pointer(), arg_c_decl[din] == 'type(C_PTR) :: ' + key "
        "and nreg == 1 and reg_mod == 'iso_c_binding' and reg_sym == 'C_PTR')",
        "implies(subprogram == 'function' and not arg.is_pointer(), "
        "arg_c_decl[din] == asstr(arg.typemap.f_c_type or arg.typemap.f_type) + ' :: ' + key "
        "and nupd == 1 and upd_ == (arg.typemap.f_c_module or arg.typemap.f_module))",
    ],
    raises=[],
)
abstract_result.pure_callees = ["set_f_module", "update_f_module"]
UNITS += [abstract_result]

# ================================================================================================ the `this` argument (U5)
# Both sides decide on their own whether a method gets the object as an extra first argument.  Shared rule:
#   added  <=>  the function belongs to a class and is neither a constructor nor static;
#   C: `[const] <class c_type> * <C_this>`  (pointer to the shadow struct)
#   F: `type(<F_capsule_data_type>), intent(IN) :: <C_this>`  (by reference, no VALUE) -- the capsule type pairs with the
#   shadow struct member by member (C04/T3).
_CLS_C = ("opt", ("obj", "ClassNode", {"typemap": ("obj", "Typemap", {"c_type": "str", "base": "str"})}))
FMT_THIS_C = ("obj", "Fmt", dict((k, "str") for k in (
    "c_const", "c_deref", "c_member", "c_var", "C_this", "shadow_var", "SH_shadow", "CXX_this_call", "namespace_scope",
    "class_scope", "cxx_type", "CXX_this", "cast_static", "cast1", "cast2")))

this_c = Unit(
    prop="C04", name="Wrapc.wrap_function[this]", target="shroud/wrapc.py::Wrapc.wrap_function",
    slice=("setup_this = []", "if cls: pass"),
    params={"cls": _CLS_C, "ast": ("obj", "Declaration", {"storage": "list[str]"}), "is_ctor": "bool", "is_const": "bool",
            "fmt_func": FMT_THIS_C, "proto_list": "list[str]", "need_wrapper": "bool"},
    init="p0 = len(proto_list)\n",
    ensures=[
        "implies(cls is None or is_ctor or 'static' in ast.storage, len(proto_list) == p0)",
        "implies(cls is not None and not is_ctor and not ('static' in ast.storage), len(proto_list) == p0 + 1 and "
        "cptr(proto_list[p0], ('const ' if is_const else '') + cls.typemap.c_type, fmt_func.C_this))",
        "implies(cls is not None, need_wrapper)",
    ],
    defs=DEFS,
    raises=["RuntimeError"],
    ensures_raise=["cls is not None and cls.typemap.base != 'shadow'"],
)
this_c.global_callees["append_format"] = VFun("append_format[wformat model]", _append_format)

_CLS_F = ("opt", ("obj", "ClassNode", {}))
this_f = Unit(
    prop="C04", name="Wrapf.wrap_function_interface[this]", target="shroud/wrapf.py::Wrapf.wrap_function_interface",
    slice=('if subprogram == "subroutine": pass', "if cls: pass"),
    params={"cls": _CLS_F, "ast": ("obj", "Declaration", {"storage": "list[str]"}), "is_ctor": "bool", "subprogram": "str",
            "fmt_func": ("obj", "Fmt", {"C_this": "str", "F_capsule_data_type": "str", "F_C_subprogram": "str",
                                        "F_C_result_clause": "str", "F_result": "str"}),
            "arg_c_names": "list[str]", "arg_c_decl": "list[str]", "imports": "dict[bool]"},
    init="n0 = len(arg_c_names)\nd0 = len(arg_c_decl)\n",
    ensures=[
        "implies(cls is None or is_ctor or 'static' in ast.storage, len(arg_c_names) == n0 and len(arg_c_decl) == d0)",
        "implies(cls is not None and not is_ctor and not ('static' in ast.storage), len(arg_c_names) == n0 + 1 "
        "and len(arg_c_decl) == d0 + 1 and arg_c_names[n0] == fmt_func.C_this "
        "and fref(arg_c_decl[d0], 'type(' + fmt_func.F_capsule_data_type + ')', 'IN', fmt_func.C_this) "
        "and fmt_func.F_capsule_data_type in imports and imports[fmt_func.F_capsule_data_type])",
    ],
    defs=DEFS,
    raises=[],
)
this_f.global_callees["append_format"] = VFun("append_format[wformat model]", _append_format)
UNITS += [this_c, this_f]

# ================================================================================================ Declaration.bind_c (U2)
# The dummy declaration of a plain argument: VALUE exactly when the argument is passed by value (attrs['value'], set by
# generate.VerifyAttrs for non-indirect arguments), the interface type of the (template argument's) typemap, assumed-size
# `(*)` exactly for vector / string / dimension / rank > 0 / allocatable.
TM_B = ("obj", "Typemap", {"f_c_type": "py", "f_type": "py", "base": "str"})


def make_bind_c(templated):
    tm = "self.template_arguments[0].typemap" if templated else "self.typemap"
    typ = "asstr(%s.f_c_type or %s.f_type)" % (tm, tm)
    inten = "(intent or self.metaattrs['intent'])"
    arr = ("(self.typemap.base == 'vector' or %s.base == 'string' or self.attrs['dimension'] or "
           "(self.attrs['rank'] is not None and self.attrs['rank'] > 0) or self.attrs['allocatable'])" % tm)
    u = Unit(
        prop="C04", name="Declaration.bind_c[%s]" % ("template argument" if templated else "plain"),
        target="shroud/declast.py::Declaration.bind_c",
        params={"self": ("obj", "Declaration", {
                    "attrs": "ddict[py]", "metaattrs": "ddict[py]", "typemap": TM_B, "name": "str", "typename": "str",
                    "template_arguments": ("clist", ("obj", "Declaration", {"typemap": TM_B})) if templated else "emptylist"}),
                "intent": ("opt", "str"), "kwargs": "ddict[py]"},
        requires=["%s.f_c_type is None or isstr(%s.f_c_type)" % (tm, tm), "%s.f_type is None or isstr(%s.f_type)" % (tm, tm),
                  "self.metaattrs['intent'] is None or isstr(self.metaattrs['intent'])",
                  "kwargs['name'] is None or isstr(kwargs['name'])",
                  "self.attrs['rank'] is None or isint(self.attrs['rank'])"],
        ensures=[
            "result == %s + (', value' if self.attrs['value'] else '') + "
            "((', intent(' + asstr(%s).upper() + ')') if (%s and %s != 'result') else '') + ' :: ' + "
            "(asstr(kwargs['name']) if kwargs['name'] else self.name) + ('(*)' if %s else '')" % (typ, inten, inten, inten, arr),
        ],
        raises=["RuntimeError"],
        ensures_raise=["(%s.f_c_type or %s.f_type) is None" % (tm, tm)],
        result="str",
    )
    return u


bind_c_plain = make_bind_c(False)
bind_c_templ = make_bind_c(True)
UNITS += [bind_c_plain, bind_c_templ]


# ================================================================================================ struct members (C05)
# Wrapf.wrap_struct, body of the loop over the members: a pointer member is declared type(C_PTR) and C_PTR is registered
# for the module's USE; any other member is rendered by gen_arg_as_fortran and the module of its typemap is registered.
struct_member = Unit(
    prop="C05", name="Wrapf.wrap_struct[member]", target="shroud/wrapf.py::Wrapf.wrap_struct",
    slice=("ast = var.ast", "if ast.is_indirect(): pass"),
    params={"self": ("obj", "Wrapf", {}),
            "var": ("obj", "VariableNode", {"ast": ("obj", "Declaration", {"typemap": TYPEMAP_R, "is_indirect()": "int",
                                                                            "gen_arg_as_fortran()": "str"}),
                                            "fmtdict": ("obj", "Fmt", {"variable_name": "str"})}),
            "fileinfo": ("obj", "ModuleInfo", {"module_use": "opaque"}), "output": "list[str]"},
    callees={("Wrapf", "set_f_module"): _set_f_module, ("Wrapf", "update_f_module"): _update_f_module},
    init="n0 = len(output)\nnreg = 0\nreg_mod = ''\nreg_sym = ''\nnupd = 0\n",
    prebind={"upd_": "py"},
    ensures=[
        "len(output) == n0 + 1",
        "implies(var.ast.is_indirect(), output[n0] == 'type(C_PTR) :: ' + var.fmtdict.variable_name "
        "and nreg == 1 and reg_mod == 'iso_c_binding' and reg_sym == 'C_PTR')",
        "implies(not var.ast.is_indirect(), output[n0] == var.ast.gen_arg_as_fortran() and nupd == 1 "
        "and upd_ == (var.ast.typemap.f_c_module or var.ast.typemap.f_module))",
    ],
    raises=[],
)
struct_member.global_callees["append_format"] = VFun("append_format[wformat model]", _append_format)
struct_member.pure_callees = ["set_f_module", "update_f_module"]
# Wrapf.wrap_function_interface: a bind(C) interface may be declared `pure` for a const method only if EVERY dummy
# argument is intent(in) (Fortran 2008 C1276 for functions) -- hidden ones included: they are dummies of the interface.
pure_step = Unit(
    prop="C05", name="Wrapf.wrap_function_interface[args_all_in step]", target="shroud/wrapf.py::Wrapf.wrap_function_interface",
    slice=('intent = meta["intent"]', 'if intent != "in": pass'),
    params={"meta": "dict[str]", "args_all_in": "bool", "attrs": "dict[str]"},
    requires=["'intent' in meta"],
    init="all0 = args_all_in\n",
    ensures=["implies(args_all_in, all0 and meta['intent'] == 'in')",
             "implies(all0 and meta['intent'] == 'in', args_all_in)"],
    raises=[],
)
UNITS_C05 = [struct_member, pure_step]
