"""C08/U2: the numbering step of GenFunctions.define_function_suffix (body of the loop over one overload set).
Every member of a set of two or more overloads is marked overloaded; a member WITHOUT a function_suffix of its own gets
'_' + its position in the set, a member with its own suffix keeps it.  Two members without own suffixes therefore get
different suffixes (decimal rendering of different non-negative integers differs) -- the clash of an automatic suffix with
an explicit one is the recorded known finding C08-auto-vs-explicit-suffix."""
import z3
from pyvc.unit import Unit
from pyvc.values import VFun, VBool


def _inlocal(ref):
    def call(ex, st, args, kw, node):
        c = st.heap[ref.oid]
        key = args[0]
        return VBool(z3.And(key.e == z3.StringVal("function_suffix"), c.f["has_local"].e))
    return VFun("util.Scope.inlocal[assumed: key is defined in this scope itself]", call)


suffix_step = Unit(
    prop="C08", name="define_function_suffix[numbering step]", target="shroud/generate.py::GenFunctions.define_function_suffix",
    slice=("function._overloaded = True", "if not function.fmtdict.inlocal('function_suffix'): pass"),
    params={"function": ("obj", "FunctionNode", {"_overloaded": "bool",
                                                 "fmtdict": ("obj", "ScopeL", {"function_suffix": "str", "has_local": "bool"})}),
            "i": "int"},
    requires=["i >= 0"],
    init="own0 = function.fmtdict.has_local\nsfx0 = function.fmtdict.function_suffix\n",
    callees={("ScopeL", "inlocal"): _inlocal},
    ensures=["function._overloaded",
             "implies(not own0, function.fmtdict.function_suffix == '_' + str(i))",
             "implies(own0, function.fmtdict.function_suffix == sfx0)"],
    raises=[],
)
suffix_step.pure_callees = ["inlocal"]
UNITS = [suffix_step]
