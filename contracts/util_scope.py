"""C14/U1: util.Scope, the scoped dictionary every option / format lookup goes through.

Data structure against an abstract view.  A Scope is
    D      = self.__dict__    the local dictionary (string -> value), without the two private slots
    parent = self.__parent    None or another Scope
and its view is the lookup function of the whole chain
    HAS(s, k)  =  k in D(s)  or  (parent(s) is not None and HAS(parent(s), k))
    GET(s, k)  =  D(s)[k]  if k in D(s)  else  GET(parent(s), k)
The parent's view is abstract here: PHAS(gid, k) / PGET(gid, k) are uninterpreted functions of the parent's identity,
which no method of Scope changes (frame: the parent object is never in `modifies`).

Python's attribute protocol for an instance of Scope (a class with __getattr__, without __setattr__, __slots__ or
__getattribute__) is the *assumed* part, stated once in the three built-ins below:
    getattr(s, k)      = D[k] if k in D else s.__getattr__(k)            (instance dictionary first, then __getattr__)
    hasattr(s, k)      = getattr(s, k) does not raise AttributeError
    setattr(s, k, v)   = D[k] = v                                        (no data descriptor of that name on the class)
Standing assumptions (listed in the evidence): keys are not names of attributes of the class Scope itself (`update`,
`get`, `clone`, ... would be found on the class before __getattr__ is asked) and do not start with the private prefix
`_Scope__`; `self.__class__.__name__` is "Scope" (no subclass); the truth value of a Scope object is True (the class
defines neither __bool__ nor __len__, and __getattr__ is not consulted for special methods).

What the units prove, for every dictionary content, every key and every parent:
  __getattr__   parent fallback: the parent's own lookup of the same name, AttributeError when there is no parent
  get           the chain lookup, or the default when the chain does not define the key; nothing changes
  __contains__  HAS
  inlocal       k in D: never looks at the parent
  setdefault    writes the LOCAL dictionary only, and only if the key is not local; every other key keeps its value
  update        replace=True: every key of d is local afterwards with d's value; replace=False: only keys the chain does
                not define; keys outside d keep their value; the parent is not written (a sibling scope cannot change)
  delattrs      the listed keys are not local afterwards, every other key keeps its value
  clone         a NEW scope (its dictionary is not the original's), same parent, every public key with the same value
  reparent / get_parent  the pointer operations the clone contracts (contracts/ast_clone.py) use
"""
import z3
from pyvc.unit import Unit
from pyvc.values import VFun, VBool, VNone, VOpt, VPy, VRef, VStr, HDict, HObj, PyVal, StrS, IntS, BoolS, fresh_name

PHAS = z3.Function("scope_PHAS", IntS, StrS, BoolS)        # the parent's chain defines the key
PGET = z3.Function("scope_PGET", IntS, StrS, PyVal)        # ... and this is the value it finds

_PARENT = ("obj", "ScopeP", {"gid": "int"})
_CLASS = ("obj", "Class", {"__name__": ("const", "Scope")})


def _self(parent=("opt", _PARENT)):
    return ("obj", "ScopeD", {"__parent": parent, "__hidden": "int", "__dict__": "dict[py]", "__class__": _CLASS})


def _parts(ex, st, obj, node):
    """(local-keys array, local-values array, parent-has(k) function, parent-get(k) function)"""
    from pyvc.state import OutOfSubset
    if isinstance(obj, VOpt):
        ex.safety(st, "AttributeError", z3.Not(obj.isnone), node, "attribute of None")
        obj = obj.val
    if not isinstance(obj, VRef) or not isinstance(st.heap[obj.oid], HObj):
        raise OutOfSubset("getattr/setattr/hasattr on %r" % (obj,), node)
    c = st.heap[obj.oid]
    if c.cls == "ScopeP":
        g = c.f["gid"].e
        return None, None, (lambda k: PHAS(g, k)), (lambda k: PGET(g, k)), obj
    if c.cls != "ScopeD":
        raise OutOfSubset("getattr/setattr/hasattr on class %s" % c.cls, node)
    d = st.heap[c.f["__dict__"].oid]
    p = c.f["__parent"]
    if isinstance(p, VNone):
        ph, pg = (lambda k: z3.BoolVal(False)), (lambda k: PyVal.pnone)
    else:
        isnone = p.isnone if isinstance(p, VOpt) else z3.BoolVal(False)
        pref = p.val if isinstance(p, VOpt) else p
        g = st.heap[pref.oid].f["gid"].e
        ph, pg = (lambda k: z3.And(z3.Not(isnone), PHAS(g, k))), (lambda k: PGET(g, k))
    return d.keys, d.vals, ph, pg, obj


def _key(ex, st, name, node):
    if isinstance(name, VPy):
        ex.safety(st, "TypeError", PyVal.is_pstr(name.e), node, "attribute name must be string")
        return PyVal.ps(name.e)
    return ex.want_str(name, st, node)


def _b_getattr(ex, st, args, kw, node):
    from pyvc.state import OutOfSubset
    if len(args) != 2:
        raise OutOfSubset("getattr with a default on a Scope", node)
    keys, vals, ph, pg, _ = _parts(ex, st, args[0], node)
    k = _key(ex, st, args[1], node)
    if keys is None:
        ex.safety(st, "AttributeError", ph(k), node, "the parent chain does not define the key")
        return VPy(pg(k))
    local = z3.Select(keys, k)
    ex.safety(st, "AttributeError", z3.Or(local, ph(k)), node, "neither local nor in the parent chain")
    return VPy(z3.If(local, z3.Select(vals, k), pg(k)))


def _b_hasattr(ex, st, args, kw, node):
    keys, vals, ph, pg, _ = _parts(ex, st, args[0], node)
    k = _key(ex, st, args[1], node)
    return VBool(ph(k) if keys is None else z3.Or(z3.Select(keys, k), ph(k)))


def _b_setattr(ex, st, args, kw, node):
    from pyvc.state import OutOfSubset
    keys, vals, ph, pg, obj = _parts(ex, st, args[0], node)
    if keys is None:
        raise OutOfSubset("setattr on the parent scope", node)
    k = _key(ex, st, args[1], node)
    c = st.heap[obj.oid]
    doid = c.f["__dict__"].oid
    d = st.heap[doid]
    size = None if d.size is None else z3.If(z3.Select(d.keys, k), d.size, d.size + 1)
    st.heap[doid] = HDict(d.ek, z3.Store(d.keys, k, True), z3.Store(d.vals, k, ex.coerce(args[2], d.ek, node)), size=size)
    return VNone()


_BUILTINS = {"getattr": VFun("getattr[attribute protocol of a Scope instance: assumed]", _b_getattr),
             "hasattr": VFun("hasattr[attribute protocol of a Scope instance: assumed]", _b_hasattr),
             "setattr": VFun("setattr[attribute protocol of a Scope instance: assumed]", _b_setattr)}
_SPEC = {"PHAS": PHAS, "PGET": PGET}

# the chain view of `self`, in contract syntax
HAS = "(%(k)s in self.__dict__ or (self.__parent is not None and PHAS(self.__parent.gid, %(k)s)))"
DICT_FRAME = ["all(x in self.__dict__ and self.__dict__[x] == old(self).__dict__[x] for x in old(self).__dict__)"]


def _unit(name, target, params, **kw):
    u = Unit(prop="C14", name=name, target="shroud/util.py::Scope." + target, params=params, **kw)
    u.builtin_overrides = dict(_BUILTINS)
    u.spec_funcs = dict(_SPEC)
    u.check_frame = True
    return u


getattr_parent = _unit(
    "Scope.__getattr__[parent]", "__getattr__", {"self": _self(_PARENT), "name": "str"},
    modifies=[], raises=["AttributeError"],
    ensures=["PHAS(self.__parent.gid, name)", "result == PGET(self.__parent.gid, name)"])
getattr_root = _unit(
    "Scope.__getattr__[no parent]", "__getattr__", {"self": _self("none"), "name": "str"},
    modifies=[], raises=["AttributeError"],
    ensures=["False"],                                   # never returns: the root of the chain has nowhere to look
    ensures_raise=["exc_class == 'AttributeError'"])
get_ = _unit(
    "Scope.get", "get", {"self": _self(), "key": "str", "value": "py"},
    modifies=[], raises=[],
    ensures=["implies(key in self.__dict__, result == self.__dict__[key])",
             "implies(not (key in self.__dict__) and self.__parent is not None and PHAS(self.__parent.gid, key), "
             "result == PGET(self.__parent.gid, key))",
             "implies(not %s, result == value)" % (HAS % {"k": "key"})])
contains = _unit(
    "Scope.__contains__", "__contains__", {"self": _self(), "item": "str"},
    modifies=[], raises=[],
    ensures=["result == %s" % (HAS % {"k": "item"})])
getitem = _unit(
    "Scope.__getitem__", "__getitem__", {"self": _self(), "key": "str"},
    modifies=[], raises=["AttributeError"],
    ensures=[HAS % {"k": "key"},
             "implies(key in self.__dict__, result == self.__dict__[key])",
             "implies(not (key in self.__dict__), result == PGET(self.__parent.gid, key))"])
inlocal = _unit(
    "Scope.inlocal", "inlocal", {"self": _self(), "key": "str"},
    modifies=[], raises=[],
    ensures=["result == (key in self.__dict__)"])
setdefault = _unit(
    "Scope.setdefault", "setdefault", {"self": _self(), "key": "str", "value": "py"},
    modifies=["self.__dict__"], raises=[],
    ensures=DICT_FRAME + [
        "key in self.__dict__",
        "implies(not (key in old(self).__dict__), self.__dict__[key] == value)",
        "result == self.__dict__[key]",
        "all(x == key or x in old(self).__dict__ for x in self.__dict__)"])
update = _unit(
    "Scope.update", "update", {"self": _self(), "d": "dict[py]", "replace": "bool"},
    modifies=["self.__dict__"], raises=[],
    loops={0: {"index": "kd", "inv": [
        "all(implies(ITERIDX(x) < kd and replace, x in self.__dict__ and self.__dict__[x] == d[x]) for x in d)",
        "all(implies(ITERIDX(x) < kd and not replace, %s) for x in d)" % (HAS % {"k": "x"}),
        "all(implies(not replace and not (x in old(self).__dict__), self.__dict__[x] == d[x]) for x in self.__dict__)",
        "all(x in self.__dict__ for x in old(self).__dict__)",
        "all(x in old(self).__dict__ or x in d for x in self.__dict__)",
        "all(x in d or self.__dict__[x] == old(self).__dict__[x] for x in old(self).__dict__)",
        "implies(not replace, all(self.__dict__[x] == old(self).__dict__[x] for x in old(self).__dict__))",
        "implies(not replace, all(x in old(self).__dict__ or not (self.__parent is not None and PHAS(self.__parent.gid, x)) "
        "for x in self.__dict__))",
    ]}},
    ensures=[
        # replace=True: every key of d is local afterwards, with d's value
        "implies(replace, all(x in self.__dict__ and self.__dict__[x] == d[x] for x in d))",
        # replace=False: every key of d is defined by the chain afterwards; a key that became local has d's value
        "implies(not replace, all(%s for x in d))" % (HAS % {"k": "x"}),
        "implies(not replace, all(x in old(self).__dict__ or self.__dict__[x] == d[x] for x in self.__dict__))",
        # nothing local is lost; nothing appears that d did not bring
        "all(x in self.__dict__ for x in old(self).__dict__)",
        "all(x in old(self).__dict__ or x in d for x in self.__dict__)",
        # keys outside d keep their value
        "all(x in d or self.__dict__[x] == old(self).__dict__[x] for x in old(self).__dict__)",
        # replace=False never overwrites a local value and never shadows a key the parent chain defines
        "implies(not replace, all(self.__dict__[x] == old(self).__dict__[x] for x in old(self).__dict__))",
        "implies(not replace, all(x in old(self).__dict__ or not (self.__parent is not None and PHAS(self.__parent.gid, x)) "
        "for x in self.__dict__))",
    ])
update.dict_iter_complete = True
from pyvc.values import ITERIDX
update.spec_funcs["ITERIDX"] = ITERIDX
delattrs = _unit(
    "Scope.delattrs", "delattrs", {"self": _self(), "lst": "list[str]"},
    modifies=["self.__dict__"], raises=[],
    loops={0: {"index": "kl", "inv": [
        "all(x in old(self).__dict__ and self.__dict__[x] == old(self).__dict__[x] for x in self.__dict__)",
        "all(not (lst[j] in self.__dict__) for j in range(kl))",
    ]}},
    ensures=[
        "all(x in old(self).__dict__ and self.__dict__[x] == old(self).__dict__[x] for x in self.__dict__)",
        "all(not (lst[j] in self.__dict__) for j in range(len(lst)))",
    ])
clone = _unit(
    "Scope.clone", "clone", {"self": _self()},
    modifies=[], raises=[],
    loops={0: {"index": "kc", "inv": [
        "new is not self and new.__dict__ is not self.__dict__",
        "new.__parent is self.__parent",
        "skip == '_Scope__'",
        "all(implies(ITERIDX(x) < kc, x.startswith('_Scope__') or (x in new.__dict__ and new.__dict__[x] == self.__dict__[x])) "
        "for x in self.__dict__)",
        "all(x in self.__dict__ and not x.startswith('_Scope__') and new.__dict__[x] == self.__dict__[x] for x in new.__dict__)",
    ]}},
    ensures=[
        "result is not self",
        "result.__dict__ is not self.__dict__",
        "result.__parent is self.__parent",
        "all(x.startswith('_Scope__') or (x in result.__dict__ and result.__dict__[x] == self.__dict__[x]) for x in self.__dict__)",
        "all(x in self.__dict__ and not x.startswith('_Scope__') for x in result.__dict__)",
    ])



def _ctor(ex, st, args, kw, node):
    """Scope(parent) with no keywords, by the contract of __init__ (unit Scope.__init__ below): parent pointer set,
    empty local dictionary (update of an empty mapping adds nothing)"""
    from pyvc.state import OutOfSubset
    if len(args) != 1 or kw:
        raise OutOfSubset("Scope(...) with keywords", node)
    d = st.alloc(HDict("py", z3.K(StrS, z3.BoolVal(False)), z3.K(StrS, PyVal.pnone), size=z3.IntVal(0)))
    cls = st.alloc(HObj("Class", {"__name__": VStr("Scope")}))
    from pyvc.values import VInt
    return st.alloc(HObj("ScopeD", {"__parent": args[0], "__hidden": VInt(43), "__dict__": d, "__class__": cls}))


clone.dict_iter_complete = True
clone.spec_funcs["ITERIDX"] = ITERIDX
clone.global_callees["Scope"] = VFun("Scope.__init__[contract: parent set, empty local dictionary]", _ctor)

init = _unit(
    "Scope.__init__", "__init__",
    {"self": ("obj", "ScopeD", {"__parent": "none", "__hidden": "int", "__dict__": "dict[py]", "__class__": _CLASS}),
     "parent": ("opt", _PARENT), "kw": "dict[py]"},
    requires=["all(False for x in self.__dict__)"],      # a new instance: no attribute yet
    modifies=["self", "self.__dict__"], raises=[],
    callee_units={("ScopeD", "update"): update},
    ensures=["self.__parent is parent",
             "self.__hidden == 43",
             "all(x in kw for x in self.__dict__)",
             "all(x in self.__dict__ and self.__dict__[x] == kw[x] for x in kw)"])

# methods of the class used by other methods: by their own contracts
contains.result = "bool"
inlocal.result = "bool"
for _u in (setdefault, update, delattrs, inlocal, clone, get_, getitem):
    _u.callee_units = dict(_u.callee_units)
    for _nm, _cu in (("__contains__", contains), ("inlocal", inlocal)):
        if _cu is not _u:
            _u.callee_units[("ScopeD", _nm)] = _cu

_SC = ("obj", "ScopeObj", {"__parent": ("opt", ("obj", "ScopeObj", {})), "__hidden": "int"})

reparent = Unit(
    prop="C14", name="Scope.reparent", target="shroud/util.py::Scope.reparent",
    params={"self": _SC, "parent": ("obj", "ScopeObj", {})},
    init="h0 = self.__hidden\n",
    modifies=["self"],
    ensures=["self.__parent is parent", "self.__hidden == h0"], raises=[],
)
get_parent = Unit(
    prop="C14", name="Scope.get_parent", target="shroud/util.py::Scope.get_parent",
    params={"self": ("obj", "ScopeObj", {"__parent": ("obj", "ScopeObj", {}), "__hidden": "int"})},
    modifies=[],
    ensures=["result is self.__parent"], raises=[],
)
get_parent.check_frame = True
UNITS = [init, getattr_parent, getattr_root, get_, contains, getitem, inlocal, setdefault, update, delattrs, clone, reparent, get_parent]


# ---- the two consumers in ast.AstNode that fill a format field unless it was set explicitly (C14: "a format field
# applies to the scope where it is set"): eval_template, set_fmt_default -------------------------------------------------
# util.wformat(template, fmt) is abstract: a function of the template text and of the identity + content of the scope it
# formats with (WFMTS); it does not write the scope (assumed: string.Formatter.vformat only reads).
WFMTS = z3.Function("spec_wformat_scope", StrS, IntS, StrS)
getitem.result = "py"


def _wformat_scope(ex, st, args, kw, node):
    t = args[0]
    if isinstance(t, VPy):
        ex.safety(st, "AttributeError", PyVal.is_pstr(t.e), node, "template is not a string")
        te = PyVal.ps(t.e)
    else:
        te = ex.want_str(t, st, node)
    ex.safety(st, "SystemExit", z3.Bool(fresh_name("fmt_ok")), node, "wformat may stop with 'Error with template'")
    sc = st.heap[args[1].oid]
    return VStr(WFMTS(te, sc.f["gid"].e))


def _node(fmt_alias):
    sd = lambda: ("obj", "ScopeD", {"__parent": ("opt", _PARENT), "__hidden": "int", "__dict__": "dict[py]", "__class__": _CLASS,
                                    "gid": "int"})
    p = {"self": ("obj", "AstNode", {"fmtdict": sd(), "options": sd()}), "name": "str"}
    return p, sd


def _consumer(kind, shape):
    p, sd = _node(shape)
    if kind == "eval_template":
        p["tname"] = "str"
    else:
        p["value"] = "py"
    p["fmt"] = "none" if shape == "own" else sd()
    F = "self.fmtdict" if shape == "own" else "fmt"
    OF = "old(self).fmtdict" if shape == "own" else "old(fmt)"
    other = [] if shape == "own" else [
        "all(x in self.fmtdict.__dict__ and self.fmtdict.__dict__[x] == old(self).fmtdict.__dict__[x] for x in old(self).fmtdict.__dict__)",
        "all(x in old(self).fmtdict.__dict__ for x in self.fmtdict.__dict__)"]
    ens = [
        # an explicitly set field wins: nothing at all is written
        "all(x in %s.__dict__ and %s.__dict__[x] == %s.__dict__[x] for x in %s.__dict__)" % (F, F, OF, OF),
        "all(x == name or x in %s.__dict__ for x in %s.__dict__)" % (OF, F),
        "name in %s.__dict__" % F,
    ] + other
    if kind == "eval_template":
        tn = "tn0"            # ghost: the option name, from the entry values (the body re-binds `tname`)
        ens.append(
            # otherwise: the option template found by the CHAIN lookup of the node's own options, formatted with this scope
            "implies(not (name in %(OF)s.__dict__), %(F)s.__dict__[name] == WFMTS("
            "(self.options.__dict__[%(tn)s] if %(tn)s in self.options.__dict__ else PGET(self.options.__parent.gid, %(tn)s)), "
            "%(F)s.gid))" % {"F": F, "OF": OF, "tn": tn})
    else:
        ens.append("implies(not (name in %s.__dict__), %s.__dict__[name] == value)" % (OF, F))
    u = _unit("AstNode.%s[%s]" % (kind, "own fmtdict" if shape == "own" else "fmt given"), "X", p,
              modifies=["%s.__dict__" % F], raises=["AttributeError", "SystemExit"], ensures=ens,
              callee_units={("ScopeD", "inlocal"): inlocal, ("ScopeD", "__getitem__"): getitem})
    u.target = "shroud/ast.py::AstNode." + kind
    if kind == "eval_template":
        u.init = "tn0 = name + tname + '_template'\n"
    u.global_callees["util.wformat"] = VFun("util.wformat[assumed: reads the scope, result a function of template and scope]", _wformat_scope)
    u.spec_funcs["WFMTS"] = WFMTS
    u.pure_callees = ["inlocal", "__getitem__", "util.wformat"]
    return u


CONSUMERS = [_consumer(k, s) for k in ("eval_template", "set_fmt_default") for s in ("own", "given")]
UNITS = UNITS + CONSUMERS
