"""C14/U1 (part): the two pointer operations of util.Scope that the clone contracts (contracts/ast_clone.py) assume.
reparent(p) sets the parent and nothing else; get_parent() returns it and changes nothing.  (clone() iterates __dict__
and stays an assumed contract; __getattr__ fallback likewise.)"""
from pyvc.unit import Unit

_SC = ("obj", "ScopeObj", {"__parent": ("opt", ("obj", "ScopeObj", {})), "__hidden": "int"})

reparent = Unit(
    prop="C14", name="Scope.reparent", target="shroud/util.py::Scope.reparent",
    params={"self": _SC, "parent": ("obj", "ScopeObj", {})},
    init="h0 = self.__hidden\n",
    modifies=["self"],
    ensures=["self.__parent is parent", "self.__hidden == h0"], raises=[],
)
get_parent = Unit(
    prop="C14", name="Scope.get_parent", target="shroud/util.py::Scope.get_parent",
    params={"self": ("obj", "ScopeObj", {"__parent": ("obj", "ScopeObj", {}), "__hidden": "int"})},
    modifies=[],
    ensures=["result is self.__parent"], raises=[],
)
get_parent.check_frame = True
UNITS = [reparent, get_parent]
