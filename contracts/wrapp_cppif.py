"""C05/U2 (Python wrapper): the converter functions of a class written by wrapp.Wrapp.create_class_utility_functions
are wrapped in the class's preprocessor condition (cpp_if): every `#if...` line the function appends is closed by an
`#endif` it appends, on every path."""
import z3
from pyvc.unit import Unit
from pyvc.values import VFun, VNone, VStr, fresh_name
from contracts.util_header import _opaque_appender, _noop, _HOOK
from contracts.wrapc_capsule import WFMT


WREST = z3.Function("spec_wformat_rest", z3.StringSort(), z3.StringSort())


def _wformat_abs(ex, st, args, kw, node):
    """wformat(template, fmt): abstract, except that the result begins with the template's literal text before its
    first replacement field (string.Formatter copies literal text verbatim)"""
    t = ex.want_str(args[0], st, node)
    if z3.is_string_value(t):
        lit = t.as_string()
        prefix = lit.split("{")[0]
        if prefix and not prefix.endswith("{"):
            return VStr(z3.Concat(z3.StringVal(prefix), WREST(t)))
    return VStr(WFMT(t))


def _append_format_abs(ex, st, args, kw, node):
    lst = args[0]
    st.heap[lst.oid] = ex.fresh_cell(st.heap[lst.oid], st, "formatted")
    return VNone()


NODE = ("obj", "ClassNode", {"cpp_if": "py", "fmtdict": ("obj", "Fmt", {})})
class_utility = Unit(
    prop="C05", name="Wrapp.create_class_utility_functions[cpp_if]",
    target="shroud/wrapp.py::Wrapp.create_class_utility_functions",
    slice=("output = self.py_utility_functions", "$END"),
    params={"self": ("obj", "Wrapp", {"py_utility_functions": "list[str]", "py_class_decl": "list[str]"}),
            "node": NODE, "fmt": ("obj", "Fmt", {})},
    requires=["implies(node.cpp_if, isstr(node.cpp_if) and asstr(node.cpp_if).startswith('if'))"],
    callees={("Wrapp", "process_member_obj"): _noop, ("Wrapp", "_create_splicer"): _opaque_appender("_create_splicer", "bool"),
             ("Wrapp", "_pop_splicer"): _noop, ("Wrapp", "_push_splicer"): _noop},
    init="depth = 0\n",
    ensures=["depth == 0"],
    raises=[],
)
class_utility.global_callees["wformat"] = VFun("wformat[abstract]", _wformat_abs)
class_utility.global_callees["append_format"] = VFun("append_format[abstract: one formatted line appended]", _append_format_abs)
class_utility.append_hooks = {"output": _HOOK}
class_utility.pure_callees = ["process_member_obj", "_push_splicer", "_pop_splicer", "wformat"]
UNITS = [class_utility]
