"""Contracts for generate.VerifyAttrs (C17/U1; the defaulting rules are also what C01/C04/C10 lean on).
DESIGN.md 6/C17, A.8.

Attribute values are PyVal: everything Parser.attribute / initializer and YAML `attrs:` scalars can produce
(None, True/False, int, str, float=opaque).  Every unit: raises only RuntimeError; never AttributeError /
TypeError / KeyError / IndexError / ValueError."""
from pyvc.unit import Unit

TYPEMAP = ("obj", "Typemap", {"sgroup": "str", "name": "str", "base": "str"})


def DECL(typemap=TYPEMAP, extra=None):
    f = {
        "attrs": "ddict[py]", "metaattrs": "ddict[py]", "const": "bool", "typemap": typemap,
        "is_indirect()": "int", "is_function_pointer()": "bool", "get_indirect_stmt()": "str", "gen_decl()": "str",
        "get_subprogram()": "str",
        "name": "py", "init": "py",
    }
    f.update(extra or {})
    return ("obj", "Declaration", f)


NODE = ("obj", "FunctionNode", {"linenumber": "py", "decl": "py",
                                "options": ("obj", "Scope0", {"F_CFI": "py"}),
                                "_has_found_default": "bool", "_has_default_arg": "bool",
                                "_gen_fortran_generic": "bool"})
SELF = ("obj", "VerifyAttrs", {"newlibrary": ("obj", "LibraryNode", {"patterns": "dict[py]"})})

_indirect = "arg.is_indirect() >= 0"

# ---------------------------------------------------------------------------------------------------------
check_intent_attr = Unit(
    prop="C17", name="check_intent_attr", target="shroud/generate.py::VerifyAttrs.check_intent_attr",
    params={"self": SELF, "node": ("opt", NODE), "arg": DECL()},
    requires=[_indirect, "arg.typemap is not None"],
    modifies=["arg.metaattrs"], result="py",
    ensures=[
        # documented defaulting rules (docs/input.rst): no explicit intent
        "implies(isnone(old(arg).attrs['intent']) and node is None, isnone(result))",
        "implies(isnone(old(arg).attrs['intent']) and node is not None and (arg.is_function_pointer() or arg.is_indirect() == 0 "
        "or arg.const or arg.typemap.sgroup == 'void'), result == 'in')",
        "implies(isnone(old(arg).attrs['intent']) and node is not None and not (arg.is_function_pointer() or arg.is_indirect() == 0 "
        "or arg.const or arg.typemap.sgroup == 'void'), result == 'inout')",
        # explicit intent: one of in/out/inout; a non-pointer can only be intent(in)
        "implies(not isnone(old(arg).attrs['intent']), result == 'in' or result == 'out' or result == 'inout')",
        "implies(not isnone(old(arg).attrs['intent']) and arg.is_indirect() == 0, result == 'in')",
        "arg.metaattrs['intent'] == result",
        "same_except(arg.metaattrs, old(arg).metaattrs, 'intent')",
        "same_except(arg.attrs, old(arg).attrs)",
    ],
    raises=["RuntimeError"],
)

check_deref_attr = Unit(
    prop="C17", name="check_deref_attr", target="shroud/generate.py::VerifyAttrs.check_deref_attr",
    params={"self": SELF, "ast": DECL(("opt", TYPEMAP))},
    # the parser sets Declaration.typemap on every declaration it returns (trusted; validated by the bounded monitor)
    requires=["ast.is_indirect() >= 0", "ast.typemap is not None"],
    modifies=["ast.attrs", "ast.metaattrs"],
    ensures=[
        "implies(not isnone(old(ast).attrs['deref']), old(ast).attrs['deref'] in ['allocatable', 'pointer', 'raw', 'scalar'] "
        "and ast.is_indirect() > 0 and ast.metaattrs['deref'] == old(ast).attrs['deref'])",
        "same_except(ast.attrs, old(ast).attrs, 'deref')",
        "same_except(ast.metaattrs, old(ast).metaattrs, 'deref')",
    ],
    raises=["RuntimeError"],
)

check_common_attrs = Unit(
    prop="C17", name="check_common_attrs", target="shroud/generate.py::VerifyAttrs.check_common_attrs",
    params={"self": SELF, "ast": DECL(("opt", TYPEMAP))},
    requires=["ast.is_indirect() >= 0", "ast.typemap is not None"],
    callee_units={("VerifyAttrs", "check_deref_attr"): check_deref_attr},
    modifies=["ast.attrs", "ast.metaattrs"],
    ensures=[
        # docs: rank is an integer 0..7, only on pointers, exclusive with dimension
        "implies(old(ast).attrs['rank'], isint(ast.attrs['rank']) and not isbool(ast.attrs['rank']) and 0 <= ast.attrs['rank'] "
        "and ast.attrs['rank'] <= 7 and ast.is_indirect() > 0)",
        # whatever was given (an empty '+rank()' included) ends as an integer 0..7 or is rejected: never a string
        "implies(isstr(old(ast).attrs['rank']) or isint(old(ast).attrs['rank']), isint(ast.attrs['rank']) "
        "and 0 <= ast.attrs['rank'] and ast.attrs['rank'] <= 7)",
        "implies(old(ast).attrs['dimension'], not old(ast).attrs['rank'] and ast.is_indirect() > 0 "
        "and not old(ast).attrs['value'] and isstr(old(ast).attrs['dimension']))",
        "implies(not isnone(old(ast).attrs['owner']), old(ast).attrs['owner'] in ['caller', 'library'])",
        "same_except(ast.attrs, old(ast).attrs, 'deref', 'rank')",
        "same_except(ast.metaattrs, old(ast).metaattrs, 'deref')",
    ],
    raises=["RuntimeError"],
)

UNITS = [check_intent_attr, check_deref_attr, check_common_attrs]

# ---------------------------------------------------------------------------------------------------------
import z3
from pyvc.values import VFun, VNone, PyVal, VPy, VRef, HDict, fresh_name, StrS, BoolS


def _check_dimension(ref):
    """declast.check_dimension(dim, attrs): trusted contract -- requires a str (it tokenises dim with a regex);
    raises RuntimeError on a parse error; stores the parsed shape under attrs['dimension'] (+ 'assumed-rank')."""
    def call(ex, st, args, kw, node):
        dim, attrs = args[0], args[1]
        isstr = PyVal.is_pstr(dim.e) if isinstance(dim, VPy) else z3.BoolVal(dim.kind == "str")
        ex.safety(st, "TypeError", isstr, node, "check_dimension tokenises its argument: it must be a str")
        ex.safety(st, "RuntimeError", z3.Bool(fresh_name("dim_parses")), node, "dimension may not parse")
        c = st.heap[attrs.oid]
        k1, k2 = z3.StringVal("dimension"), z3.StringVal("assumed-rank")
        keys = z3.Store(z3.Store(c.keys, k1, True), k2, z3.Bool(fresh_name("ar_set")))
        vals = z3.Store(z3.Store(c.vals, k1, PyVal.pother(z3.Int(fresh_name("shape")))), k2,
                        z3.Const(fresh_name("ar"), PyVal))
        st.heap[attrs.oid] = HDict(c.ek, keys, vals, default=c.default)
        return VNone()
    return VFun("declast.check_dimension[trusted contract]", call)


MOD_DECLAST = ("obj", "module:declast", {})

parse_attrs = Unit(
    prop="C17", name="parse_attrs", target="shroud/generate.py::VerifyAttrs.parse_attrs",
    params={"self": SELF, "node": ("opt", NODE), "ast": DECL(("opt", TYPEMAP)), "declast": MOD_DECLAST},
    callees={("module:declast", "check_dimension"): _check_dimension},
    requires=["implies(ast.attrs['dimension'], isstr(ast.attrs['dimension']))"],
    modifies=["ast.metaattrs"],
    ensures=["same_except(ast.attrs, old(ast).attrs)",
             "same_except(ast.metaattrs, old(ast).metaattrs, 'dimension', 'assumed-rank')"],
    raises=["RuntimeError"],
)

DECLARATOR = ("obj", "Declarator", {"pointer": "list[str]"})


def _arg_decl(targs, params):
    return DECL(("opt", TYPEMAP), {"declarator": DECLARATOR, "template_arguments": targs, "params": params,
                                   "ftrim_char_in": "bool"})


_TARG = ("obj", "Declaration", {"typemap": ("opt", TYPEMAP)})
_PARAM = DECL(("opt", TYPEMAP), {"declarator": DECLARATOR, "template_arguments": ("clist",), "params": ("clist",),
                                 "ftrim_char_in": "bool"})
OPTIONS = ("obj", "Scope0", {"F_CFI": "py"})


def make_check_arg_attrs(suffix, targs, params, extra_req=(), extra_ens=()):
    u = Unit(
        prop="C17", name="check_arg_attrs" + suffix, target="shroud/generate.py::VerifyAttrs.check_arg_attrs",
        params={"self": SELF, "node": ("opt", NODE), "arg": _arg_decl(targs, params), "options": ("opt", OPTIONS)},
        # call sites: a FunctionNode/FortranGeneric (options may be passed), or node None with options (function pointer params)
        requires=["arg.is_indirect() >= 0", "node is not None or options is not None"] + list(extra_req),
        modifies=["arg.attrs", "arg.metaattrs", "arg", "node"],      # node: _has_default_arg, _gen_fortran_generic flags
        callee_units={("VerifyAttrs", "check_intent_attr"): check_intent_attr,
                      ("VerifyAttrs", "check_common_attrs"): check_common_attrs,
                      ("VerifyAttrs", "parse_attrs"): parse_attrs},
        loops={0: {"index": "ka", "inv": []}, 1: {"index": "kp", "inv": []}},
        ensures=[
            # docs: by-value default for non-pointers; void* passed by value; explicit value kept
            "implies(isnone(old(arg).attrs['value']) and isnone(old(arg).attrs['assumedtype']) and arg.is_indirect() == 0, arg.attrs['value'] is True)",
            "implies(not isnone(old(arg).attrs['value']), arg.attrs['value'] == old(arg).attrs['value'])",
            # charlen only on char* with a value
            "implies(old(arg).attrs['charlen'], arg.typemap is not None and arg.typemap.base == 'string' and arg.is_indirect() == 1 and old(arg).attrs['charlen'] is not True)",
            # an explicit intent survives as one of the three documented values
            "implies(not isnone(old(arg).attrs['intent']), arg.metaattrs['intent'] in ['in', 'out', 'inout'])",
        ] + list(extra_ens),
        raises=["RuntimeError"],
    )
    u.merge_ifs = True
    return u


check_arg_attrs = make_check_arg_attrs("", ("clist",), ("clist",))
check_arg_attrs_t = make_check_arg_attrs("[template]", ("clist", _TARG), ("clist",))
check_arg_attrs_fp = make_check_arg_attrs(
    "[fptr]", ("clist",), ("clist", _PARAM), ["arg.params[0].is_indirect() >= 0"],
    # C04: the parameters of a function-pointer argument go through the same defaulting, whatever the attributes of the
    # argument itself (the abstract interface is written from them: VALUE iff attrs['value'])
    ["implies(arg.is_function_pointer() and isnone(pv0_) and isnone(pa0_) and arg.params[0].is_indirect() == 0, "
     "arg.params[0].attrs['value'] is True)"])
check_arg_attrs_fp.init = (check_arg_attrs_fp.init or "") + "pv0_ = arg.params[0].attrs['value']\npa0_ = arg.params[0].attrs['assumedtype']\n"
for _u in (check_arg_attrs, check_arg_attrs_t, check_arg_attrs_fp):
    _u.callee_units[("VerifyAttrs", "check_arg_attrs")] = check_arg_attrs

check_var_attrs = Unit(
    prop="C17", name="check_var_attrs", target="shroud/generate.py::VerifyAttrs.check_var_attrs",
    params={"self": SELF, "cls": "py",
            "node": ("obj", "VariableNode", {"ast": DECL(("opt", TYPEMAP)), "linenumber": "py"})},
    requires=["node.ast.is_indirect() >= 0"],
    callee_units={("VerifyAttrs", "parse_attrs"): parse_attrs},
    loops={0: {"index": "ka", "inv": []}},
    ensures=["implies(old(node).ast.attrs['dimension'], node.ast.is_indirect() > 0)"],
    raises=["RuntimeError"],
)

UNITS += [parse_attrs, check_arg_attrs, check_arg_attrs_t, check_arg_attrs_fp, check_var_attrs]


# check_implied_attrs: module-level function; callee check_implied needs a str expression (it is tokenised)
def _check_implied(ex, st, args, kw, node):
    expr = args[1]
    isstr = PyVal.is_pstr(expr.e) if isinstance(expr, VPy) else z3.BoolVal(expr.kind == "str")
    ex.safety(st, "TypeError", isstr, node, "check_implied parses its argument: it must be a str")
    ex.safety(st, "RuntimeError", z3.Bool(fresh_name("implied_ok")), node, "implied expression may be rejected")
    return VNone()


check_implied_attrs = Unit(
    prop="C17", name="check_implied_attrs", target="shroud/generate.py::check_implied_attrs",
    params={"context": ("opt", NODE), "decls": ("clist", DECL(("opt", TYPEMAP)), DECL(("opt", TYPEMAP)))},
    ensures=[], raises=["RuntimeError"],
)
check_implied_attrs.global_callees["check_implied"] = VFun("check_implied[trusted contract]", _check_implied)

UNITS += [check_implied_attrs]
