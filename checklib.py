"""Shared driver for the per-property checks: runs pyvc units / table invariants / effect judgements,
replays refutations on the real code, applies known findings, writes evidence, prints verdict lines."""
import json
import os
import re
import subprocess
import sys
import time

HERE = os.path.dirname(os.path.abspath(__file__))
sys.path.insert(0, HERE)
REPO = os.environ.get("VERIF_REPO", "/repo")
VENV_PY = "/venv/bin/python"

from pyvc.runner import run_units  # noqa


def parse_model(text):
    """z3/cvc5 model text -> {base name: python value} for scalar constants."""
    vals = {}
    for m in re.finditer(r'^(\w+?)!\d+ = (.*)$', text or "", re.M):
        nm, v = m.group(1), m.group(2).strip()
        vals.setdefault(nm, _lit(v))
    for m in re.finditer(r'\(define-fun (\w+?)!\d+ \(\) (?:String|Int|Bool) (.*)\)\s*$', text or "", re.M):
        nm, v = m.group(1), m.group(2).strip()
        vals.setdefault(nm, _lit(v))
    return vals


def _lit(v):
    if v.startswith('"') and v.endswith('"'):
        s = v[1:-1].replace('""', '"')
        s = re.sub(r'\\u\{([0-9a-fA-F]+)\}', lambda m: chr(int(m.group(1), 16)), s)
        return s
    if re.match(r'^-?\d+$', v):
        return int(v)
    m = re.match(r'^\(- (\d+)\)$', v)
    if m:
        return -int(m.group(1))
    if v in ("True", "true"):
        return True
    if v in ("False", "false"):
        return False
    return None


class Ctx(object):
    def __init__(self, prop, tier, seed):
        self.prop, self.tier, self.seed = prop, tier, seed
        self.t0 = time.time()
        self.obligations = 0
        self.discharged = 0
        self.by_solver = {}
        self.solver_time = 0.0
        self.samples = []
        self.functions = []
        self.violations = []      # (obligation/id, replay path, confirmed)
        self.undecided = []
        self.errors = []
        self.known_printed = []
        self.bounded = []
        self.not_covered = []
        self.assumptions = []
        self.trusted = []
        self.table_items = 0
        self.extra = {}
        kf = json.load(open(os.path.join(HERE, "known_findings.json")))
        self.known = [k for k in kf["findings"] if k["property"] == prop]
        self._mon_cache = {}

    # ---------------------------------------------------------------- known findings
    def known_open(self, ident):
        for k in self.known:
            if k["status"] == "open" and re.search(k["match"], ident):
                return k
        return None

    def report_known(self, k, detail=""):
        line = "KNOWN-FINDING: property=%s %s%s" % (self.prop, k["what"], (" [%s]" % detail) if detail else "")
        if line not in self.known_printed:
            self.known_printed.append(line)
            print(line)

    # ---------------------------------------------------------------- violations / replay files
    def violation(self, ident, info, confirmed):
        d = os.path.join(HERE, "replays", self.prop)
        os.makedirs(d, exist_ok=True)
        safe = re.sub(r'[^A-Za-z0-9_.-]+', "_", ident)[:120]
        path = os.path.join(d, safe + ".json")
        info = dict(info)
        info.update({"property": self.prop, "obligation": ident, "confirmed_on_real_code": bool(confirmed),
                     "repo": REPO})
        json.dump(info, open(path, "w"), indent=1, default=str)
        tail = "" if confirmed else " no-failing-input-found"
        print("VIOLATION property=%s replay=%s%s" % (self.prop, path, tail))
        print("  obligation: %s" % ident)
        if info.get("inputs") is not None:
            print("  failing input: %s" % json.dumps(info["inputs"])[:400])
        if info.get("observed"):
            print("  observed: %s" % str(info["observed"])[:400])
        self.violations.append((ident, path, confirmed))

    # ---------------------------------------------------------------- monitors (real code, /venv python)
    def monitor(self, name, mode, *args, timeout=600):
        key = (name, mode) + tuple(str(a) for a in args)
        if key in self._mon_cache:
            return self._mon_cache[key]
        r = self._monitor(name, mode, *args, timeout=timeout)
        self._mon_cache[key] = r
        return r

    def _monitor(self, name, mode, *args, timeout=600):
        env = dict(os.environ)
        env["VERIF_REPO"] = REPO
        p = subprocess.run([VENV_PY, os.path.join(HERE, "monitors", "drive.py"), name, mode] + [str(a) for a in args],
                           capture_output=True, text=True, timeout=timeout, env=env)
        if p.returncode != 0 or not p.stdout.strip():
            raise RuntimeError("monitor %s failed: %s" % (name, (p.stderr or p.stdout)[-800:]))
        return json.loads(p.stdout.strip().split("\n")[-1])

    # ---------------------------------------------------------------- pyvc units
    def pyvc(self, units, monitors=None, nproc=None):
        """monitors: unit name -> (monitor module name, model->inputs function)"""
        monitors = monitors or {}
        results = run_units(units, repo=REPO, nproc=nproc)
        for r in results:
            u = r.unit
            self.functions.append({"unit": u.name, "target": u.target, "sha256_16": r.src_sha,
                                   "obligations": r.obligations, "discharged": r.discharged,
                                   "trivially_true_dropped": r.trivial, "exits": r.paths,
                                   "vacuity": getattr(r, "vac", [])[:3]})
            self.obligations += r.obligations
            self.discharged += r.discharged
            if r.obligations == 0 and r.trivial and r.status == "ok":
                # every obligation of the unit was closed by the term simplifier while it was generated
                self.obligations += r.trivial
                self.discharged += r.trivial
                self.by_solver["simplifier"] = self.by_solver.get("simplifier", 0) + r.trivial
            self.solver_time += r.solver_time
            for k, v in r.by_solver.items():
                self.by_solver[k] = self.by_solver.get(k, 0) + v
            self.samples.extend(r.samples[:1])
            for a in r.assumptions:
                if a not in self.assumptions:
                    self.assumptions.append(a)
            if r.status == "error":
                self.errors.append("%s: %s" % (u.name, r.msg))
            elif r.status == "undecided":
                # The unit is out of the verifier's reach on this tree (restructured code, missing contract).
                # Bounded stand-in: the executable contract on the real function; a failing input is a violation
                # (confirmed on the real code, labelled bounded); otherwise the verdict stays undecided.
                found = None
                mon = monitors.get(u.name)
                if mon is not None:
                    try:
                        hint0 = mon[2]("undecided:" + u.name) if len(mon) > 2 else None
                        res = self.monitor(mon[0], "search", (mon[3] if len(mon) > 3 else 60000), self.seed,
                                           json.dumps(hint0, sort_keys=True) if hint0 else "null")
                        self.bounded.append({"unit": u.name, "monitor": mon[0], "reason": "unit undecided: " + r.msg[:200],
                                             "inputs_tried": res.get("tried"), "violation": res.get("violation")})
                        if res.get("violation"):
                            found = res
                    except Exception as e:
                        self.bounded.append({"unit": u.name, "monitor": mon[0], "error": str(e)[:300]})
                if found:
                    ident = "bounded/%s/%s" % (u.name, mon[0])
                    k = self.known_open(ident + ":" + str(found["violation"]))
                    if k is not None:
                        self.report_known(k)
                    else:
                        self.violation(ident, {"unit": u.name, "target": u.target, "inputs": found["inputs"],
                                               "observed": found["violation"],
                                               "note": "unit could not be verified on this tree (%s); violation found by the "
                                                       "bounded run-time contract on the real function" % r.msg[:300]}, True)
                self.undecided.append("%s: %s" % (u.name, r.msg))
            # one report per obligation site (same unit, kind, line, clause): the paths reaching it are listed in it
            sites = {}
            for item in r.refuted:
                site = re.sub(r'#[^:]*', '', item[0])
                sites.setdefault(site, []).append(item)
            for site, items in sorted(sites.items()):
                nm, model, note, solver, text = items[0]
                self.obligations -= len(items) - 1
                self.extra.setdefault("refuted_paths", {})[site] = [i[0] for i in items][:50]
                self.handle_refutation(u, nm, model, note, solver, text, monitors.get(u.name))
        return results

    def handle_refutation(self, u, nm, model, note, solver, text, mon):
        k = self.known_open(nm)
        info = {"unit": u.name, "target": u.target, "solver": solver, "solver_model": model[:4000], "note": note,
                "smt2_head": text[:3000]}
        confirmed = False
        if mon is not None:
            mname, to_inputs = mon[0], mon[1]
            hint = mon[2](nm) if len(mon) > 2 else None
            mline = re.search(r'/(safety|raises-only)[^@]*@(\d+)', nm)
            if hint is None and mline:
                hint = {"must_contain": ["%s:%s" % (os.path.basename(u.target.split("::")[0]), mline.group(2))]}
            vals = parse_model(model)
            try:
                inputs = to_inputs(vals)
            except Exception:
                inputs = None
            res = None
            if inputs is not None:
                try:
                    res = self.monitor(mname, "replay", json.dumps(inputs))
                except Exception as e:
                    info["replay_error"] = str(e)
                if res and res.get("violation"):
                    confirmed = True
                    info["inputs"], info["observed"] = res["inputs"], res["violation"]
            if not confirmed:
                # counterexamples to loop preservation are intermediate states: bounded search around the model
                try:
                    around = dict(inputs) if isinstance(inputs, dict) else {}
                    if hint:
                        around.update(hint)
                    res = self.monitor(mname, "search", (mon[3] if len(mon) > 3 else 60000), self.seed,
                                       json.dumps(around, sort_keys=True) if around else "null")
                    info["search_tried"] = res.get("tried")
                    if res.get("violation"):
                        confirmed = True
                        info["inputs"], info["observed"] = res["inputs"], res["violation"]
                        info["found_by"] = "bounded search around the solver model"
                except Exception as e:
                    info["search_error"] = str(e)
        if k is not None:
            self.report_known(k)
            self.obligations -= 1    # carved out: proved separately under the carve-out precondition
            self.extra.setdefault("known_findings_reproduced", []).append(nm)
            return
        self.violation(nm, info, confirmed)

    # ---------------------------------------------------------------- table invariants / judgements
    def item(self, ident, ok, detail="", sample=None, confirm=None, shape=False):
        """One closed obligation decided by evaluation (table row x clause, effect judgement).  For a table row the
        witness is the row itself (real data).  For a judgement about code, `confirm` (called only on failure) looks
        for a failing input on the real code: -> {"inputs":..., "violation":...} or None."""
        self.obligations += 1
        self.table_items += 1
        if ok:
            self.discharged += 1
            self.by_solver["evaluation"] = self.by_solver.get("evaluation", 0) + 1
            if sample is not None and len(self.samples) < 6:
                self.samples.append(sample)
            return
        k = self.known_open(ident)
        if k is not None:
            self.report_known(k)
            self.obligations -= 1   # carved out: not counted as an obligation of this run
            self.extra.setdefault("known_findings_reproduced", []).append(ident)
            return
        if confirm is not None:
            try:
                res = confirm()
            except Exception as e:
                res = {"error": str(e)[:300]}
            if res and res.get("violation"):
                self.violation(ident, {"detail": detail, "site": sample, "inputs": res.get("inputs"),
                                       "observed": res["violation"]}, confirmed=True)
            elif shape:
                # the item recognises one way of writing the code; another way that no bounded run can fault is not a
                # violation: the question is open (exit 2), not answered
                self.obligations -= 1
                self.undecided.append("%s: code shape not recognised and no failing input found (%s)" % (ident, detail[:160]))
            else:
                self.violation(ident, {"detail": detail, "site": sample, "replay_attempt": res}, confirmed=False)
            return
        self.violation(ident, {"detail": detail, "inputs": sample}, confirmed=True)

    # ---------------------------------------------------------------- finish
    def finish(self, level="proof", checker_cmd=None, explanation=None):
        wall = time.time() - self.t0
        if self.obligations == 0 and not self.errors:
            self.errors.append("zero obligations generated (vacuity guard)")
        cov = {
            "obligations": self.obligations, "discharged": self.discharged,
            "checker_cmd": checker_cmd or ("./check %s --tier %s" % (self.prop, self.tier)),
            "trusted_base": self.trusted,
            "samples": self.samples[:8],
            "by_backend": self.by_solver, "solver_time_s": round(self.solver_time, 2),
            "functions_under_contract": self.functions,
            "bounded": self.bounded, "not_covered": self.not_covered,
            "undecided": self.undecided, "checker_errors": self.errors,
            "known_findings_reported": self.known_printed,
        }
        cov.update(self.extra)
        if explanation:
            cov["explanation"] = explanation
        ev = {"property_id": self.prop, "tier": self.tier, "seed": self.seed, "level": level, "coverage": cov,
              "assumptions": self.assumptions, "wall_s": round(wall, 2), "violations": len(self.violations)}
        os.makedirs(os.path.join(HERE, "evidence"), exist_ok=True)
        path = os.path.join(HERE, "evidence", "%s.json" % self.prop)
        json.dump(ev, open(path + ".tmp", "w"), indent=1, default=str)
        os.replace(path + ".tmp", path)
        for e in self.undecided:
            print("UNDECIDED %s %s" % (self.prop, e[:1000]))
        if self.errors:
            for e in self.errors:
                print("CHECKER-ERROR %s %s" % (self.prop, e[:2000]))
            code = 3
        elif self.violations:
            code = 1
        elif self.undecided:
            code = 2
        else:
            code = 0
        print("%s: obligations=%d discharged=%d violations=%d undecided=%d errors=%d wall=%.1fs -> exit %d" % (
            self.prop, self.obligations, self.discharged, len(self.violations), len(self.undecided), len(self.errors),
            wall, code))
        return code
