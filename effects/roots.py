"""Effect checker (DESIGN.md 2.6, 6/C07): frame contract of main.main_with_args over the module-level and class-level
mutable state of the package.

    for every mutable root R (module-level binding / class attribute holding a list, dict, set or Scope):
      J1  immutable     no mutation site of R, or of anything drawn from R, is reachable from main_with_args
      J2  reset         R is rebound to a fresh value by a statement that runs on every call of main_with_args
                        before R is used (typemap.initialize() rebinding shared_typedict is the model case)
      J3  oblivious     every mutation of R is an unconditional keyed write R[k] = v inside initialisers called on
                        every run, with v not computed from R's prior content and no read of R guarding the write
      per-run           (class attributes) every instance rebinds the attribute in __init__ before use

The analysis is name based and bottom-up, function by function (a caller is checked against the callee's inferred
effect summary): aliases through local assignment, iteration, subscripts/attributes of tracked objects, parameter
passing and returned values; mutation = subscript/attribute store, del, augmented assignment, the mutating methods of
list/dict/set and of util.Scope.  It is sound under the aliasing assumptions listed in DESIGN.md section 8 (no
reflective writes other than the setattr sites it sees; no exec/eval)."""
import ast
import os

MUTATORS = {"append", "extend", "insert", "pop", "remove", "clear", "sort", "reverse", "update", "setdefault",
            "popitem", "add", "discard", "reparent", "delattrs", "__setitem__", "appendleft"}
MUTABLE_CALLS = {"dict", "list", "set", "OrderedDict", "defaultdict", "Scope", "deque"}
PKG = "shroud"


class Func(object):
    def __init__(self, module, qual, node, cls=None):
        self.module, self.qual, self.node, self.cls = module, qual, node, cls
        self.params = [a.arg for a in node.args.args]
        self.param_kinds = {}
        self.mut_params = set()      # indices of parameters whose object (or something drawn from it) is mutated
        self.ret_params = set()      # indices of parameters that may be returned (alias of the result)
        self.root_muts = {}          # root -> list of (lineno, description, kind)
        self.root_reads = {}         # root -> first line where it is read
        self.calls = []              # (callee key candidates, arg alias sets, lineno)
        self.rebinds = {}            # root -> lineno (global rebinding to a fresh object)


class Analysis(object):
    def __init__(self, repo):
        self.repo = repo
        self.mods = {}
        self.funcs = {}              # "module.qual" -> Func
        self.by_name = {}            # bare function / method name -> [Func]
        self.roots = {}              # "module.NAME" or "module.Class.NAME" -> info
        self.class_inits = {}        # "module.Class" -> set of attributes assigned in __init__ (self.X = ...)
        self.load()

    def load(self):
        d = os.path.join(self.repo, PKG)
        for fn in sorted(os.listdir(d)):
            if fn.endswith(".py"):
                m = fn[:-3]
                self.mods[m] = ast.parse(open(os.path.join(d, fn)).read())
        for m, tree in self.mods.items():
            for n in tree.body:
                if isinstance(n, ast.Assign) and len(n.targets) == 1 and isinstance(n.targets[0], ast.Name):
                    if self.is_mutable_value(n.value):
                        self.roots["%s.%s" % (m, n.targets[0].id)] = {"kind": "module", "line": n.lineno, "module": m,
                                                                      "name": n.targets[0].id}
                elif isinstance(n, ast.FunctionDef):
                    self.add_func(m, n.name, n)
                elif isinstance(n, ast.ClassDef):
                    inits = set()
                    for c in n.body:
                        if isinstance(c, ast.Assign) and len(c.targets) == 1 and isinstance(c.targets[0], ast.Name) \
                                and self.is_mutable_value(c.value):
                            self.roots["%s.%s.%s" % (m, n.name, c.targets[0].id)] = {
                                "kind": "class", "line": c.lineno, "module": m, "cls": n.name, "name": c.targets[0].id}
                        elif isinstance(c, ast.FunctionDef):
                            self.add_func(m, "%s.%s" % (n.name, c.name), c, n.name)
                            if c.name == "__init__":
                                for x in ast.walk(c):
                                    if isinstance(x, ast.Assign):
                                        for t in x.targets:
                                            if isinstance(t, ast.Attribute) and isinstance(t.value, ast.Name) and t.value.id == "self":
                                                inits.add(t.attr)
                    self.class_inits["%s.%s" % (m, n.name)] = inits

    def is_mutable_value(self, v):
        if isinstance(v, (ast.List, ast.Dict, ast.Set, ast.ListComp, ast.DictComp)):
            return True
        if isinstance(v, ast.Call):
            f = v.func
            name = f.id if isinstance(f, ast.Name) else f.attr if isinstance(f, ast.Attribute) else ""
            return name in MUTABLE_CALLS
        return False

    def add_func(self, m, qual, node, cls=None):
        f = Func(m, qual, node, cls)
        self.funcs["%s.%s" % (m, qual)] = f
        self.by_name.setdefault(node.name, []).append(f)

    # ------------------------------------------------------------------ per-function effect inference
    def root_of_expr(self, f, e, aliases):
        """set of roots / parameter tags the expression may denote or be drawn from"""
        if isinstance(e, ast.Name):
            out = set(aliases.get(e.id, ()))
            key = "%s.%s" % (f.module, e.id)
            if key in self.roots and e.id not in f.locals_ and not getattr(f, "fresh_now", {}).get(key):
                out.add(key)
            return out
        if isinstance(e, ast.Attribute):
            if isinstance(e.value, ast.Name):
                if e.value.id in self.mods and "%s.%s" % (e.value.id, e.attr) in self.roots:
                    return {"%s.%s" % (e.value.id, e.attr)}
                if e.value.id == "self" and f.cls:
                    for ck in self.mro(f.module, f.cls):
                        key = "%s.%s" % (ck, e.attr)
                        if key in self.roots and e.attr not in self.class_inits.get(ck, set()) \
                                and e.attr not in self.class_inits.get("%s.%s" % (f.module, f.cls), set()):
                            return {key}
                if e.value.id in self.class_names():
                    key = "%s.%s" % (self.class_names()[e.value.id], e.attr)
                    if key in self.roots:
                        return {key}
            out = set(self.root_of_expr(f, e.value, aliases))      # drawn from the base object
            # an instance of a class whose mutable attribute is a CLASS attribute never re-bound in __init__: the
            # instance attribute is the shared class-level object, whatever name the instance travels under
            for key, info in self.roots.items():
                if info["kind"] == "class" and info["name"] == e.attr \
                        and e.attr not in self.class_inits.get("%s.%s" % (info["module"], info["cls"]), set()):
                    out.add(key)
            return out
        if isinstance(e, ast.Subscript):
            return self.root_of_expr(f, e.value, aliases)
        if isinstance(e, ast.Call):
            fn = e.func
            if isinstance(fn, ast.Attribute) and fn.attr in ("get", "setdefault", "values", "items", "keys", "pop", "copy"):
                if fn.attr == "copy":
                    return set()
                return self.root_of_expr(f, fn.value, aliases)
            name = fn.id if isinstance(fn, ast.Name) else fn.attr if isinstance(fn, ast.Attribute) else None
            if name in MUTABLE_CALLS or name in ("sorted", "str", "int", "len", "wformat", "format", "join", "deepcopy"):
                return set()
            out = set()
            for g in self.by_name.get(name, []):
                args = list(e.args)
                off = 1 if g.cls and isinstance(fn, ast.Attribute) else 0
                for i in g.ret_params:
                    j = i - off
                    if 0 <= j < len(args):
                        out |= self.root_of_expr(f, args[j], aliases)
                    elif i == 0 and off and isinstance(fn, ast.Attribute):
                        out |= self.root_of_expr(f, fn.value, aliases)
            return out
        if isinstance(e, (ast.BoolOp,)):
            out = set()
            for v in e.values:
                out |= self.root_of_expr(f, v, aliases)
            return out
        if isinstance(e, ast.IfExp):
            return self.root_of_expr(f, e.body, aliases) | self.root_of_expr(f, e.orelse, aliases)
        return set()

    _cn = None

    def class_names(self):
        if self._cn is None:
            self._cn = {}
            for m, tree in self.mods.items():
                for n in tree.body:
                    if isinstance(n, ast.ClassDef):
                        self._cn[n.name] = "%s.%s" % (m, n.name)
        return self._cn

    def mro(self, m, cls):
        out = ["%s.%s" % (m, cls)]
        tree = self.mods[m]
        for n in tree.body:
            if isinstance(n, ast.ClassDef) and n.name == cls:
                for b in n.bases:
                    bn = b.id if isinstance(b, ast.Name) else b.attr if isinstance(b, ast.Attribute) else None
                    if bn in self.class_names():
                        bm, bc = self.class_names()[bn].split(".")
                        out += self.mro(bm, bc)
        return out

    def resolve(self, call):
        """callee candidates by name; a method-style call on a non-module receiver resolves to methods only, a bare
        or module-qualified call to module-level functions (and constructors) only"""
        fn = call.func
        if isinstance(fn, ast.Name):
            return [g for g in self.by_name.get(fn.id, []) if g.cls is None], False
        if isinstance(fn, ast.Attribute):
            if isinstance(fn.value, ast.Name) and fn.value.id in self.mods:
                return [g for g in self.by_name.get(fn.attr, []) if g.cls is None and g.module == fn.value.id], False
            if fn.attr in MUTATORS:
                return [], True     # container/Scope mutator: its effect on the receiver is recorded at the call site
            return [g for g in self.by_name.get(fn.attr, []) if g.cls is not None], True
        return [], False

    def analyse_func(self, f):
        """flow-sensitive within the function: a name re-bound to a fresh value stops aliasing what it aliased before
        (strong update); branches and loop bodies are merged by union (loops are walked twice)."""
        node = f.node
        f.locals_ = set(f.params)
        globals_ = set()
        for n in ast.walk(node):
            if isinstance(n, ast.Global):
                globals_ |= set(n.names)
        for n in ast.walk(node):
            if isinstance(n, (ast.Assign, ast.AugAssign, ast.For, ast.With, ast.comprehension)):
                tgts = n.targets if isinstance(n, ast.Assign) else [getattr(n, "target", None)]
                if isinstance(n, ast.With):
                    tgts = [i.optional_vars for i in n.items]
                for t in tgts:
                    for x in ast.walk(t) if t is not None else []:
                        if isinstance(x, ast.Name) and isinstance(x.ctx, ast.Store) and x.id not in globals_:
                            f.locals_.add(x.id)
        muts, reads, rebinds = {}, {}, {}
        mut_params, ret_params, param_kinds = set(), set(), {}
        calls = []
        fresh_globals = {}      # global root name -> True while it is bound to a fresh copy made in this function
        restored_in_finally = set()
        seen_sites = set()

        def note_mut(targets, lineno, desc, kind):
            for r in targets:
                if r.startswith("param:"):
                    mut_params.add(int(r[6:]))
                    param_kinds.setdefault(int(r[6:]), set()).add(kind)
                elif (r, lineno, kind) not in seen_sites:
                    seen_sites.add((r, lineno, kind))
                    muts.setdefault(r, []).append((lineno, desc, kind))

        f.fresh_now = fresh_globals     # a global NAME temporarily re-bound to a fresh copy does not denote the shared object

        def roots(e, env):
            return self.root_of_expr(f, e, env)

        def exprs_of(st):
            """expression nodes of this statement, not of nested statement blocks"""
            out = []
            for fld, val in ast.iter_fields(st):
                if fld in ("body", "orelse", "finalbody", "handlers"):
                    continue
                vals = val if isinstance(val, list) else [val]
                for v in vals:
                    if isinstance(v, ast.AST):
                        out.extend(ast.walk(v))
            return out

        def record(st, env):
            for n in exprs_of(st):
                if isinstance(n, ast.Call):
                    fn = n.func
                    if isinstance(fn, ast.Attribute) and fn.attr in MUTATORS:
                        direct = self.direct_root(f, fn.value)
                        if fn.attr == "setdefault" and len(n.args) == 2 and isinstance(n.args[1], ast.Dict) and not n.args[1].keys:
                            kind_ = "nav"
                        else:
                            kind_ = "update" if direct else "element-update"
                        note_mut(roots(fn.value, env), n.lineno, ast.unparse(n)[:90], kind_)
                    if isinstance(fn, ast.Name) and fn.id == "setattr" and n.args:
                        note_mut(roots(n.args[0], env), n.lineno, ast.unparse(n)[:90], "attribute-write")
                    cands, is_m = self.resolve(n)
                    if cands:
                        argsets = [roots(a, env) for a in n.args]
                        recv = roots(fn.value, env) if (isinstance(fn, ast.Attribute) and is_m) else set()
                        calls.append((cands, argsets, recv, n.lineno, is_m))
                if isinstance(n, (ast.Name, ast.Attribute)) and isinstance(getattr(n, "ctx", None), ast.Load):
                    for r in (self.direct_root(f, n) or ()):
                        reads.setdefault(r, n.lineno)

        def assign_target(t, src, n, env):
            if isinstance(t, ast.Name):
                if t.id in globals_:
                    key = "%s.%s" % (f.module, t.id)
                    if key in self.roots:
                        if not src:
                            rebinds[key] = n.lineno
                            fresh_globals[key] = True
                        else:
                            fresh_globals[key] = False
                            if all(r.startswith("param:") for r in src):
                                # a setter: the root becomes whatever the caller passes
                                f.__dict__.setdefault("param_rebinds", {})[key] = (sorted(int(r[6:]) for r in src), n.lineno)
                    return
                env[t.id] = set(src)        # strong update
            elif isinstance(t, (ast.Tuple, ast.List)):
                for e in t.elts:
                    assign_target(e, src, n, env)
            elif isinstance(t, ast.Subscript):
                direct = self.direct_root(f, t.value)
                tgt_roots = roots(t.value, env)
                if direct:
                    kind = "keyed-write" if isinstance(n, ast.Assign) else "update"
                else:
                    const_key = isinstance(t.slice, ast.Constant) and isinstance(t.slice.value, str)
                    reads_src = True if not isinstance(n, ast.Assign) else bool(roots(n.value, env) & tgt_roots)
                    kind = "const-element-write" if (isinstance(n, ast.Assign) and const_key and not reads_src) else "element-write"
                note_mut(tgt_roots, n.lineno, ast.unparse(n)[:90], kind)
            elif isinstance(t, ast.Attribute):
                if isinstance(t.value, ast.Name) and t.value.id in self.mods:
                    key = "%s.%s" % (t.value.id, t.attr)
                    if key in self.roots:
                        if isinstance(n, ast.Assign) and not src:
                            rebinds[key] = n.lineno
                        return
                note_mut(roots(t.value, env), n.lineno, ast.unparse(n)[:90], "attribute-write")

        def merge(a, b):
            out = dict(a)
            for k, v in b.items():
                out[k] = set(out.get(k, set())) | set(v)
            return out

        def walk(stmts, env, in_finally=False):
            for st in stmts:
                record(st, env)
                if isinstance(st, ast.Assign):
                    src = roots(st.value, env)
                    if in_finally:
                        for t in st.targets:
                            if isinstance(t, ast.Name) and t.id in globals_:
                                restored_in_finally.add("%s.%s" % (f.module, t.id))
                    for t in st.targets:
                        assign_target(t, src, st, env)
                elif isinstance(st, ast.AugAssign):
                    t = st.target
                    if isinstance(t, ast.Name):
                        tg = set(env.get(t.id, set()))
                        key = "%s.%s" % (f.module, t.id)
                        if key in self.roots and t.id in globals_:
                            tg.add(key)
                        note_mut(tg, st.lineno, ast.unparse(st)[:90], "update")
                    else:
                        assign_target(t, roots(st.value, env), st, env)
                elif isinstance(st, ast.Delete):
                    for t in st.targets:
                        if isinstance(t, ast.Subscript):
                            note_mut(roots(t.value, env), st.lineno, ast.unparse(st)[:90], "update")
                elif isinstance(st, ast.Return) and st.value is not None:
                    for r in roots(st.value, env):
                        if r.startswith("param:"):
                            ret_params.add(int(r[6:]))
                elif isinstance(st, (ast.For, ast.While)):
                    for _ in range(2):
                        e2 = dict((k, set(v)) for k, v in env.items())
                        if isinstance(st, ast.For):
                            src = roots(st.iter, e2)
                            for x in ast.walk(st.target):
                                if isinstance(x, ast.Name):
                                    e2[x.id] = set(src)
                        e2 = walk(st.body, e2, in_finally)
                        env = merge(env, e2)
                    env = walk(st.orelse, env, in_finally)
                elif isinstance(st, ast.If):
                    e1 = walk(st.body, dict((k, set(v)) for k, v in env.items()), in_finally)
                    e2 = walk(st.orelse, dict((k, set(v)) for k, v in env.items()), in_finally)
                    env = merge(e1, e2)
                elif isinstance(st, ast.Try):
                    e1 = walk(st.body, dict((k, set(v)) for k, v in env.items()), in_finally)
                    for h in st.handlers:
                        e1 = merge(e1, walk(h.body, dict((k, set(v)) for k, v in env.items()), in_finally))
                    e1 = walk(st.orelse, e1, in_finally)
                    env = walk(st.finalbody, e1, True)
                elif isinstance(st, ast.With):
                    for it in st.items:
                        if it.optional_vars is not None and isinstance(it.optional_vars, ast.Name):
                            env[it.optional_vars.id] = roots(it.context_expr, env)
                    env = walk(st.body, env, in_finally)
                elif isinstance(st, (ast.FunctionDef, ast.ClassDef)):
                    pass
                # comprehensions: bind their targets for alias purposes
                for n in exprs_of(st):
                    if isinstance(n, ast.comprehension):
                        src = roots(n.iter, env)
                        for x in ast.walk(n.target):
                            if isinstance(x, ast.Name):
                                env[x.id] = set(env.get(x.id, set())) | src
            return env

        env0 = dict((p, {"param:%d" % i}) for i, p in enumerate(f.params))
        aliases = walk(node.body, env0)
        # a global temporarily re-bound to a fresh copy must get its old binding back on EVERY exit
        for key, is_fresh in fresh_globals.items():
            if key in rebinds and key not in restored_in_finally and is_fresh is False:
                # re-bound and restored on the normal path only
                muts.setdefault(key, []).append((rebinds[key], "temporary rebinding of %s is not restored in a finally clause "
                                                 "(an exception leaves the modified copy bound)" % key.split(".")[-1], "update"))
            if key in rebinds and is_fresh is False:
                del rebinds[key]      # binding restored: not a per-run reset
        f.ret_params = ret_params
        f.calls = calls
        f.root_muts, f.root_reads, f.rebinds, f.mut_params = muts, reads, rebinds, mut_params
        f.aliases = aliases
        f.param_kinds = param_kinds
        f.aliases = aliases

    def direct_root(self, f, e):
        """roots the expression NAMES directly (not merely draws from)"""
        if isinstance(e, ast.Name):
            key = "%s.%s" % (f.module, e.id)
            return {key} if key in self.roots and e.id not in f.locals_ else set()
        if isinstance(e, ast.Attribute) and isinstance(e.value, ast.Name):
            if e.value.id in self.mods and "%s.%s" % (e.value.id, e.attr) in self.roots:
                return {"%s.%s" % (e.value.id, e.attr)}
            if e.value.id == "self" and f.cls:
                for ck in self.mro(f.module, f.cls):
                    key = "%s.%s" % (ck, e.attr)
                    if key in self.roots and e.attr not in self.class_inits.get("%s.%s" % (f.module, f.cls), set()) \
                            and e.attr not in self.class_inits.get(ck, set()):
                        return {key}
        return set()

    def run(self):
        for f in self.funcs.values():
            self.analyse_func(f)
        # propagate parameter mutation through calls to a fixpoint (callee summaries)
        changed = True
        while changed:
            changed = False
            for f in self.funcs.values():
                for (cands, argsets, recv, lineno, is_method) in f.calls:
                    for g in cands:
                        off = 1 if (g.cls and is_method) else 0
                        for i in sorted(g.mut_params):
                            j = i - off
                            srcs = recv if (i == 0 and off) else (argsets[j] if 0 <= j < len(argsets) else set())
                            for r in srcs:
                                if r.startswith("param:"):
                                    k = int(r[6:])
                                    before = (k in f.mut_params, set(f.param_kinds.get(k, set())))
                                    f.mut_params.add(k)
                                    f.param_kinds.setdefault(k, set()).update(g.param_kinds.get(i, {"update"}))
                                    if before != (True, f.param_kinds[k]):
                                        changed = True
                                else:
                                    lst = f.root_muts.setdefault(r, [])
                                    kinds = g.param_kinds.get(i, {"update"})
                                    k_ = "keyed-write" if kinds <= {"keyed-write", "nav", "const-element-write"} else "via-call"
                                    d = (lineno, "passed to %s.%s, which mutates its parameter %s (%s)" % (
                                        g.module, g.qual, g.params[i], ",".join(sorted(kinds))), k_)
                                    if d not in lst:
                                        lst.append(d)
                                        changed = True
        return self

    def reachable(self, start="main.main_with_args"):
        seen, todo = set(), [start]
        while todo:
            k = todo.pop()
            if k in seen or k not in self.funcs:
                continue
            seen.add(k)
            f = self.funcs[k]
            for n in ast.walk(f.node):
                if isinstance(n, ast.Call):
                    fn = n.func
                    name = fn.id if isinstance(fn, ast.Name) else fn.attr if isinstance(fn, ast.Attribute) else None
                    for g in self.resolve(n)[0]:
                        todo.append("%s.%s" % (g.module, g.qual))
                    if name in self.class_names():
                        ck = self.class_names()[name]
                        for q in self.funcs:
                            if q.startswith(ck + "."):
                                todo.append(q)
        return seen

    # ------------------------------------------------------------------ judgements
    def judge(self):
        reach = self.reachable()
        out = {}
        main = self.funcs.get("main.main_with_args")
        for root, info in sorted(self.roots.items()):
            sites = []
            rebinds = []
            for k in sorted(reach):
                f = self.funcs[k]
                for (ln, desc, kind) in f.root_muts.get(root, []):
                    sites.append({"function": k, "line": ln, "what": desc, "kind": kind})
                if root in f.rebinds:
                    rebinds.append({"function": k, "line": f.rebinds[root]})
                # a call of a setter of this root with a fresh container
                for n in ast.walk(f.node):
                    if isinstance(n, ast.Call):
                        fn = n.func
                        name = fn.id if isinstance(fn, ast.Name) else fn.attr if isinstance(fn, ast.Attribute) else None
                        for g in self.by_name.get(name, []):
                            pr = getattr(g, "param_rebinds", {}).get(root)
                            if pr:
                                off = 1 if g.cls else 0
                                for i in pr[0]:
                                    j = i - off
                                    if 0 <= j < len(n.args) and self.is_mutable_value(n.args[j]):
                                        rebinds.append({"function": k, "line": n.lineno})
            verdict, why = None, ""
            if not sites:
                verdict, why = "J1", "no mutation site reachable from main_with_args"
            elif rebinds and self.reset_before_use(root, rebinds, main):
                verdict, why = "J2", "rebound to a fresh value on every run before use (%s)" % ", ".join(
                    "%s:%d" % (r["function"], r["line"]) for r in rebinds)
            elif rebinds:
                # the package has a statement that gives this root a fresh value, but a run does not reach it
                # unconditionally before the root is used: what an earlier run (or an earlier failed run) left is read
                verdict, why = "FAIL", "rebound to a fresh value only conditionally or after use (%s): content of an earlier " \
                                       "run survives" % ", ".join("%s:%d" % (r["function"], r["line"]) for r in rebinds)
            elif all(s["kind"] in ("keyed-write", "nav", "const-element-write") for s in sites) and self.oblivious(root, sites) \
                    and self.whole_reads(root, reach):
                verdict, why = "FAIL", "keyed writes only, but all keys are observed: " + "; ".join(
                    "%s:%d %s" % (w["function"], w["line"], w["what"]) for w in self.whole_reads(root, reach)[:3])
            elif all(s["kind"] in ("keyed-write", "nav", "const-element-write") for s in sites) and self.oblivious(root, sites):
                verdict, why = "J3", "only unconditional keyed writes that do not read prior content (stale keys may remain; " \
                                     "'every key read in a run was written in that run' is a listed assumption)"
            else:
                verdict, why = "FAIL", "mutated across runs and never reset"
            out[root] = {"verdict": verdict, "why": why, "sites": sites[:12], "nsites": len(sites), "rebinds": rebinds,
                         "kind": info["kind"], "line": info["line"]}
        return out

    def reset_before_use(self, root, rebinds, main):
        """the rebinding function is called unconditionally at the top level of main_with_args (or transitively of
        such a function) before any other call that can use the root"""
        top_calls = []
        for st in main.node.body:
            for n in ast.walk(st) if not isinstance(st, (ast.If, ast.For, ast.While, ast.Try)) else []:
                if isinstance(n, ast.Call):
                    fn = n.func
                    name = fn.id if isinstance(fn, ast.Name) else fn.attr if isinstance(fn, ast.Attribute) else None
                    top_calls.append((st.lineno, name))
        rb_funcs = set(r["function"] for r in rebinds)
        rb_names = set(k.split(".")[-1] for k in rb_funcs)
        # direct or one/two levels down, unconditionally
        for ln, name in top_calls:
            if name in rb_names:
                return True
            for g in self.by_name.get(name, []) + [self.funcs[q] for q in self.funcs if name in self.class_names() and q.startswith(self.class_names()[name] + ".__init__")]:
                for st in g.node.body:
                    if isinstance(st, (ast.If, ast.For, ast.While, ast.Try)):
                        continue
                    for n in ast.walk(st):
                        if isinstance(n, ast.Call):
                            fn = n.func
                            nm = fn.id if isinstance(fn, ast.Name) else fn.attr if isinstance(fn, ast.Attribute) else None
                            if nm in rb_names:
                                return True
                            for g2 in self.by_name.get(nm, []):
                                if "%s.%s" % (g2.module, g2.qual) in rb_funcs:
                                    return True
                if "%s.%s" % (g.module, g.qual) in rb_funcs:
                    return True
        return False

    DEBUG_DUMPS = {"statements.write_cf_tree", "statements.print_tree", "whelpers.write_c_helpers", "whelpers.write_f_helpers",
                   "whelpers.gather_helpers"}

    def whole_reads(self, root, reach):
        """places where ALL keys of the root are observed (iteration, items/keys/values, sorted, len, or the whole
        object handed to a function that iterates its parameter): stale keys of earlier runs would reach them"""
        out = []
        self.iter_params()
        for k in sorted(reach):
            f = self.funcs[k]
            if k in self.DEBUG_DUMPS:
                continue
            for n in ast.walk(f.node):
                it = None
                if isinstance(n, (ast.For, ast.comprehension)):
                    it = n.iter
                elif isinstance(n, ast.Call):
                    fn = n.func
                    if isinstance(fn, ast.Attribute) and fn.attr in ("items", "keys", "values"):
                        it = fn.value
                    elif isinstance(fn, ast.Name) and fn.id in ("sorted", "len", "list", "dict") and n.args:
                        it = n.args[0]
                    else:
                        cands, is_m = self.resolve(n)
                        for g in cands:
                            if "%s.%s" % (g.module, g.qual) in self.DEBUG_DUMPS:
                                continue
                            off = 1 if (g.cls and is_m) else 0
                            for j, a in enumerate(n.args):
                                if (j + off) in g.iter_params_ and root in self.direct_root(f, a):
                                    out.append({"function": k, "line": n.lineno, "what": "whole object passed to %s.%s, which iterates it" % (g.module, g.qual)})
                if it is not None:
                    if isinstance(it, ast.Call) and isinstance(it.func, ast.Attribute) and it.func.attr in ("items", "keys", "values"):
                        it = it.func.value
                    if root in self.direct_root(f, it):
                        out.append({"function": k, "line": getattr(n, "lineno", 0), "what": "iterates / enumerates the whole root"})
        return out

    def iter_params(self):
        if getattr(self, "_iter_done", False):
            return
        for f in self.funcs.values():
            f.iter_params_ = set()
            for n in ast.walk(f.node):
                it = None
                if isinstance(n, (ast.For, ast.comprehension)):
                    it = n.iter
                elif isinstance(n, ast.Call) and isinstance(n.func, ast.Attribute) and n.func.attr in ("items", "keys", "values"):
                    it = n.func.value
                elif isinstance(n, ast.Call) and isinstance(n.func, ast.Name) and n.func.id in ("sorted", "len", "list") and n.args:
                    it = n.args[0]
                if it is not None:
                    if isinstance(it, ast.Call) and isinstance(it.func, ast.Attribute):
                        it = it.func.value
                    if isinstance(it, ast.Name) and it.id in f.params:
                        f.iter_params_.add(f.params.index(it.id))
        self._iter_done = True

    def oblivious(self, root, sites):
        name = root.split(".")[-1]
        for s in sites:
            f = self.funcs[s["function"]]
            # locals that carry something READ from the root (x = root.get(k), x = root[k], x = k in root): a write
            # decided by them is a memo / accumulate pattern -- what an earlier run stored decides what this run does
            tainted = set()
            for n in ast.walk(f.node):
                if isinstance(n, ast.Assign) and any((isinstance(x, ast.Name) and x.id == name) or
                                                     (isinstance(x, ast.Attribute) and x.attr == name) for x in ast.walk(n.value)):
                    for t in n.targets:
                        if isinstance(t, ast.Name):
                            tainted.add(t.id)
            if tainted:
                for n in ast.walk(f.node):
                    if isinstance(n, ast.If) and any(isinstance(x, ast.Name) and x.id in tainted for x in ast.walk(n.test)):
                        if any(getattr(c, "lineno", -1) == s["line"] for c in ast.walk(n)):
                            return False
            for n in ast.walk(f.node):
                if isinstance(n, ast.Assign) and n.lineno == s["line"]:
                    # value must not read the root; no enclosing `if` testing the root
                    for x in ast.walk(n.value):
                        if (isinstance(x, ast.Name) and x.id == name) or (isinstance(x, ast.Attribute) and x.attr == name):
                            return False
            for n in ast.walk(f.node):
                if isinstance(n, ast.If) and any((isinstance(x, ast.Name) and x.id == name) or
                                                 (isinstance(x, ast.Attribute) and x.attr == name) for x in ast.walk(n.test)):
                    if any(getattr(c, "lineno", -1) == s["line"] for c in ast.walk(n)):
                        return False
                    # early exit decided by the root (`if key in ROOT: return ...` before the write): the write is as
                    # conditional on what an earlier run stored as if it stood in the else branch
                    if n.lineno < s["line"] and any(isinstance(c, (ast.Return, ast.Raise, ast.Continue, ast.Break))
                                                    for b in (n.body, n.orelse) for st_ in b for c in ast.walk(st_)):
                        return False
            if tainted:
                for n in ast.walk(f.node):
                    if isinstance(n, ast.If) and n.lineno < s["line"] \
                            and any(isinstance(x, ast.Name) and x.id in tainted for x in ast.walk(n.test)) \
                            and any(isinstance(c, (ast.Return, ast.Raise, ast.Continue, ast.Break))
                                    for b in (n.body, n.orelse) for st_ in b for c in ast.walk(st_)):
                        return False
        return True


def shared_default_mutations(repo):
    """Typemap.defaults holds ONE list/dict object per field with a mutable default ([] / {}); every Typemap instance
    starts out aliasing it (self.__dict__.update(self.defaults)).  Such a field may be re-bound, never mutated in
    place: an in-place append/extend/update/subscript store through any typemap would change every typemap of this
    and of every later run."""
    bad = []
    tm = ast.parse(open(os.path.join(repo, PKG, "typemap.py")).read())
    fields = set()
    for n in ast.walk(tm):
        if isinstance(n, ast.ClassDef) and n.name == "Typemap":
            for c in n.body:
                if isinstance(c, ast.Assign) and isinstance(c.targets[0], ast.Name) and c.targets[0].id == "_order" \
                        and isinstance(c.value, (ast.List, ast.Tuple)):
                    for e in c.value.elts:
                        if isinstance(e, ast.Tuple) and len(e.elts) == 2 and isinstance(e.elts[0], ast.Constant) \
                                and isinstance(e.elts[1], (ast.List, ast.Dict)):
                            fields.add(e.elts[0].value)
    d = os.path.join(repo, PKG)
    for fn in sorted(os.listdir(d)):
        if not fn.endswith(".py"):
            continue
        tree = ast.parse(open(os.path.join(d, fn)).read())
        for n in ast.walk(tree):
            tgt = None
            if isinstance(n, ast.Call) and isinstance(n.func, ast.Attribute) and n.func.attr in MUTATORS:
                tgt = n.func.value
            elif isinstance(n, (ast.Assign, ast.AugAssign)):
                for t in (n.targets if isinstance(n, ast.Assign) else [n.target]):
                    if isinstance(t, ast.Subscript):
                        tgt = t.value
                    elif isinstance(n, ast.AugAssign) and isinstance(t, ast.Attribute):
                        tgt = t
            if isinstance(tgt, ast.Attribute) and tgt.attr in fields:
                bad.append({"file": fn, "line": n.lineno, "what": "in-place mutation of the shared default of Typemap.%s: %s"
                            % (tgt.attr, ast.unparse(n)[:80])})
    return sorted(fields), bad


def output_dir_reads(repo):
    """E3: the emitters only ever open files for writing and never look at what is already in the output directories"""
    bad = []
    d = os.path.join(repo, PKG)
    for fn in sorted(os.listdir(d)):
        if not fn.endswith(".py") or fn in ("main.py", "splicer.py"):
            continue       # main.py reads the input files and searches splicer paths; splicer.py reads splicer files
        tree = ast.parse(open(os.path.join(d, fn)).read())
        main_guard = set()
        for n in tree.body:
            if isinstance(n, ast.If) and "__main__" in ast.unparse(n.test):
                main_guard |= set(id(x) for x in ast.walk(n))
        for n in ast.walk(tree):
            if id(n) in main_guard or not isinstance(n, ast.Call):
                continue
            f = n.func
            if isinstance(f, ast.Name) and f.id == "open":
                mode = n.args[1] if len(n.args) > 1 else next((k.value for k in n.keywords if k.arg == "mode"), None)
                if not (isinstance(mode, ast.Constant) and mode.value == "w"):
                    bad.append({"file": fn, "line": n.lineno, "what": "open() not for plain writing: %s" % ast.unparse(n)[:70]})
            # any other way of getting a file descriptor / object (os.open without O_TRUNC keeps the tail of an older, longer
            # file; os.fdopen, io.open, codecs.open, pathlib ... are not the plain truncating open(path, "w"))
            if isinstance(f, ast.Attribute) and ast.unparse(f) in ("os.open", "os.fdopen", "io.open", "codecs.open", "os.creat", "os.truncate",
                                                                   "os.ftruncate", "shutil.copy", "shutil.copyfile", "shutil.move", "os.rename",
                                                                   "os.replace", "os.remove", "os.unlink"):
                bad.append({"file": fn, "line": n.lineno, "what": "file handled other than by open(path, 'w'): %s" % ast.unparse(n)[:70]})
            if isinstance(f, ast.Attribute) and f.attr in ("exists", "isfile", "isdir", "getmtime", "getsize", "stat", "listdir", "cmp",
                                                           "scandir", "walk", "read", "readlines"):
                base = ast.unparse(f.value)
                if base in ("os.path", "os", "filecmp") or f.attr in ("read", "readlines"):
                    bad.append({"file": fn, "line": n.lineno, "what": "reads the file system: %s" % ast.unparse(n)[:70]})
    return bad


def impure_sources(repo):
    """E2: reads of wall-clock time, environment, host, random, process ids, directory listings in the package"""
    bad = []
    banned_mods = {"time", "datetime", "getpass", "socket", "platform", "random", "uuid", "glob"}
    banned_attrs = {("os", "environ"), ("os", "getpid"), ("os", "listdir"), ("os", "getcwd"), ("os", "getenv"), ("os", "urandom")}
    d = os.path.join(repo, PKG)
    for fn in sorted(os.listdir(d)):
        if not fn.endswith(".py"):
            continue
        tree = ast.parse(open(os.path.join(d, fn)).read())
        main_guard = set()
        for n in tree.body:
            if isinstance(n, ast.If) and "__main__" in ast.unparse(n.test):
                for x in ast.walk(n):
                    main_guard.add(id(x))
        # per function: local names bound to a set-valued expression (constructor, literal, comprehension, set algebra)
        set_locals = {}

        def _is_setexpr(e, known):
            if isinstance(e, (ast.Set, ast.SetComp)):
                return True
            if isinstance(e, ast.Call) and isinstance(e.func, ast.Name) and e.func.id in ("set", "frozenset"):
                return True
            if isinstance(e, ast.Call) and isinstance(e.func, ast.Attribute) and e.func.attr in (
                    "intersection", "union", "difference", "symmetric_difference", "copy") \
                    and (e.func.attr != "copy" or _is_setexpr(e.func.value, known)):
                return True
            if isinstance(e, ast.BinOp) and isinstance(e.op, (ast.BitAnd, ast.BitOr, ast.BitXor, ast.Sub)):
                return _is_setexpr(e.left, known) or _is_setexpr(e.right, known)
            if isinstance(e, ast.Name):
                return e.id in known
            return False
        for fdef in ast.walk(tree):
            if not isinstance(fdef, (ast.FunctionDef, ast.AsyncFunctionDef)):
                continue
            known = set()
            for _round in range(3):
                for a_ in ast.walk(fdef):
                    if isinstance(a_, ast.Assign) and len(a_.targets) == 1 and isinstance(a_.targets[0], ast.Name) \
                            and _is_setexpr(a_.value, known):
                        known.add(a_.targets[0].id)
            if known:
                for x in ast.walk(fdef):
                    if isinstance(x, (ast.For, ast.comprehension, ast.Call)):
                        set_locals[id(x)] = known
        for n in ast.walk(tree):
            if id(n) in main_guard:
                continue
            if isinstance(n, (ast.Import, ast.ImportFrom)):
                names = [a.name.split(".")[0] for a in n.names] if isinstance(n, ast.Import) else [n.module or ""]
                for nm in names:
                    if nm in banned_mods:
                        bad.append({"file": fn, "line": n.lineno, "what": "import %s" % nm})
            if isinstance(n, ast.Attribute) and isinstance(n.value, ast.Name) and (n.value.id, n.attr) in banned_attrs:
                bad.append({"file": fn, "line": n.lineno, "what": "%s.%s" % (n.value.id, n.attr)})
            # the current working directory, read implicitly: abspath / realpath / expanduser, relpath without a start
            if isinstance(n, ast.Call) and ast.unparse(n.func) in ("os.path.abspath", "os.path.realpath", "os.path.expanduser",
                                                                 "os.path.expandvars", "os.chdir"):
                bad.append({"file": fn, "line": n.lineno, "what": "%s (depends on the working directory / environment)" % ast.unparse(n.func)})
            if isinstance(n, ast.Call) and ast.unparse(n.func) == "os.path.relpath" and len(n.args) < 2 \
                    and not any(k.arg == "start" for k in n.keywords):
                bad.append({"file": fn, "line": n.lineno, "what": "os.path.relpath without start (relative to the working directory)"})
            if isinstance(n, ast.Call) and isinstance(n.func, ast.Name) and n.func.id in ("id", "hash"):
                bad.append({"file": fn, "line": n.lineno, "what": "%s() call" % n.func.id})
            # sorted(collection, key=<folding key>): elements the key cannot tell apart keep the order of the collection --
            # deterministic for a list or a dict, hash-seed dependent for a set.  Flagged when the module builds sets that
            # are stored in containers (setdefault(k, set()) / x[k] = set() / .add on a stored value)
            if isinstance(n, ast.Call) and isinstance(n.func, ast.Name) and n.func.id == "sorted" and n.args:
                key = next((k.value for k in n.keywords if k.arg == "key"), None)
                folding = key is not None and any(w in ast.unparse(key) for w in ("upper", "lower", "casefold", "len", "[0]"))
                if folding and not isinstance(n.args[0], (ast.List, ast.Tuple, ast.Dict)) and not (
                        isinstance(n.args[0], ast.Call) and isinstance(n.args[0].func, ast.Attribute) and n.args[0].func.attr in ("keys", "items", "values")):
                    stored_sets = [x for x in ast.walk(tree) if isinstance(x, ast.Call) and isinstance(x.func, ast.Attribute)
                                   and x.func.attr == "setdefault" and len(x.args) == 2 and (
                                       (isinstance(x.args[1], ast.Call) and isinstance(x.args[1].func, ast.Name) and x.args[1].func.id == "set")
                                       or isinstance(x.args[1], ast.Set))]
                    if stored_sets:
                        bad.append({"file": fn, "line": n.lineno,
                                    "what": "sorted(%s, key=%s): a key that ties on different elements, over a collection that may be one of the "
                                            "sets this module stores (line %d): ties fall back to hash order" % (
                                                ast.unparse(n.args[0])[:30], ast.unparse(key)[:20], stored_sets[0].lineno)})
            # a set handed to something that fixes an order: list(set(..)), tuple(..), sep.join(..), x.extend(..), enumerate(..)
            if isinstance(n, ast.Call):
                fname = n.func.id if isinstance(n.func, ast.Name) else n.func.attr if isinstance(n.func, ast.Attribute) else ""
                if fname in ("list", "tuple", "join", "extend", "enumerate", "zip", "map", "filter", "iter", "next", "OrderedDict"):
                    for a_ in n.args:
                        top = a_
                        if isinstance(top, ast.Call) and isinstance(top.func, ast.Name) and top.func.id == "sorted":
                            continue
                        isset = (isinstance(top, ast.Call) and isinstance(top.func, ast.Name) and top.func.id in ("set", "frozenset")) \
                            or isinstance(top, (ast.Set, ast.SetComp)) \
                            or (isinstance(top, ast.Call) and isinstance(top.func, ast.Attribute) and top.func.attr in (
                                "intersection", "union", "difference", "symmetric_difference")) \
                            or (isinstance(top, ast.Name) and top.id in set_locals.get(id(n), ()))
                        if isset:
                            bad.append({"file": fn, "line": n.lineno,
                                        "what": "set turned into a sequence (hash-seed dependent order): %s" % ast.unparse(n)[:60]})
            if isinstance(n, (ast.For, ast.comprehension)):
                it = n.iter
                if isinstance(it, ast.Call) and isinstance(it.func, ast.Name) and it.func.id == "sorted":
                    continue
                # a local NAME that the enclosing function binds to a set expression (both = set(a).intersection(b) ...
                # for hdr in both): same judgement as the expression itself
                if isinstance(it, ast.Name) and it.id in set_locals.get(id(n), ()):
                    bad.append({"file": fn, "line": getattr(n, "lineno", it.lineno),
                                "what": "iteration in set order (hash-seed dependent): %s is bound to a set in this function" % it.id})
                    continue
                for x in ast.walk(it):
                    if (isinstance(x, ast.Call) and isinstance(x.func, ast.Name) and x.func.id in ("set", "frozenset")) \
                            or isinstance(x, (ast.Set, ast.SetComp)) \
                            or (isinstance(x, ast.Call) and isinstance(x.func, ast.Attribute) and x.func.attr in (
                                "intersection", "union", "difference", "symmetric_difference")):
                        bad.append({"file": fn, "line": getattr(n, "lineno", it.lineno),
                                    "what": "iteration in set order (hash-seed dependent): %s" % ast.unparse(it)[:60]})
                        break
    return bad


def input_path_provenance(repo):
    """E2 (working directory): every path main_with_args PROBES or READS (os.path.isfile / exists / isdir, open(..., 'r'))
    is a command-line value (args.X / config.X), or os.path.join(<directory>, ...) -- a bare name taken from the YAML file
    would be looked up in whatever directory the process happens to run in.
    -> (bad, undecided): lists of {"line", "what"}"""
    tree = ast.parse(open(os.path.join(repo, PKG, "main.py")).read())
    fn = [n for n in tree.body if isinstance(n, ast.FunctionDef) and n.name == "main_with_args"]
    if not fn:
        return [], [{"line": 0, "what": "main_with_args not found"}]
    fn = fn[0]
    bad, und = [], []

    def bindings(name):
        """expressions a local name may be bound to; ("elem", e) = an element of the iterable e"""
        out = []
        for n in ast.walk(fn):
            if isinstance(n, ast.Assign):
                for t in n.targets:
                    if isinstance(t, ast.Name) and t.id == name:
                        out.append(("is", n.value))
            elif isinstance(n, (ast.For, ast.comprehension)) and isinstance(n.target, ast.Name) and n.target.id == name:
                out.append(("elem", n.iter))
            elif isinstance(n, ast.Call) and isinstance(n.func, ast.Attribute) and isinstance(n.func.value, ast.Name) \
                    and n.func.value.id == name and n.func.attr in ("append", "extend", "insert") and n.args:
                out.append(("grow-" + n.func.attr, n.args[-1]))
        return out

    def anchored(e, depth=0, as_elem=False):
        """True / False / None (unknown)"""
        if depth > 6:
            return None
        if isinstance(e, ast.Attribute) and isinstance(e.value, ast.Name) and e.value.id in ("args", "config"):
            return True
        if isinstance(e, ast.Call) and ast.unparse(e.func) == "os.path.join" and len(e.args) >= 2:
            return True
        if isinstance(e, ast.Constant):
            if e.value is None:
                return True           # "not found": tested before use
            return True if as_elem and isinstance(e.value, str) else None
        if isinstance(e, (ast.Subscript, ast.Call)) and any(isinstance(x, ast.Name) and x.id == "allinput" for x in ast.walk(e)):
            return False              # text from the YAML file: a file NAME, not a location
        if isinstance(e, (ast.List, ast.Tuple)):
            rs = [anchored(x, depth + 1) for x in e.elts]
            return False if False in rs else (None if None in rs else True)
        if isinstance(e, (ast.GeneratorExp, ast.ListComp)):
            return anchored(e.elt, depth + 1)
        if isinstance(e, ast.Call) and isinstance(e.func, ast.Attribute) and e.func.attr == "split":
            return anchored(e.func.value, depth + 1)        # pieces of a command-line value
        if isinstance(e, ast.Name):
            bs = bindings(e.id)
            if not bs:
                return None
            rs = []
            for kind, v in bs:
                if kind == "elem":
                    # an element of an iterable: the iterable's elements must be anchored
                    if isinstance(v, ast.Name):
                        inner = [anchored(x, depth + 1, True) if k.startswith("grow") or k == "is" else anchored(x, depth + 1)
                                 for k, x in bindings(v.id)]
                        rs.append(False if False in inner else (None if (None in inner or not inner) else True))
                    else:
                        rs.append(anchored(v, depth + 1))
                else:
                    rs.append(anchored(v, depth + 1, as_elem))
            return False if False in rs else (None if None in rs else True)
        return None
    for n in ast.walk(fn):
        if not isinstance(n, ast.Call):
            continue
        f = ast.unparse(n.func)
        arg = None
        if f in ("os.path.isfile", "os.path.exists", "os.path.isdir") and n.args:
            arg = n.args[0]
        elif f == "open" and n.args and (len(n.args) < 2 or (isinstance(n.args[1], ast.Constant) and "r" in str(n.args[1].value))):
            arg = n.args[0]
        elif f in ("splicer.get_splicers", "splicer.get_splicer_based_on_suffix") and n.args:
            arg = n.args[0]
        if arg is None:
            continue
        r = anchored(arg)
        what = "%s(%s)" % (f, ast.unparse(arg)[:50])
        if r is False:
            bad.append({"line": n.lineno, "what": what + ": the path may be a bare name from the input file (looked up in the working directory)"})
        elif r is None:
            und.append({"line": n.lineno, "what": what})
    return bad, und


def escaping_default_mutations(repo):
    """E1 (mutable default arguments): a default value [] / {} / set() is ONE object for the life of the process.  If the
    parameter is stored into an attribute (self.X = param) -- or mutated in the function itself -- and that attribute is
    mutated in place anywhere in the package, every object built with the default shares the mutation, across libraries.
    -> (sites, bad): all (function, parameter, attribute) sites found, and the ones reached by an in-place mutation"""
    MUT = ("append", "extend", "insert", "update", "setdefault", "pop", "remove", "clear", "add", "sort", "reverse")
    d = os.path.join(repo, PKG)
    trees = dict((fn, ast.parse(open(os.path.join(d, fn)).read())) for fn in sorted(os.listdir(d)) if fn.endswith(".py"))
    attr_muts = {}      # attribute name -> [(file, line, text)]
    # classes whose __init__ binds the attribute to a FRESH container: an object just built from such a class is not the default
    fresh_attr = {}
    for fn, tree in trees.items():
        for c in [n for n in ast.walk(tree) if isinstance(n, ast.ClassDef)]:
            for m in c.body:
                if isinstance(m, ast.FunctionDef) and m.name == "__init__":
                    for n in ast.walk(m):
                        if isinstance(n, ast.Assign) and isinstance(n.value, (ast.List, ast.Dict, ast.Set)):
                            for t in n.targets:
                                if isinstance(t, ast.Attribute) and isinstance(t.value, ast.Name) and t.value.id == "self":
                                    fresh_attr.setdefault(t.attr, set()).add(c.name)
    for fn, tree in trees.items():
        parents = {}
        for n in ast.walk(tree):
            for c in ast.iter_child_nodes(n):
                parents[id(c)] = n
        for n in ast.walk(tree):
            tgt = None
            if isinstance(n, ast.Call) and isinstance(n.func, ast.Attribute) and n.func.attr in MUT and isinstance(n.func.value, ast.Attribute):
                tgt = n.func.value.attr
            elif isinstance(n, (ast.Assign, ast.AugAssign)):
                for t in (n.targets if isinstance(n, ast.Assign) else [n.target]):
                    if isinstance(t, ast.Subscript) and isinstance(t.value, ast.Attribute):
                        tgt = t.value.attr
                    if isinstance(n, ast.AugAssign) and isinstance(t, ast.Attribute):
                        tgt = t.attr
            if tgt:
                # receiver freshly built in the same function from a class that gives the attribute its own container
                recv = n.func.value.value if isinstance(n, ast.Call) else None
                if isinstance(recv, ast.Name):
                    cur = n
                    while id(cur) in parents and not isinstance(cur, ast.FunctionDef):
                        cur = parents[id(cur)]
                    binds = [x.value for x in ast.walk(cur) if isinstance(x, ast.Assign) and any(
                        isinstance(t, ast.Name) and t.id == recv.id for t in x.targets)]
                    if binds and all(isinstance(b, ast.Call) and isinstance(b.func, ast.Name) and b.func.id in fresh_attr.get(tgt, ())
                                     for b in binds):
                        continue
                attr_muts.setdefault(tgt, []).append((fn, n.lineno, ast.unparse(n)[:60]))
    sites, bad = [], []
    for fn, tree in trees.items():
        for f in [n for n in ast.walk(tree) if isinstance(n, ast.FunctionDef)]:
            args = f.args.args
            defaults = f.args.defaults
            for a, dv in zip(args[len(args) - len(defaults):], defaults):
                if not isinstance(dv, (ast.List, ast.Dict, ast.Set)) and not (
                        isinstance(dv, ast.Call) and isinstance(dv.func, ast.Name) and dv.func.id in ("list", "dict", "set")):
                    continue
                stored = []
                for n in ast.walk(f):
                    if isinstance(n, ast.Assign) and isinstance(n.value, ast.Name) and n.value.id == a.arg:
                        for t in n.targets:
                            if isinstance(t, ast.Attribute):
                                stored.append(t.attr)
                    if isinstance(n, ast.Call) and isinstance(n.func, ast.Attribute) and n.func.attr in MUT \
                            and isinstance(n.func.value, ast.Name) and n.func.value.id == a.arg:
                        bad.append({"file": fn, "line": n.lineno, "what": "%s: the default object of parameter %r is mutated in place: %s" % (
                            f.name, a.arg, ast.unparse(n)[:50])})
                    if isinstance(n, (ast.Assign, ast.AugAssign)):
                        for t in (n.targets if isinstance(n, ast.Assign) else [n.target]):
                            if isinstance(t, ast.Subscript) and isinstance(t.value, ast.Name) and t.value.id == a.arg:
                                bad.append({"file": fn, "line": n.lineno, "what": "%s: the default object of parameter %r is written: %s" % (
                                    f.name, a.arg, ast.unparse(n)[:50])})
                for attr in stored:
                    sites.append({"file": fn, "function": f.name, "param": a.arg, "attr": attr})
                    for (mf, ml, mt) in attr_muts.get(attr, []):
                        bad.append({"file": mf, "line": ml, "what": "%s.%s(%s=<mutable default>) is kept as .%s, which is mutated in place here: %s" % (
                            fn[:-3], f.name, a.arg, attr, mt)})
    return sites, bad


def global_memos(repo):
    """Process-lifetime memo: a function declares `global X`, assigns X, and tests X in an `if` (build once, reuse on later
    calls -- `if X is not None: return X`).  Whatever X holds then outlives the run that built it: objects reachable from
    it (typemaps, statement rows) carry what that run wrote into them into every later run of the process.  The root
    collector does not see such names when their module-level initial value is None."""
    bad = []
    d = os.path.join(repo, PKG)
    for fn in sorted(os.listdir(d)):
        if not fn.endswith(".py"):
            continue
        tree = ast.parse(open(os.path.join(d, fn)).read())
        for f in ast.walk(tree):
            if not isinstance(f, (ast.FunctionDef, ast.AsyncFunctionDef)):
                continue
            gl = set(nm for n in ast.walk(f) if isinstance(n, ast.Global) for nm in n.names)
            if not gl:
                continue
            assigned = set(t.id for n in ast.walk(f) if isinstance(n, (ast.Assign, ast.AugAssign))
                           for t in (n.targets if isinstance(n, ast.Assign) else [n.target]) if isinstance(t, ast.Name))
            for n in ast.walk(f):
                if isinstance(n, (ast.If, ast.IfExp)):
                    tested = set(x.id for x in ast.walk(n.test) if isinstance(x, ast.Name))
                    for nm in sorted(gl & assigned & tested):
                        bad.append({"file": fn, "line": n.lineno, "function": f.name,
                                    "what": "global %s is tested and assigned in %s: a value built by one run is reused by later runs" % (nm, f.name)})
    return bad
