"""Comment-only judgement (DESIGN.md 6/C16): the documentation/debug options influence the output only through
comment lines and blank lines.

E1 guard discipline  every read of debug, debug_index, doxygen, literalinclude, show_splicer_comments (option
                     scopes) and write_version (config) is the test of an `if`, or initialises a local that is used
                     only as such a test / as comment text.
E2 guarded effects   the statements controlled by such a test may only append comment lines or blank lines to output
                     lists, call procedures that are themselves comment-only, or assign locals that are used only in
                     such appends (right-hand sides without side effects).
A string expression is a comment line if it is built from a leading comment prefix (literal `//`, `/*`, ` *`, `!`,
`--`, self.comment, self.doxygen_begin/_cont/_end, cstart/cend/fstart/fend) followed by anything, every line of a
literal template starting with such a prefix; or the empty string.
The judgement is syntactic, function by function over the real AST."""
import ast
import os

OPTS = {"debug", "debug_index", "doxygen", "literalinclude", "show_splicer_comments"}
CONFIG_OPTS = {"write_version"}
COMMENT_PREFIXES = ("//", "/*", " *", "*/", "!", "--")
COMMENT_NAMES = {"comment", "doxygen_begin", "doxygen_cont", "doxygen_end", "cstart", "cend", "fstart", "fend", "lstart", "lend"}
COMMENT_PROCS = {"write_doxygen", "write_doxygen_file", "document_stmts", "print", "write_copyright", "info", "trace"}
PKG = "shroud"


def literal_is_comment(text):
    if text == "":
        return True
    inblock = False
    for line in text.split("\n"):
        l = line.lstrip("\t+-@^ ") if not inblock else line
        if l == "":
            continue
        if inblock:
            if "*/" in l:
                inblock = False
            continue
        if l.startswith("/*"):
            if "*/" not in l:
                inblock = True
            continue
        if not l.startswith(COMMENT_PREFIXES):
            return False
    return True


class Judge(object):
    def __init__(self, repo):
        self.repo = repo
        self.items = []     # (ident, ok, detail)

    def is_opt_read(self, n):
        if isinstance(n, ast.Attribute) and isinstance(n.ctx, ast.Load):
            if n.attr in OPTS and isinstance(n.value, (ast.Attribute, ast.Name)):
                base = n.value
                bname = base.attr if isinstance(base, ast.Attribute) else base.id
                return bname in ("options",)
            if n.attr in CONFIG_OPTS and isinstance(n.value, (ast.Attribute, ast.Name)):
                bname = n.value.attr if isinstance(n.value, ast.Attribute) else n.value.id
                return bname in ("config",)
        return False

    def comment_expr(self, e, locals_ok):
        """is the string expression certainly a comment line (or blank)?"""
        # a comment that carries line-break hints (tab / form feed: a literal, or a rendering asked to place them with
        # continuation=True) is continued by write_continue on a line WITHOUT the comment leader: its tail becomes code
        for x in ast.walk(e):
            if isinstance(x, ast.Name) and x.id in getattr(self, "hinted", ()):
                return False
            if isinstance(x, ast.Constant) and isinstance(x.value, str) and ("\t" in x.value or "\f" in x.value):
                return False
            if isinstance(x, ast.Call) and any(k.arg == "continuation" and not (isinstance(k.value, ast.Constant) and k.value.value is False)
                                               for k in x.keywords):
                return False
        if isinstance(e, ast.Constant):
            return isinstance(e.value, str) and literal_is_comment(e.value) or isinstance(e.value, int) and False
        if isinstance(e, ast.Attribute) and e.attr in COMMENT_NAMES:
            return True
        if isinstance(e, ast.Name) and (e.id in COMMENT_NAMES or e.id in locals_ok):
            return True
        if isinstance(e, ast.BinOp) and isinstance(e.op, ast.Add):
            return self.comment_expr(self.leftmost(e), locals_ok)
        if isinstance(e, ast.BinOp) and isinstance(e.op, ast.Mod):
            if self.comment_expr(e.left, locals_ok):
                return True
            # "%s ..." % (self.comment, ...): the first field is the comment prefix
            if isinstance(e.left, ast.Constant) and isinstance(e.left.value, str) and e.left.value.startswith("%s") \
                    and "\n" not in e.left.value.rstrip("\n"):
                first = e.right.elts[0] if isinstance(e.right, ast.Tuple) and e.right.elts else e.right
                return self.comment_expr(first, locals_ok)
            return False
        if isinstance(e, ast.Call) and isinstance(e.func, ast.Attribute) and e.func.attr == "format":
            if self.comment_expr(e.func.value, locals_ok):
                return True
            t = e.func.value
            if isinstance(t, ast.Constant) and isinstance(t.value, str) and t.value.startswith("{}") \
                    and "\n" not in t.value.rstrip("\n") and e.args:
                return self.comment_expr(e.args[0], locals_ok)
            return False
        if isinstance(e, ast.Call) and isinstance(e.func, ast.Name) and e.func.id == "wformat" and e.args:
            return self.comment_expr(e.args[0], locals_ok)
        if isinstance(e, ast.JoinedStr):
            return bool(e.values) and isinstance(e.values[0], ast.Constant) and literal_is_comment(e.values[0].value)
        return False

    USER_TEXT_ATTRS = {"decl", "doxygen", "description", "brief", "splicer", "cxx_template", "C_code", "F_code"}

    def has_user_text(self, e):
        """an interpolated field that is raw user text (may contain a newline: the rest would not be a comment)"""
        for x in ast.walk(e):
            if isinstance(x, ast.Attribute) and x.attr in self.USER_TEXT_ATTRS and isinstance(x.ctx, ast.Load):
                return ast.unparse(x)
        return None

    def leftmost(self, e):
        while isinstance(e, ast.BinOp) and isinstance(e.op, ast.Add):
            e = e.left
        return e

    def pure_expr(self, e):
        for n in ast.walk(e):
            if isinstance(n, ast.Call):
                fn = n.func
                name = fn.id if isinstance(fn, ast.Name) else fn.attr
                if name not in ("format", "join", "gen_decl", "gen_arg_as_c", "gen_arg_as_cxx", "compute_name", "str", "len", "upper",
                                "lower", "wformat", "get", "replace", "split", "sorted", "repr", "dict", "list", "items", "keys"):
                    return False
        return True

    def stmt_comment_only(self, st, locals_ok):
        """-> (ok, reason)"""
        if isinstance(st, ast.Pass):
            return True, ""
        if isinstance(st, ast.Expr) and isinstance(st.value, ast.Constant):
            return True, ""
        if isinstance(st, ast.Expr) and isinstance(st.value, ast.Call):
            c = st.value
            fn = c.func
            name = fn.id if isinstance(fn, ast.Name) else fn.attr
            if name == "append" and len(c.args) == 1:
                ut = self.has_user_text(c.args[0])
                if ut:
                    return False, "comment line interpolates raw user text %s (a second line of it would be emitted as code)" % ut
                if self.comment_expr(c.args[0], locals_ok):
                    return True, ""
                return False, "appends a line that is not certainly a comment: %s" % ast.unparse(c.args[0])[:80]
            if name == "extend" and len(c.args) == 1 and isinstance(c.args[0], (ast.List, ast.Tuple)):
                bad = [x for x in c.args[0].elts if not self.comment_expr(x, locals_ok)]
                return (not bad), ("extends with a non-comment line: %s" % ast.unparse(bad[0])[:80] if bad else "")
            if name in ("append_format",) and len(c.args) >= 2:
                if self.comment_expr(c.args[1], locals_ok):
                    return True, ""
                return False, "append_format of a template that is not certainly a comment: %s" % ast.unparse(c.args[1])[:80]
            if name in COMMENT_PROCS:
                return True, ""
            if name == "extend" and len(c.args) == 1 and isinstance(c.args[0], ast.Name) and c.args[0].id in self.comment_lists:
                return True, ""
            if name == "write" and c.args and self.comment_expr(c.args[0], locals_ok):
                return True, ""
            return False, "calls %s(), which is not known to be comment-only" % name
        if isinstance(st, ast.Assign):
            if all(isinstance(t, ast.Name) for t in st.targets) and self.pure_expr(st.value):
                for t in st.targets:
                    locals_ok.add(t.id)
                return True, ""
            return False, "assignment with effects: %s" % ast.unparse(st)[:80]
        if isinstance(st, (ast.Break, ast.Continue)):
            # leaving (or cutting short) a loop under a documentation option is harmless only if everything the loop does
            # is itself documentation: it computes option-derived flags or emits comments.  Otherwise the option decides
            # how much of the loop's other work is done.
            cur = st
            loop = None
            while id(cur) in self.parents:
                cur = self.parents[id(cur)]
                if isinstance(cur, (ast.For, ast.While)):
                    loop = cur
                    break
            if loop is None:
                return False, "break/continue outside a loop"
            ok, why = self.loop_is_documentation_only(loop, locals_ok)
            if not ok:
                return False, "%s under a documentation/debug option leaves a loop that also does other work (%s)" % (
                    type(st).__name__.lower(), why)
            return True, ""
        if isinstance(st, ast.If):
            for b in st.body + st.orelse:
                ok, why = self.stmt_comment_only(b, locals_ok)
                if not ok:
                    return False, why
            return True, ""
        if isinstance(st, ast.For):
            if not self.pure_expr(st.iter):
                return False, "loop over an expression with effects"
            for x in ast.walk(st.target):
                if isinstance(x, ast.Name):
                    # the loop variable must be the loop's own: re-binding a name that the function reads again after the
                    # loop makes what that later code sees depend on the documentation option
                    later = self.read_after(st, x.id)
                    if later is not None and self.bound_before(st, x.id):
                        return False, "the comment loop re-binds %r, which line %d reads afterwards" % (x.id, later)
                    locals_ok.add(x.id)
            for b in st.body:
                ok, why = self.stmt_comment_only(b, locals_ok)
                if not ok:
                    return False, why
            return True, ""
        return False, "statement kind %s under a documentation/debug option" % type(st).__name__

    def user_text_lines(self):
        """'no newline in an interpolated comment field' for the user-supplied doxygen texts: inside write_doxygen every
        docs[...] value reaches the output one line at a time (split on newline, each line prefixed)."""
        tree = ast.parse(open(os.path.join(self.repo, PKG, "util.py")).read())
        for func in [n for n in ast.walk(tree) if isinstance(n, ast.FunctionDef) and n.name == "write_doxygen"]:
            for n in ast.walk(func):
                if isinstance(n, ast.Call) and isinstance(n.func, ast.Attribute) and n.func.attr == "append" and n.args:
                    for x in ast.walk(n.args[0]):
                        if isinstance(x, ast.Subscript) and isinstance(x.value, ast.Name) and x.value.id == "docs":
                            key = x.slice.value if isinstance(x.slice, ast.Constant) else "?"
                            self.items.append(("C16/util.py:write_doxygen:%d:docs[%s]-single-line" % (n.lineno, key), False,
                                               "user text docs[%r] is interpolated into ONE comment line: a second line of the "
                                               "text is emitted without the comment prefix" % key))
            for n in ast.walk(func):
                if isinstance(n, ast.Assign) and isinstance(n.value, ast.List) and len(n.value.elts) == 1 \
                        and isinstance(n.value.elts[0], ast.Name) and n.value.elts[0].id in ("desc", "brief", "text"):
                    self.items.append(("C16/util.py:write_doxygen:%d:%s-not-split" % (n.lineno, n.value.elts[0].id), False,
                                       "user text is used as ONE line without splitting at newlines: %s" % ast.unparse(n)))
        return self.items

    def run(self):
        self.user_text_lines()
        d = os.path.join(self.repo, PKG)
        for fn in sorted(os.listdir(d)):
            if not fn.endswith(".py") or fn in ("ast.py", "main.py", "todict.py"):
                continue     # ast.py defines the options; main.py sets config.write_version; todict.py is the JSON debug dump
            tree = ast.parse(open(os.path.join(d, fn)).read())
            self.cur_tree = tree
            self.module_funcs = set(n.name for n in ast.walk(tree) if isinstance(n, ast.FunctionDef))
            for func in [n for n in ast.walk(tree) if isinstance(n, ast.FunctionDef)]:
                self.judge_function(fn, func)
        return self.items

    def find_comment_lists(self, func):
        """local lists that only ever receive comment lines (directly or through a comment-only procedure)"""
        cands = set()
        for n in ast.walk(func):
            if isinstance(n, ast.Assign) and len(n.targets) == 1 and isinstance(n.targets[0], ast.Name) \
                    and isinstance(n.value, ast.List) and not n.value.elts:
                cands.add(n.targets[0].id)
        ok = set(cands)
        for n in ast.walk(func):
            if isinstance(n, ast.Call) and isinstance(n.func, ast.Attribute) and isinstance(n.func.value, ast.Name) \
                    and n.func.value.id in cands:
                if n.func.attr == "append" and n.args and self.comment_expr(n.args[0], set()):
                    continue
                ok.discard(n.func.value.id)
            if isinstance(n, ast.Call):
                name = n.func.id if isinstance(n.func, ast.Name) else getattr(n.func, "attr", "")
                local_defs = getattr(self, "module_funcs", set())
                for a in n.args:
                    if isinstance(a, ast.Name) and a.id in cands and name not in COMMENT_PROCS and name != "extend" \
                            and name not in local_defs:
                        ok.discard(a.id)
        return ok

    def param_comment_lists(self, func):
        """parameters that every call site in the module binds to a comment list of the caller (or omits / None)"""
        out = set()
        params = [a.arg for a in func.args.args]
        for idx, pn in enumerate(params):
            sites, good = 0, True
            for caller in [n for n in ast.walk(self.cur_tree) if isinstance(n, ast.FunctionDef)]:
                cl = None
                for c in ast.walk(caller):
                    if isinstance(c, ast.Call) and getattr(c.func, "attr", getattr(c.func, "id", "")) == func.name:
                        off = 1 if isinstance(c.func, ast.Attribute) and params and params[0] == "self" else 0
                        j = idx - off
                        arg = c.args[j] if 0 <= j < len(c.args) else None
                        for k in c.keywords:
                            if k.arg == pn:
                                arg = k.value
                        if arg is None or (isinstance(arg, ast.Constant) and arg.value is None):
                            continue
                        sites += 1
                        if cl is None:
                            cl = self.find_comment_lists(caller)
                        if isinstance(arg, ast.List) and all(self.comment_expr(x, set()) for x in arg.elts):
                            continue
                        if not (isinstance(arg, ast.Name) and arg.id in cl):
                            good = False
            if sites and good:
                out.add(pn)
        return out

    def _func_of(self, node):
        cur = node
        while id(cur) in self.parents:
            cur = self.parents[id(cur)]
            if isinstance(cur, ast.FunctionDef):
                return cur
        return None

    def bound_before(self, loop, name):
        f = self._func_of(loop)
        if f is None:
            return False
        if name in [a.arg for a in f.args.args]:
            return True
        for n in ast.walk(f):
            if getattr(n, "lineno", 10 ** 9) < loop.lineno:
                if isinstance(n, ast.Name) and n.id == name and isinstance(n.ctx, ast.Store):
                    return True
        return False

    def read_after(self, loop, name):
        """line of a read of `name` after the loop (not preceded by a new binding on every path is not analysed: any
        later read counts unless an unconditional re-binding at function level comes first)"""
        f = self._func_of(loop)
        if f is None:
            return None
        end = loop.end_lineno
        rebinding = [st.lineno for st in f.body if st.lineno > end and isinstance(st, (ast.Assign, ast.For)) and any(
            isinstance(x, ast.Name) and x.id == name and isinstance(x.ctx, ast.Store) for x in ast.walk(st.targets[0] if isinstance(st, ast.Assign) else st.target))]
        stop = min(rebinding) if rebinding else 10 ** 9
        # reads inside another documentation-guarded region (its test included) only steer comments: judged there
        guarded = set()
        for n in ast.walk(f):
            if isinstance(n, ast.If) and self.test_is_option(n.test, getattr(self, "tainted", set())):
                for x in ast.walk(n):
                    guarded.add(id(x))
        reads = sorted(n.lineno for n in ast.walk(f) if isinstance(n, ast.Name) and n.id == name and isinstance(n.ctx, ast.Load)
                       and end < n.lineno < stop and id(n) not in guarded)
        return reads[0] if reads else None

    def loop_is_documentation_only(self, loop, locals_ok):
        def flag_only(b):
            if isinstance(b, (ast.Break, ast.Continue, ast.Pass)):
                return True, ""
            if isinstance(b, ast.If):
                for x in b.body + b.orelse:
                    ok, why = flag_only(x)
                    if not ok:
                        return ok, why
                return True, ""
            if isinstance(b, ast.Assign):
                if all(isinstance(t, ast.Name) and t.id in self.tainted for t in b.targets) and self.pure_expr(b.value):
                    return True, ""
                return False, "it assigns %s" % ast.unparse(b)[:60]
            if isinstance(b, ast.Expr):
                return self.stmt_comment_only(b, set(locals_ok))
            return False, "it contains a %s statement" % type(b).__name__
        for b in loop.body:
            ok, why = flag_only(b)
            if not ok:
                return False, why
        return True, ""

    def judge_function(self, fn, func):
        self.comment_lists = self.find_comment_lists(func) | self.param_comment_lists(func)
        parents = {}
        for n in ast.walk(func):
            for c in ast.iter_child_nodes(n):
                parents[id(c)] = n
        self.parents = parents
        # locals bound (anywhere in the function) to a text with line-break hints
        self.hinted = set()
        for n in ast.walk(func):
            if isinstance(n, ast.Assign) and len(n.targets) == 1 and isinstance(n.targets[0], ast.Name):
                for x in ast.walk(n.value):
                    if isinstance(x, ast.Call) and any(k.arg == "continuation" and not (isinstance(k.value, ast.Constant) and k.value.value is False)
                                                       for k in x.keywords):
                        self.hinted.add(n.targets[0].id)
        tainted = set()      # locals holding an option value (or computed only from them)
        # collect tainted locals: x = <option read> / x = True|False under an option test
        for n in ast.walk(func):
            if isinstance(n, ast.Assign) and len(n.targets) == 1 and isinstance(n.targets[0], ast.Name):
                if any(self.is_opt_read(x) for x in ast.walk(n.value)):
                    tainted.add(n.targets[0].id)
        changed = True
        while changed:
            changed = False
            for n in ast.walk(func):
                if isinstance(n, ast.If) and self.test_is_option(n.test, tainted):
                    for st in ast.walk(n):
                        if isinstance(st, ast.Assign) and len(st.targets) == 1 and isinstance(st.targets[0], ast.Name) \
                                and isinstance(st.value, ast.Constant) and isinstance(st.value.value, bool):
                            if st.targets[0].id not in tainted:
                                tainted.add(st.targets[0].id)
                                changed = True
        self.tainted = tainted
        # flag locals: assignments `x = False` elsewhere keep them boolean flags
        reads = [n for n in ast.walk(func) if self.is_opt_read(n) or (isinstance(n, ast.Name) and isinstance(n.ctx, ast.Load) and n.id in tainted)]
        seen_ifs = set()
        for r in reads:
            ident = "C16/%s:%s:%d:%s" % (fn, func.name, r.lineno, ast.unparse(r)[:40])
            # climb to the statement
            cur = r
            in_test = None
            while id(cur) in parents:
                p = parents[id(cur)]
                if isinstance(p, ast.If) and cur is p.test or (isinstance(p, (ast.BoolOp, ast.UnaryOp, ast.Compare)) and False):
                    in_test = p
                    break
                if isinstance(p, ast.stmt):
                    in_test = (p, "stmt")
                    break
                cur = p
            if in_test is None:
                self.items.append((ident, False, "option read outside any statement"))
                continue
            if isinstance(in_test, tuple):
                st = in_test[0]
                # allowed: x = <option read> (taint), or use of tainted local as argument of a comment append / format
                if isinstance(st, ast.Assign) and len(st.targets) == 1 and isinstance(st.targets[0], ast.Name) \
                        and (st.value is r or isinstance(st.value, (ast.BoolOp, ast.UnaryOp, ast.Compare))):
                    self.items.append((ident, True, "initialises the local flag %s" % st.targets[0].id))
                    continue
                if isinstance(st, ast.If):
                    in_test = st      # read inside a compound test (a and b)
                else:
                    ok, why = self.stmt_comment_only(st, set(tainted))
                    self.items.append((ident, ok, why or "used in comment text only"))
                    continue
            node = in_test
            if id(node) in seen_ifs:
                self.items.append((ident, True, "same test as above"))
                continue
            seen_ifs.add(id(node))
            locals_ok = set(tainted)
            ok, why = True, ""
            for b in node.body + node.orelse:
                if isinstance(b, ast.If) and node.orelse and b is node.orelse[0] and False:
                    pass
                ok, why = self.stmt_comment_only(b, locals_ok)
                if not ok:
                    break
            self.items.append((ident, ok, why or "guards comment lines only"))

    def test_is_option(self, test, tainted):
        for n in ast.walk(test):
            if self.is_opt_read(n) or (isinstance(n, ast.Name) and n.id in tainted):
                return True
        return False
