"""Process-history independence of a driver run (shared by C07, C14, C15).
A second main_with_args / create_wrapper call in one Python process must behave as a fresh command line: every module-
or class-level mutable root reachable from main_with_args is either never mutated (J1), re-bound to a fresh value
unconditionally before use (J2), or only written by key obliviously (J3).  The judgement is effects/roots.py; a FAIL is
replayed with the bounded in-process-sequence monitor m_purity."""
import ast
import os
from checklib import REPO
from effects.roots import Analysis


def history_items(ctx, prop, what, select=lambda root, v: True, count=70):
    a = Analysis(REPO).run()
    verdicts = a.judge()
    cache = {}

    def replay():
        if "r" not in cache:
            try:
                cache["r"] = ctx.monitor("m_purity", "search", count, ctx.seed)
            except Exception as e:
                cache["r"] = {"violation": None, "error": str(e)}
        return cache["r"]
    n = 0
    for root, v in sorted(verdicts.items()):
        if not select(root, v):
            continue
        n += 1
        ident = "%s/history/root:%s" % (prop, root)
        if v["verdict"] != "FAIL":
            ctx.item(ident, True, sample={"root": root, "justification": v["verdict"], "why": v["why"][:120], "for": what})
            continue
        k = ctx.known_open(ident)
        if k is not None:
            ctx.report_known(k)
            continue
        ctx.obligations += 1
        r = replay()
        ctx.violation(ident, {"root": root, "verdict": v["why"], "mutation_sites": v["sites"], "inputs": r.get("inputs"),
                              "observed": r.get("violation"), "for": what}, bool(r.get("violation")))
    return n


def fresh_per_run_lists(ctx, prop, attrs=("cfiles", "ffiles", "pyfiles")):
    """the lists the emitters register files in are created afresh for every run: Config.__init__ binds each to a new
    empty list at its top level, and main_with_args builds its Config() unconditionally at its own top level"""
    tree = ast.parse(open(os.path.join(REPO, "shroud/main.py")).read())
    cfg = [n for n in tree.body if isinstance(n, ast.ClassDef) and n.name == "Config"]
    mwa = [n for n in tree.body if isinstance(n, ast.FunctionDef) and n.name == "main_with_args"]
    init = [m for m in (cfg[0].body if cfg else []) if isinstance(m, ast.FunctionDef) and m.name == "__init__"]
    for x in attrs:
        ok = False
        for st in (init[0].body if init else []):
            if isinstance(st, ast.Assign) and isinstance(st.value, ast.List) and not st.value.elts:
                for t in st.targets:
                    if isinstance(t, ast.Attribute) and isinstance(t.value, ast.Name) and t.value.id == "self" and t.attr == x:
                        ok = True
        ctx.item("%s/history/Config.%s:fresh-per-instance" % (prop, x), ok,
                 "Config.__init__ does not bind self.%s to a new empty list: the list of files written is shared "
                 "between runs in one process (--cfiles/--ffiles would name files of earlier runs)" % x,
                 sample={"attribute": x, "rule": "self.%s = [] at the top level of Config.__init__" % x},
                 confirm=lambda: ctx.monitor("m_purity", "search", 70, ctx.seed), shape=True)
    ok = False
    for st in (mwa[0].body if mwa else []):
        if isinstance(st, ast.Assign) and isinstance(st.value, ast.Call) and getattr(st.value.func, "id", "") == "Config" \
                and not st.value.args and not st.value.keywords:
            ok = True
    ctx.item("%s/history/main_with_args:new-Config-per-run" % prop, ok,
             "main_with_args does not build a new Config() unconditionally at its top level",
             confirm=lambda: ctx.monitor("m_purity", "search", 70, ctx.seed), shape=True)
