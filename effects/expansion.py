"""C08 frame conditions on the expansion pass (shroud/generate.py), decided by evaluation over the real AST on every run.

E1  the lists the user gives for one declaration (default_arg_suffix, fortran_generic, cxx_template, template_arguments)
    are READ by the expansion, never consumed or edited in place: node clones share them (FunctionNode.clone and
    ClassNode.clone are shallow), so an in-place edit for one instantiation changes the names of the next.
E2  which functions form an overload set (the grouping loop of define_function_suffix) does not depend on the wrapper
    selection: Python numbers its implementations by the same suffix whether or not a C wrapper exists.
E3  a default-argument variant inherits the format fields of its function except function_suffix (the one field that
    must differ between the variants): the generic name, explicit or templated, stays the C++ name's.
"""
import ast
import os

MUTATORS = {"pop", "append", "remove", "insert", "extend", "clear", "sort", "reverse"}
INPUT_LISTS = {"default_arg_suffix", "fortran_generic", "cxx_template", "template_arguments"}


def _funcs(tree):
    for n in ast.walk(tree):
        if isinstance(n, (ast.FunctionDef,)):
            yield n


def _root_is_input(e, aliases):
    if isinstance(e, ast.Attribute) and e.attr in INPUT_LISTS:
        return e.attr
    if isinstance(e, ast.Name) and e.id in aliases:
        return aliases[e.id]
    return None


def input_lists_not_consumed(ctx, prop, repo, confirm=None):
    src = open(os.path.join(repo, "shroud", "generate.py")).read()
    tree = ast.parse(src)
    n = 0
    for fn in _funcs(tree):
        aliases = {}
        for a in ast.walk(fn):
            if isinstance(a, ast.Assign) and len(a.targets) == 1 and isinstance(a.targets[0], ast.Name) and \
                    isinstance(a.value, ast.Attribute) and a.value.attr in INPUT_LISTS:
                aliases[a.targets[0].id] = a.value.attr
        bad = []
        # a function that first re-binds the attribute to a list of its own (list(...), [...], a + b) edits its own copy
        fresh = {}
        for a in ast.walk(fn):
            if isinstance(a, ast.Assign) and len(a.targets) == 1 and isinstance(a.targets[0], ast.Attribute) and \
                    a.targets[0].attr in INPUT_LISTS and (
                        isinstance(a.value, (ast.List, ast.ListComp, ast.BinOp)) or
                        isinstance(a.value, ast.Call) and isinstance(a.value.func, ast.Name) and a.value.func.id == "list") and \
                    a in fn.body:
                fresh.setdefault(a.targets[0].attr, a.lineno)
        for a in ast.walk(fn):
            if isinstance(a, ast.Call) and isinstance(a.func, ast.Attribute) and a.func.attr in MUTATORS:
                r = _root_is_input(a.func.value, aliases)
                if r and isinstance(a.func.value, ast.Attribute) and r in fresh and fresh[r] < a.lineno:
                    continue
                if r:
                    bad.append((a.lineno, "%s.%s()" % (r, a.func.attr)))
            if isinstance(a, ast.Delete):
                for t in a.targets:
                    if isinstance(t, ast.Subscript) and _root_is_input(t.value, aliases):
                        bad.append((a.lineno, "del %s[...]" % _root_is_input(t.value, aliases)))
            if isinstance(a, (ast.Assign, ast.AugAssign)):
                ts = a.targets if isinstance(a, ast.Assign) else [a.target]
                for t in ts:
                    if isinstance(t, ast.Subscript) and _root_is_input(t.value, aliases):
                        bad.append((a.lineno, "%s[...] = " % _root_is_input(t.value, aliases)))
                if isinstance(a, ast.AugAssign) and _root_is_input(a.target, aliases):
                    bad.append((a.lineno, "%s += " % _root_is_input(a.target, aliases)))
        reads = [x for x in ast.walk(fn) if isinstance(x, ast.Attribute) and x.attr in INPUT_LISTS]
        if not reads:
            continue
        n += 1
        ctx.item("%s/E1/generate.py::%s.input-lists-read-only" % (prop, fn.name), not bad,
                 "the per-declaration lists of the input are shared by shallow node clones; edited in place here: %r" % bad,
                 sample={"function": fn.name, "reads": sorted({x.attr for x in reads})}, confirm=confirm, shape=True)
    ctx.item("%s/E1/reached" % prop, n >= 3, "expansion functions reading the input lists: %d" % n)


def _find(tree, cls, name):
    for c in ast.walk(tree):
        if isinstance(c, ast.ClassDef) and c.name == cls:
            for f in c.body:
                if isinstance(f, ast.FunctionDef) and f.name == name:
                    return f
    return None


def grouping_ignores_selection(ctx, prop, repo, confirm=None):
    tree = ast.parse(open(os.path.join(repo, "shroud", "generate.py")).read())
    fn = _find(tree, "GenFunctions", "define_function_suffix")
    loop = None
    for a in ast.walk(fn) if fn else []:
        if isinstance(a, ast.For) and isinstance(a.iter, ast.Name) and a.iter.id == "ordered_functions" and \
                any(isinstance(x, ast.Attribute) and x.attr == "setdefault" for x in ast.walk(a)):
            loop = a
    ctx.item("%s/E2/reached" % prop, loop is not None, "grouping loop of define_function_suffix not found")
    if loop is None:
        return
    bad = []
    for a in ast.walk(loop):
        if isinstance(a, ast.If) and any(isinstance(x, ast.Continue) for s in a.body for x in ast.walk(s)):
            for x in ast.walk(a.test):
                if isinstance(x, ast.Attribute) and (x.attr == "wrap" or x.attr.startswith("wrap_")):
                    bad.append((a.lineno, ast.unparse(a.test)))
    ctx.item("%s/E2/define_function_suffix.grouping-ignores-wrapper-selection" % prop, not bad,
             "a function is left out of its overload set depending on the wrapper selection: %r" % bad,
             sample={"loop_line": loop.lineno}, confirm=confirm, shape=True)


def variant_inherits_format(ctx, prop, repo, confirm=None):
    tree = ast.parse(open(os.path.join(repo, "shroud", "generate.py")).read())
    fn = _find(tree, "GenFunctions", "has_default_args")
    ctx.item("%s/E3/reached" % prop, fn is not None, "has_default_args not found")
    if fn is None:
        return
    dropped = []
    for a in ast.walk(fn):
        if isinstance(a, ast.Call) and isinstance(a.func, ast.Attribute) and a.func.attr == "delattrs" and a.args:
            try:
                dropped += list(ast.literal_eval(a.args[0]))
            except Exception:
                dropped.append("<computed>")
        if isinstance(a, ast.Call) and isinstance(a.func, ast.Attribute) and a.func.attr == "delattr" and a.args:
            try:
                dropped.append(ast.literal_eval(a.args[0]))
            except Exception:
                dropped.append("<computed>")
    extra = sorted(set(dropped) - {"function_suffix"})
    keeps_generic = "F_name_generic" not in extra and "<computed>" not in extra
    ctx.item("%s/E3/has_default_args.variant-keeps-generic-name" % prop, keeps_generic,
             "the default-argument variant drops %r from its inherited format: its specific no longer joins the generic "
             "interface of the C++ name" % extra, sample={"dropped": dropped}, confirm=confirm, shape=True)
