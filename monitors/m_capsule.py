"""Executable form of the capsule-table contract (C06/U1) on the real Wrapc methods: after any sequence of
add_capsule_code / add_destructor calls the table is well formed, indices are stable and returned correctly."""
import itertools
import random


def wf(w):
    code, order = w.capsule_code, w.capsule_order
    if len(code) != len(order) or len(set(order)) != len(order):
        return "table not well formed: %r %r" % (order, sorted(code))
    for i, n in enumerate(order):
        if n not in code or code[n][0] != str(i):
            return "entry %r at position %d has index %r" % (n, i, code.get(n))
    return None


def check(inp):
    from shroud import wrapc, util
    w = object.__new__(wrapc.Wrapc)
    w.capsule_code, w.capsule_order, w.capsule_include = {}, [], {}
    w.add_capsule_code("--none--", None, ["// Nothing to delete"])
    fmt = util.Scope(None, cxx_type="T")
    seen = {}
    for op, name in inp["ops"]:
        before = dict((k, v[0]) for k, v in w.capsule_code.items())
        if op == "add":
            r = w.add_capsule_code(name, None, ["delete " + name])
        else:
            r = w.add_destructor(fmt, name, ["free({cxx_type})"], None)
        e = wf(w)
        if e:
            return e
        if r != str(w.capsule_order.index(name)):
            return "returned index %r for %r, position is %d" % (r, name, w.capsule_order.index(name))
        for k, v in before.items():
            if w.capsule_code[k][0] != v:
                return "index of %r changed from %r to %r" % (k, v, w.capsule_code[k][0])
        if name in seen and seen[name] != r:
            return "name %r got two indices" % name
        seen[name] = r
    return None


def candidates(seed, around=None):
    names = ["a", "b", "c", "--none--"]
    for n in range(1, 5):
        for tup in itertools.product([(o, x) for o in ("add", "dtor") for x in names], repeat=n):
            yield {"ops": [list(t) for t in tup]}
    rnd = random.Random(seed)
    while True:
        yield {"ops": [[rnd.choice(["add", "dtor"]), rnd.choice(names + ["d", "e"])] for _ in range(rnd.randint(1, 12))]}
