"""util.Scope executable contract (C14/U1): the real class against the abstract view of contracts/util_scope.py --
a chain of dictionaries, lookup = first dictionary of the chain that has the key.  An input is a program over three
scopes (root <- mid <- leaf, plus a sibling of leaf under mid); after every operation the views of ALL scopes are compared
with the reference model, so a write that leaks into a parent or a sibling is seen.  Bounded; used for replay and as
stand-in when a unit is undecided."""
import itertools
import random

KEYS = ["a", "b", "c"]


class Ref(object):
    def __init__(self, parent):
        self.d, self.parent = {}, parent

    def has(self, k):
        return k in self.d or (self.parent is not None and self.parent.has(k))

    def get(self, k):
        return self.d[k] if k in self.d else self.parent.get(k)


def view(ref):
    return dict((k, ref.get(k)) for k in KEYS + ["zz"] if ref.has(k))


def real_view(sc):
    out = {}
    for k in KEYS + ["zz"]:
        if k in sc:
            out[k] = sc[k]
    return out


def check(inp):
    from shroud import util
    real, ref = {}, {}
    real["root"] = util.Scope(None, **inp.get("root_kw", {}))
    ref["root"] = Ref(None)
    ref["root"].d.update(inp.get("root_kw", {}))
    for nm, par in (("mid", "root"), ("leaf", "mid"), ("sib", "mid")):
        real[nm] = util.Scope(real[par])
        ref[nm] = Ref(ref[par])
    for step, op in enumerate(inp["ops"]):
        w, s = op[0], op[1]
        R, F = real[s], ref[s]
        what = "%s on %s" % (op, s)
        if w == "set":
            setattr(R, op[2], op[3])
            F.d[op[2]] = op[3]
        elif w == "update":
            d, repl = dict(op[2]), op[3]
            R.update(d, replace=repl) if repl is not None else R.update(d)
            for k, v in d.items():
                if repl is None or repl or not F.has(k):
                    F.d[k] = v
        elif w == "setdefault":
            r = R.setdefault(op[2], op[3])
            if op[2] not in F.d:
                F.d[op[2]] = op[3]
            if r != F.d[op[2]]:
                return "setdefault returned %r, the local value is %r (%s)" % (r, F.d[op[2]], what)
        elif w == "delattrs":
            R.delattrs(list(op[2]))
            for k in op[2]:
                F.d.pop(k, None)
        elif w == "get":
            r = R.get(op[2], "dflt")
            want = F.get(op[2]) if F.has(op[2]) else "dflt"
            if r != want:
                return "get(%r) returned %r, the chain gives %r (%s)" % (op[2], r, want, what)
        elif w == "inlocal":
            if R.inlocal(op[2]) != (op[2] in F.d):
                return "inlocal(%r) is %r, the local dictionary says %r (%s)" % (op[2], R.inlocal(op[2]), op[2] in F.d, what)
        elif w == "clone":
            # the clone takes the place of the scope; the original must be unaffected by later writes to the clone
            c = R.clone()
            if c is R:
                return "clone returned the scope itself"
            if c.get_parent() is not R.get_parent():
                return "clone has another parent (%s)" % what
            real[s + "_orig"], ref[s + "_orig"] = R, F
            nf = Ref(F.parent)
            nf.d = dict(F.d)
            real[s], ref[s] = c, nf
        elif w == "reparent":
            R.reparent(real[op[2]])
            F.parent = ref[op[2]]
            if R.get_parent() is not real[op[2]]:
                return "get_parent after reparent (%s)" % what
        for nm in sorted(real):
            if real_view(real[nm]) != view(ref[nm]):
                return "after step %d (%s): view of %s is %r, the chain of dictionaries gives %r" % (
                    step, what, nm, real_view(real[nm]), view(ref[nm]))
            for k in KEYS:
                if real[nm].inlocal(k) != (k in ref[nm].d):
                    return "after step %d (%s): key %r local in %s: %r, expected %r" % (
                        step, what, k, nm, real[nm].inlocal(k), k in ref[nm].d)
    try:
        real["root"].__getattr__("nosuch")
        return "root.__getattr__ returned for a key nobody defines"
    except AttributeError:
        pass
    return None


def _ops(rnd):
    scopes = ["root", "mid", "leaf", "sib"]
    n = rnd.randint(1, 6)
    out = []
    for _ in range(n):
        s = rnd.choice(scopes)
        k = rnd.choice(KEYS)
        w = rnd.choice(["set", "update", "update", "setdefault", "delattrs", "get", "inlocal", "clone"])
        if w == "set":
            out.append([w, s, k, rnd.randint(0, 9)])
        elif w == "update":
            d = dict((kk, rnd.randint(10, 19)) for kk in rnd.sample(KEYS, rnd.randint(0, 3)))
            out.append([w, s, d, rnd.choice([None, True, False])])
        elif w == "setdefault":
            out.append([w, s, k, rnd.randint(20, 29)])
        elif w == "delattrs":
            out.append([w, s, rnd.sample(KEYS, rnd.randint(0, 3))])
        else:
            out.append([w, s, k])
    return out


def candidates(seed, around=None):
    yield {"ops": [["set", "root", "a", 1], ["update", "leaf", {"a": 2, "b": 3}, False], ["get", "leaf", "a"], ["get", "sib", "b"]]}
    yield {"root_kw": {"a": 1}, "ops": [["setdefault", "leaf", "a", 5], ["inlocal", "leaf", "a"], ["delattrs", "leaf", ["a", "b"]]]}
    yield {"ops": [["set", "mid", "b", 1], ["clone", "leaf", "b"], ["set", "leaf", "c", 4], ["get", "leaf", "b"]]}
    rnd = random.Random(seed)
    while True:
        inp = {"ops": _ops(rnd)}
        if rnd.random() < 0.3:
            inp["root_kw"] = {rnd.choice(KEYS): 7}
        yield inp
