"""C06 executable statement for the emitted destructor table (bounded stand-in): in the files the REAL generator writes,
every place that stores a destructor index N into a capsule next to a `new T` (constructor wrappers, by-value results)
is matched by a `case N` of <prefix>SHROUD_memory_destructor that deletes a T of exactly that (qualified) type; the case
labels are distinct; case 0 releases nothing.

inputs: {"pre": [...yaml text...], "decls": [...], "language": ..., "options": {...}}  (as m_fcagree)
"""
import os
import re
import shutil
import tempfile

import m_fcagree as F


def cases(text):
    m = re.search(r'SHROUD_memory_destructor\s*\([^)]*\)\s*\{(.*?)\n\}', text, re.S)
    if not m:
        return None
    body = m.group(1)
    out = {}
    for cm in re.finditer(r'case\s+(\d+)\s*:\s*//\s*([^\n]*)\n(.*?)break;', body, re.S):
        n, label, code = int(cm.group(1)), cm.group(2).strip(), re.sub(r'//[^\n]*', '', cm.group(3))
        dm = re.search(r'([\w:<>,\s\*]+?)\s*\*\s*cxx_ptr\s*=', code)
        kind = "delete" if re.search(r'\bdelete\b', code) else "free" if re.search(r'\bfree\s*\(', code) else "none"
        if n in out:
            return "duplicate case label %d in the memory destructor" % n
        out[n] = (label, (dm.group(1).strip() if dm else None), kind)
    return out


def check(inp):
    out = tempfile.mkdtemp(prefix="midt_")
    try:
        try:
            F.generate(F.inline_yaml(inp, out), inp.get("args", []), out)
        except SystemExit as e:
            if e.code not in (0, None):
                return None
        except Exception:
            return None
        texts = dict((n, open(os.path.join(out, n)).read()) for n in os.listdir(out) if n.endswith((".c", ".cpp")))
        table = None
        for n, t in texts.items():
            c = cases(t)
            if isinstance(c, str):
                return c
            if c:
                table = c
        if table is None:
            return None
        if 0 in table and table[0][2] != "none":
            return "case 0 of the memory destructor releases memory"
        for n, t in sorted(texts.items()):
            # a wrapper body: `T *X = new T(...)` followed (same function) by `->idtor = N;` / `.idtor = N;`
            for fm in re.finditer(r'\n\{\n(.*?)\n\}\n', t, re.S):
                body = fm.group(1)
                news = re.findall(r'=\s*new\s+([\w:<>,\s]+?)\s*[\(;]', body)
                idt = re.findall(r'idtor\s*=\s*(\d+)\s*;', body)
                if not news or not idt:
                    continue
                ty, N = news[0].strip(), int(idt[0])
                if N == 0:
                    continue
                if N not in table:
                    return "%s stores destructor index %d for a `new %s` but the memory destructor has no case %d" % (n, N, ty, N)
                label, dty, kind = table[N]
                norm = lambda s: re.sub(r'\s+', '', s or "")
                if kind != "delete" or norm(dty) != norm(ty):
                    return "%s stores destructor index %d for a `new %s` but case %d (%s) releases a `%s` with %s" % (
                        n, N, ty, N, label, dty, kind)
        return None
    finally:
        shutil.rmtree(out, ignore_errors=True)


CLS = "  - decl: class %s\n    declarations:\n    - decl: %s()\n    - decl: ~%s()\n    - decl: int get()\n"


def candidates(seed, around=None):
    two = ["- decl: namespace outer\n  declarations:\n" + CLS % ("Data", "Data", "Data"),
           "- decl: namespace inner\n  declarations:\n" + CLS % ("Data", "Data", "Data")]
    yield {"pre": two, "decls": ["int *mk() +owner(caller)+dimension(3)"], "language": "c++", "options": {}}
    yield {"pre": list(reversed(two)), "decls": [], "language": "c++", "options": {}}
    nested = ["- decl: namespace outer\n  declarations:\n" + CLS % ("Data", "Data", "Data") +
              "  - decl: namespace inner\n    declarations:\n" + (CLS % ("Data", "Data", "Data")).replace("\n  ", "\n    ").replace("  - decl: class", "    - decl: class", 1)]
    yield {"pre": nested, "decls": [], "language": "c++", "options": {}}
    three = ["- decl: class A\n  declarations:\n  - decl: A()\n  - decl: ~A()\n", "- decl: class B\n  declarations:\n  - decl: B()\n  - decl: ~B()\n",
             "- decl: class C\n  declarations:\n  - decl: C()\n  - decl: ~C()\n  - decl: A *other() +owner(caller)\n"]
    yield {"pre": three, "decls": ["A makeA()", "B *makeB() +owner(caller)", "std::string name()", "std::vector<int> nums()",
                                  "double *arr() +owner(caller)+dimension(4)"], "language": "c++", "options": {}}
    yield {"pre": three[:2], "decls": ["B makeB()", "A makeA()"], "language": "c++", "options": {"F_CFI": "true"}}
    tmpl = ["- decl: template<typename T> class Box\n  cxx_template:\n  - instantiation: <int>\n  - instantiation: <double>\n"
            "  declarations:\n  - decl: Box()\n  - decl: ~Box()\n"]
    yield {"pre": tmpl, "decls": [], "language": "c++", "options": {}}
