"""C17/U2 bounded: the real declaration parser (declast.check_decl) accepts the documented statement forms, rejects
the same statement followed by stray text with RuntimeError, and never raises an internal exception."""
import itertools
import random
import traceback

BASES = ["class Foo", "struct S { int a; }", "struct S", "namespace ns", "enum E { A, B }", "enum class C { X = 1 }",
         "template<typename T> void f(T a)", "int f(int a)", "void g()", "const char *name() const", "int *h(int *a +intent(in))",
         "double v", "int (*cb)(int)", "std::vector<int> &w", "typedef int myint" ]
JUNK = [" garbage", " )", "; int b;", " {", " )))", " ;;", " ,", " 42", " +", " ]"]


class Hang(BaseException):
    pass


def _alarm(signum, frame):
    raise Hang()


LIMIT = 10.0        # seconds for ONE declaration of < 200 characters (normal: well under a millisecond)


def run(decl):
    import signal
    from shroud import declast, typemap, ast
    typemap.initialize()
    lib = ast.LibraryNode()
    old = signal.signal(signal.SIGALRM, _alarm)
    signal.setitimer(signal.ITIMER_REAL, LIMIT)
    try:
        return run_unguarded(decl)
    except Hang:
        return "hang", "no answer within %.0f s" % LIMIT
    finally:
        signal.setitimer(signal.ITIMER_REAL, 0)
        signal.signal(signal.SIGALRM, old)


def run_unguarded(decl):
    from shroud import declast, typemap, ast
    typemap.initialize()
    lib = ast.LibraryNode()
    try:
        declast.check_decl(decl, lib)
        return "ok", ""
    except (RuntimeError, NotImplementedError, SystemExit):
        return "rejected", ""
    except Exception as e:
        tb = traceback.extract_tb(e.__traceback__)
        return "internal", "%s: %s [%s]" % (type(e).__name__, str(e)[:100],
                                            " <- ".join("%s:%d" % (f.filename.split("/")[-1], f.lineno) for f in tb[-3:]))


def check(inp):
    base, junk = inp["base"], inp["junk"]
    r0, d0 = run(base)
    if r0 == "hang":
        return "the parser hangs on %r (%s)" % (base, d0)
    if r0 == "internal":
        return "internal exception for %r: %s" % (base, d0)
    if r0 != "ok":
        return None if inp.get("base_may_fail") else "documented form rejected: %r" % base
    if not junk:
        return None
    r1, d1 = run(base + junk)
    if r1 == "hang":
        return "the parser hangs on %r (%s)" % (base + junk, d1)
    if r1 == "internal":
        return "internal exception for %r: %s" % (base + junk, d1)
    if r1 == "ok":
        return "trailing text silently accepted: %r" % (base + junk)
    return None


# literal spellings the tokenizer may or may not accept (hexadecimal, binary, suffixes, digit separators, exponents) in
# every position where the parser converts a token itself (default values, +rank= / +value= / +len=, array sizes, enum values)
LITS = ["0x10", "0X1F", "0b101", "10u", "10L", "1'000", "1e3", "0x", "1.5f", "08", "1_000", ".5", "5.", "0x1p3"]
LIT_SITES = ["void foo(int a = %s)", "int flags = %s", "void f(int a +rank=%s)", "void f(int a +value=%s)", "void f(int *a +rank(%s))",
             "void f(char *a +len=%s)", "void f(int a[%s])", "enum E { A = %s, B }", "void f(double x = %s, int n = %s)",
             "void f(int *a +dimension(%s))", "void f(int a = -%s)", "void f(int a = (%s))"]
EDGE = [site.replace("%s", lit) for site in LIT_SITES for lit in LITS] + ["", " ", "\t\n", ";", "()", "+", "int", "int f(", "void f(int a = ", "void f(const char *s = \"abc)",
        "void setTitle(const char *title = \"Temperature at the outflow boundary [K])",
        "void setUnit(const char *unit = 'degrees Kelvin at the outflow boundary, not Celsius)",
        "void f(const char *s = \"" + "x" * 60, "void f(int a +name('" + "y" * 60 + ")",
        "void f(int a +dimension(" + "(" * 40, "void f(int a" + " " * 120 + ")", "int " + "*" * 80 + "p", "a" * 150]


def candidates(seed, around=None):
    for e in EDGE:
        yield {"base": e, "junk": "", "base_may_fail": True}
    for b in BASES:
        yield {"base": b, "junk": ""}
        for j in JUNK:
            if (b.startswith("int (*cb)") or b in ("double v",)) and j in (" +",):
                continue
            yield {"base": b, "junk": j}
    rnd = random.Random(seed)
    toks = ["int", "*", "&", "a", "(", ")", ",", "const", "+intent(in)", "[", "]", "=", "1", "std::string", ";", "{", "}"]
    while True:
        yield {"base": " ".join(rnd.choice(toks) for _ in range(rnd.randint(1, 8))), "junk": "", "base_may_fail": True}
