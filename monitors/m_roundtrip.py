"""C09 bounded stand-in: for every declaration of a small grammar that the real parser accepts, re-parsing shroud's own
rendering (gen_decl) yields the same declaration (same rendering again, same specifier/const/pointer structure,
attributes included); the C rendering is the C++ rendering with every '&' replaced by '*'; the expression
printer/parser pair is stable (parse(print(parse(e))) prints the same)."""
import itertools
import random


def parse(decl):
    from shroud import declast, typemap, ast
    typemap.initialize()
    lib = ast.LibraryNode()
    return declast.check_decl(decl, lib)


def shape(a):
    d = a.declarator
    ptrs = [(p.ptr, bool(p.const), bool(p.volatile)) for p in (d.pointer if d else [])]
    params = None
    if a.params is not None:
        params = [shape(p) for p in a.params]
    attrs = dict((k, v) for k, v in a.attrs.items() if v is not None and not k.startswith("_"))
    return (tuple(a.specifier), bool(a.const), bool(getattr(a, "volatile", False)), tuple(ptrs), a.name, params,
            tuple(sorted((k, str(v)) for k, v in attrs.items())), tuple(str(getattr(x, "value", x)) for x in a.array) if getattr(a, "array", None) else ())


def check(inp):
    kind = inp.get("kind", "decl")
    if kind == "expr":
        from shroud import declast, todict
        e = inp["text"]
        try:
            n1 = declast.check_expr(e)
        except RuntimeError:
            return None
        p1 = todict.print_node(n1)
        try:
            n2 = declast.check_expr(p1)
        except RuntimeError as ex:
            return "printed expression %r (from %r) is rejected by the parser: %s" % (p1, e, str(ex)[:60])
        p2 = todict.print_node(n2)
        if p1 != p2:
            return "printing is not stable: %r -> %r -> %r" % (e, p1, p2)
        src = e.replace(" ", "")
        if p1.replace("(", "").replace(")", "") != src.replace("(", "").replace(")", ""):
            return "tokens lost, added or reordered: %r printed as %r" % (e, p1)
        return None
    decl = inp["text"]
    try:
        a = parse(decl)
    except (RuntimeError, NotImplementedError):
        return None
    if not hasattr(a, "gen_decl"):
        return None
    try:
        g = a.gen_decl()
        b = parse(g)
    except (RuntimeError, NotImplementedError) as ex:
        return "own rendering %r of %r is rejected: %s" % (g, decl, str(ex)[:80])
    if shape(a) != shape(b):
        return "re-parsing the rendering %r of %r gives another declaration: %r vs %r" % (g, decl, shape(a), shape(b))
    if b.gen_decl() != g:
        return "rendering is not stable: %r -> %r" % (g, b.gen_decl())
    # C rendering: & becomes *, nothing else changes in the pointer structure
    try:
        cxx = a.gen_arg_as_cxx() if a.params is None else None
        c = a.gen_arg_as_c() if a.params is None else None
    except Exception as ex:
        return "rendering raised %s: %s for %r" % (type(ex).__name__, str(ex)[:60], decl)
    if cxx is not None and c is not None:
        if cxx.count("*") + cxx.count("&") != c.count("*") or "&" in c:
            return "C rendering %r of %r does not turn references into pointers one for one (C++ rendering %r)" % (c, decl, cxx)
    return None


SPEC = ["int", "const int", "unsigned int", "long long", "double", "char", "const char", "std::string", "const std::string", "void", "bool"]
PTRS = ["", "*", "&", "**", "*&", "* const", "* const *", "const *"]
ATTRS = ["", " +intent(in)", " +rank(1)", " +dimension(n,m)", " +value", " +len=30", " +name(other)", " +deref(pointer)"]


def candidates(seed, around=None):
    for s, p, at in itertools.product(SPEC, PTRS, ATTRS):
        yield {"text": "%s %s a%s" % (s, p, at)}
    for s, p in itertools.product(SPEC, PTRS[:5]):
        yield {"text": "%s %sf(%s %sa, double b = 1.5)" % (s, p, s, p)}
        yield {"text": "%s %sf(void)" % (s, p)}
        yield {"text": "void f(%s (*cb)(int, %s %s))" % (s, s, p)}
        yield {"text": "%s a[3]" % s}
        yield {"text": "std::vector<%s> %sv" % (s.replace("const ", ""), p)}
    exprs = ["1", "a", "a+b", "a+b*c", "(a+b)*c", "a-b-c", "a/b/c", "a-(b-c)", "-a", "- -a", "1 - -1", "a*-b", "f(a)", "f(a,b)", "f(a,)",
             "size(a)+1", "2*(3+4)", "a+(b)", "((a))", "+a", "f()", "a*b+c*d", "a/(b*c)"]
    for e in exprs:
        yield {"kind": "expr", "text": e}
    rnd = random.Random(seed)
    toks = ["a", "b", "1", "+", "-", "*", "/", "(", ")", "f(", ","]
    while True:
        yield {"kind": "expr", "text": " ".join(rnd.choice(toks) for _ in range(rnd.randint(1, 8)))}
