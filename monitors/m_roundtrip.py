"""C09 bounded stand-in: for every declaration of a small grammar that the real parser accepts, re-parsing shroud's own
rendering (gen_decl) yields the same declaration (same rendering again, same specifier/const/pointer structure,
attributes included); the C rendering is the C++ rendering with every '&' replaced by '*'; the expression
printer/parser pair is stable (parse(print(parse(e))) prints the same)."""
import itertools
import random


def parse(decl):
    from shroud import declast, typemap, ast
    typemap.initialize()
    lib = ast.LibraryNode()
    return declast.check_decl(decl, lib)


def shape(a):
    d = a.declarator
    ptrs = [(p.ptr, bool(p.const), bool(p.volatile)) for p in (d.pointer if d else [])]
    params = None
    if a.params is not None:
        params = [shape(p) for p in a.params]
    attrs = dict((k, v) for k, v in a.attrs.items() if v is not None and not k.startswith("_"))
    return (tuple(a.specifier), bool(a.const), bool(getattr(a, "volatile", False)), tuple(ptrs), a.name, params,
            tuple(sorted((k, str(v)) for k, v in attrs.items())), tuple(str(getattr(x, "value", x)) for x in a.array) if getattr(a, "array", None) else ())


def struct(n):
    """structure of an expression tree with ParenExpr wrappers removed (parentheses only group)"""
    cls = type(n).__name__
    if cls == "ParenExpr":
        return struct(n.node)
    if cls == "BinaryOp":
        return ("bin", n.op, struct(n.left), struct(n.right))
    if cls == "UnaryOp":
        return ("un", n.op, struct(n.node))
    if cls == "Identifier":
        return ("id", n.name, None if n.args is None else tuple(struct(a) for a in n.args))
    if cls == "Constant":
        return ("const", n.value)
    if cls == "AssumedRank":
        return ("..",)
    return (cls,)


def py_struct(text):
    """structure of the same text under Python's expression grammar (None when it has calls or is not an expression)"""
    import ast as pyast
    try:
        t = pyast.parse(text.strip(), mode="eval").body
    except SyntaxError:
        return None
    ops = {pyast.Add: "+", pyast.Sub: "-", pyast.Mult: "*", pyast.Div: "/"}

    def conv(n):
        if isinstance(n, pyast.BinOp) and type(n.op) in ops:
            return ("bin", ops[type(n.op)], conv(n.left), conv(n.right))
        if isinstance(n, pyast.UnaryOp) and isinstance(n.op, (pyast.UAdd, pyast.USub)):
            return ("un", "+" if isinstance(n.op, pyast.UAdd) else "-", conv(n.operand))
        if isinstance(n, pyast.Name):
            return ("id", n.id, None)
        if isinstance(n, pyast.Constant) and isinstance(n.value, int) and not isinstance(n.value, bool):
            return ("const", str(n.value))
        raise ValueError
    try:
        return conv(t)
    except ValueError:
        return None


def show(t):
    if t[0] == "bin":
        return "(%s %s %s)" % (show(t[2]), t[1], show(t[3]))
    if t[0] == "un":
        return "(%s%s)" % (t[1], show(t[2]))
    return str(t[1])


def strip_attrs(text):
    import re
    return re.sub(r'\s*\+\w+(\([^()]*\)|=\w+)?', '', text)


def check_cxx(inp):
    """the C++ compiler's reading of a declaration vs its reading of shroud's rendering of the parsed declaration:
    static_assert(std::is_same<decltype(original), decltype(rendering)>) for a batch of declarations"""
    import os, re, subprocess, tempfile, shutil
    lines = ["#include <string>", "#include <vector>", "#include <type_traits>"]
    index = {}
    n = 0
    for i, text in enumerate(inp["texts"]):
        try:
            a = parse(text)
            if not hasattr(a, "gen_decl"):
                continue
            g = a.gen_decl()
        except (RuntimeError, NotImplementedError):
            continue
        orig, rend = strip_attrs(text), strip_attrs(g)
        ext = "" if a.params is not None else "extern "
        name = a.name
        # the declared names are whole identifiers of the text (no keyword is cut off the front of 'constant', 'volatile_flag')
        ids = re.findall(r'[A-Za-z_]\w*', orig)
        pnames = [p_.name for p_ in (a.params or []) if p_.name]
        for nm_ in [name] + pnames:
            if nm_ and nm_ not in ids:
                return "the declaration %r is recorded with the name %r, which is not an identifier of the text" % (text, nm_)
        if inp.get("names"):
            want = inp["names"].get(text)
            if want and [name] + pnames != want:
                return "the declaration %r is recorded with the names %r, the text declares %r" % (text, [name] + pnames, want)
        if not name:
            continue
        lines.append("namespace o%d { %s%s; }" % (i, ext, orig))
        index[len(lines)] = (i, "original declaration is not accepted by g++ (not a verdict)")
        lines.append("namespace r%d { %s%s; }" % (i, ext, rend))
        index[len(lines)] = (i, "rendering %r is rejected by g++" % g)
        lines.append('static_assert(std::is_same<decltype(o%d::%s), decltype(r%d::%s)>::value, "D%d");' % (i, name, i, name, i))
        index[len(lines)] = (i, "g++ derives a different type from the rendering %r" % g)
        # the type shroud RECORDED (typemap), as shown by the C++ rendering built from the typemaps
        try:
            def has_tmpl(x):
                return bool(x.template_arguments) or any(has_tmpl(p) for p in (x.params or []))
            if not has_tmpl(a) and "(*" not in g and "( *" not in g:
                if a.params is None:
                    t = a.gen_arg_as_cxx()
                else:
                    t = "%s(%s)" % (a.gen_arg_as_cxx(name=name, params=None), ", ".join(
                        p.gen_arg_as_cxx() if p.name else p.gen_arg_as_cxx(name="p%d" % k) for k, p in enumerate(a.params)))
                lines.append("namespace t%d { %s%s; }" % (i, ext, strip_attrs(t)))
                index[len(lines)] = (i, "typemap rendering %r is rejected by g++" % t)
                lines.append('static_assert(std::is_same<decltype(o%d::%s), decltype(t%d::%s)>::value, "T%d");' % (i, name, i, name, i))
                index[len(lines)] = (i, "the type recorded for the declaration (typemap rendering %r) is not the declared type" % t)
        except (RuntimeError, NotImplementedError, AttributeError):
            pass
        n += 1
    if not n:
        return None
    d = tempfile.mkdtemp(prefix="mrt_")
    try:
        open(os.path.join(d, "t.cpp"), "w").write("\n".join(lines) + "\n")
        r = subprocess.run(["g++", "-std=c++11", "-fsyntax-only", "-fmax-errors=0", "t.cpp"], cwd=d, stdout=subprocess.PIPE,
                           stderr=subprocess.STDOUT, universal_newlines=True, timeout=300)
        if r.returncode == 0:
            return None
        bad_orig = set()
        found = []
        for m in re.finditer(r't\.cpp:(\d+):\d+: error: (.*)', r.stdout):
            ln = int(m.group(1))
            if ln in index:
                i, what = index[ln]
                if "not a verdict" in what:
                    bad_orig.add(i)
                else:
                    found.append((i, what, m.group(2)))
        for i, what, msg in found:
            if i not in bad_orig:
                return "%s: %s  [declaration %r]" % (what, msg[:120], inp["texts"][i])
        return None
    finally:
        shutil.rmtree(d, ignore_errors=True)


def check_scoped(inp):
    """declarations parsed INSIDE a namespace whose enclosing scopes declare the same class names: the class each name
    resolves to (as shown by the qualified C++ rendering of the parameters) is the one g++ resolves it to"""
    import os, re, subprocess, tempfile, shutil
    from shroud import declast, typemap, ast
    typemap.initialize()
    lib = ast.LibraryNode()
    lib.add_declaration("class Data")
    lib.add_declaration("class Top")
    outer = lib.add_namespace("outer")
    outer.add_declaration("class Data")
    inner = outer.add_namespace("inner")
    inner.add_declaration("class Data")
    inner.add_declaration("class Leaf")
    base_ns = lib.add_namespace("base_ns")
    base_ns.add_declaration("class Data")
    base_ns.add_declaration("class Only")
    base_ns.add_declaration("class Base")
    derived = outer.add_declaration("class Derived : public base_ns::Base")
    # a namespace in which a name is looked up BEFORE the namespace declares its own class of that name
    late = lib.add_namespace("late")
    try:
        declast.check_decl("void warm(Data *d, Top *t)", late)
    except RuntimeError:
        pass
    late.add_declaration("class Data")
    late.add_declaration("class Top")
    scopes = {"": lib, "outer": outer, "outer::inner": inner, "outer::Derived": derived, "late": late}
    lines = ["#include <string>", "#include <vector>", "#include <type_traits>", "class Data; class Top;",
             "namespace base_ns { class Data; class Only; class Base {}; }",
             "namespace outer { class Data; namespace inner { class Data; class Leaf; } }",
             "namespace late { class Data; class Top; }"]
    index = {}
    n = 0
    for i, (scope, text) in enumerate(inp["items"]):
        try:
            a = declast.check_decl(text, scopes[scope])
            if a.params is None:
                continue
            ret = a.gen_arg_as_cxx(name="r%d" % i, params=None)
            rend = "%s(%s)" % (ret, ", ".join(p.gen_arg_as_cxx() for p in a.params))
        except (RuntimeError, NotImplementedError):
            continue
        except Exception as ex:
            return "rendering raised %s: %s for %r in scope %r" % (type(ex).__name__, str(ex)[:80], text, scope)
        orig = re.sub(r'\b%s\s*\(' % re.escape(a.name), "o%d(" % i, strip_attrs(text), 1)
        if scope == "outer::Derived":
            # a member of a class derived from a class of ANOTHER namespace: names are looked up in the class, its bases,
            # then the namespaces around the derived class (not those around the base)
            lines.append("namespace outer { class Derived%d : public base_ns::Base { public: static %s; }; }" % (i, orig))
            index[len(lines)] = (i, "orig")
            lines.append("%s;" % rend)
            index[len(lines)] = (i, "rendering %r is rejected by g++" % rend)
            lines.append('static_assert(std::is_same<decltype(outer::Derived%d::o%d), decltype(r%d)>::value, "S%d");' % (i, i, i, i))
            index[len(lines)] = (i, "in scope %r the names resolve differently from g++: shroud records %r" % (scope, rend))
            n += 1
            continue
        opener = "".join("namespace %s { " % s_ for s_ in scope.split("::")) if scope else ""
        closer = "}" * len(scope.split("::")) if scope else ""
        lines.append("%s%s; %s" % (opener, orig, closer))
        index[len(lines)] = (i, "orig")
        lines.append("%s;" % rend)
        index[len(lines)] = (i, "rendering %r is rejected by g++" % rend)
        q = (scope + "::" if scope else "") + "o%d" % i
        lines.append('static_assert(std::is_same<decltype(%s), decltype(r%d)>::value, "S%d");' % (q, i, i))
        index[len(lines)] = (i, "in scope %r the names resolve differently from g++: shroud records %r" % (scope, rend))
        n += 1
    if not n:
        return None
    d = tempfile.mkdtemp(prefix="mrs_")
    try:
        open(os.path.join(d, "t.cpp"), "w").write("\n".join(lines) + "\n")
        r = subprocess.run(["g++", "-std=c++11", "-fsyntax-only", "-fmax-errors=0", "t.cpp"], cwd=d, stdout=subprocess.PIPE,
                           stderr=subprocess.STDOUT, universal_newlines=True, timeout=300)
        if r.returncode == 0:
            return None
        bad_orig, found = set(), []
        for m in re.finditer(r't\.cpp:(\d+):\d+: error: (.*)', r.stdout):
            ln = int(m.group(1))
            if ln in index:
                i, what = index[ln]
                if what == "orig":
                    bad_orig.add(i)
                else:
                    found.append((i, what, m.group(2)))
        for i, what, msg in found:
            if i not in bad_orig:
                return "%s  [declaration %r in scope %r]" % (what, inp["items"][i][1], inp["items"][i][0])
        return None
    finally:
        shutil.rmtree(d, ignore_errors=True)


def check(inp):
    kind = inp.get("kind", "decl")
    if kind == "cxx":
        return check_cxx(inp)
    if kind == "scoped":
        return check_scoped(inp)
    if kind == "expr":
        from shroud import declast, todict
        e = inp["text"]
        try:
            n1 = declast.check_expr(e)
        except RuntimeError:
            return None
        p1 = todict.print_node(n1)
        try:
            n2 = declast.check_expr(p1)
        except RuntimeError as ex:
            return "printed expression %r (from %r) is rejected by the parser: %s" % (p1, e, str(ex)[:60])
        p2 = todict.print_node(n2)
        if p1 != p2:
            return "printing is not stable: %r -> %r -> %r" % (e, p1, p2)
        src = e.replace(" ", "")
        if p1.replace("(", "").replace(")", "") != src.replace("(", "").replace(")", ""):
            return "tokens lost, added or reordered: %r printed as %r" % (e, p1)
        # the tree is the one the C++ grammar gives: for + - * / and unary signs over names, literals and parentheses the
        # grouping rules of C++ and of Python's own grammar coincide (precedence, left associativity, sign binds tighter)
        want = py_struct(e)
        if want is not None and struct(n1) != want:
            return "the expression %r is grouped as %s, the C++ grammar groups it as %s" % (e, show(struct(n1)), show(want))
        if struct(n1) != struct(n2):
            return "printing changes the structure of the expression (parentheses it needs are dropped or operands regrouped): %r printed as %r" % (e, p1)
        return None
    decl = inp["text"]
    try:
        a = parse(decl)
    except (RuntimeError, NotImplementedError):
        return None
    if not hasattr(a, "gen_decl"):
        return None
    try:
        g = a.gen_decl()
        b = parse(g)
    except (RuntimeError, NotImplementedError) as ex:
        return "own rendering %r of %r is rejected: %s" % (g, decl, str(ex)[:80])
    # renderers are queries: the declaration is the same after each of them
    before = shape(a)
    for rname in ("gen_decl", "gen_arg_as_c", "gen_arg_as_cxx", "gen_arg_as_fortran", "bind_c", "__str__"):
        try:
            getattr(a, rname)()
        except Exception:
            continue
        if shape(a) != before:
            return "%s() changed the declaration %r: %r -> %r" % (rname, decl, before, shape(a))
    if shape(a) != shape(b):
        return "re-parsing the rendering %r of %r gives another declaration: %r vs %r" % (g, decl, shape(a), shape(b))
    if b.gen_decl() != g:
        return "rendering is not stable: %r -> %r" % (g, b.gen_decl())
    # C rendering: & becomes *, nothing else changes in the pointer structure
    try:
        cxx = a.gen_arg_as_cxx() if a.params is None else None
        c = a.gen_arg_as_c() if a.params is None else None
    except Exception as ex:
        return "rendering raised %s: %s for %r" % (type(ex).__name__, str(ex)[:60], decl)
    if cxx is not None and c is not None:
        if cxx.count("*") + cxx.count("&") != c.count("*") or "&" in c:
            return "C rendering %r of %r does not turn references into pointers one for one (C++ rendering %r)" % (c, decl, cxx)
    # the same for every parameter of a function, and for the parameters of its function-pointer parameters
    if a.params is not None:
        try:
            for p_ in a.params:
                cxxp, cp = p_.gen_arg_as_cxx(), p_.gen_arg_as_c()
                if cxxp.count("*") + cxxp.count("&") != cp.count("*") or "&" in cp:
                    return "C rendering %r of the parameter %r of %r keeps a reference or changes the pointer structure (C++ rendering %r)" % (
                        cp, p_.name, decl, cxxp)
        except (RuntimeError, NotImplementedError):
            pass
        except Exception as ex:
            return "rendering raised %s: %s for a parameter of %r" % (type(ex).__name__, str(ex)[:60], decl)
    return None


SPEC = ["int", "const int", "unsigned int", "long long", "double", "char", "const char", "std::string", "const std::string", "void", "bool"]
# specifier permutations of the integer types (a compiler accepts every order; signed char is not char)
INTSPEC = ["signed char", "unsigned char", "char signed", "signed int", "signed", "unsigned", "short", "short int", "int short",
           "unsigned short", "long", "long int", "int long", "unsigned long", "long unsigned int", "long long int", "long signed int",
           "unsigned long long", "long long unsigned", "signed long long", "size_t", "int32_t", "uint8_t", "float", "long double",
           "signed double", "unsigned float", "short char"]
PTRS = ["", "*", "&", "**", "*&", "* const", "* const *", "const *"]
ATTRS = ["", " +intent(in)", " +rank(1)", " +dimension(n,m)", " +value", " +len=30", " +name(other)", " +deref(pointer)",
         " +rank=0", " +len=0", " +rank(0)", " +value=0", " +charlen(0)"]


def expr_family():
    """all parenthesisations of up to four operands over + - * / (explicit parentheses around every inner node, and
    around right operands only)"""
    ops = ["+", "-", "*", "/"]
    names = ["a", "b", "c", "d"]

    def trees(lo, hi):
        if hi - lo == 1:
            yield names[lo]
            return
        for mid in range(lo + 1, hi):
            for l in trees(lo, mid):
                for r in trees(mid, hi):
                    yield (l, r)

    def render(t, opsit, full):
        if isinstance(t, str):
            return t
        op = next(opsit)
        l = render(t[0], opsit, full)
        r = render(t[1], opsit, full)
        if not isinstance(t[0], str) and full:
            l = "(" + l + ")"
        if not isinstance(t[1], str):
            r = "(" + r + ")"
        return l + op + r
    for n in (2, 3, 4):
        for t in trees(0, n):
            for combo in itertools.product(ops, repeat=n - 1):
                for full in (True, False):
                    yield render(t, iter(combo), full)


def cxx_family():
    out = []
    for s, p in itertools.product(SPEC, PTRS):
        out.append("%s %s a" % (s, p))
        out.append("%s %sf(%s %sa, double b)" % (s, p if "const" not in p else "*", s, p))
    for s in SPEC:
        out += ["%s a[3]" % s, "%s a[3][4]" % s, "void f(%s (*cb)(int, %s *))" % (s, s), "void f(%s *)" % s, "void f(%s)" % s,
                "void f(%s *, %s)" % (s, s), "%s *f(void)" % s, "%s f()" % s, "void f(%s (*)(void))" % s,
                "void f(const %s * const * a)" % s.replace("const ", ""), "std::vector<%s> f(std::vector<%s> &v)" % (
                    s.replace("const ", ""), s.replace("const ", ""))]
    # grouping parentheses that are not a function pointer: pointers / references to arrays
    for s in ("int", "double", "const char"):
        out += ["%s (*rows)[3]" % s, "void f(%s (*rows)[3])" % s, "%s (*grid)[2][3]" % s, "%s *ptrs[3]" % s, "void f(%s *ptrs[3])" % s,
                "%s (*solo)" % s, "void f(%s (*solo))" % s]
    out = [t for t in out if not t.startswith("void  a") and not t.startswith("void & ") and "void &" not in t and "void a[" not in t
           and "std::vector<void>" not in t and not t.startswith("const void") or "*" in t]
    return out


def scoped_family():
    names = ["Data", "::Data", "outer::Data", "::outer::Data", "inner::Data", "outer::inner::Data", "::outer::inner::Data", "Top", "::Top",
             "Leaf", "inner::Leaf", "std::string", "::std::string", "Only", "base_ns::Data", "base_ns::Only"]
    items = []
    for scope in ("", "outer", "outer::inner", "outer::Derived", "late"):
        for nm in names:
            items.append([scope, "void f(%s *d)" % nm])
            items.append([scope, "%s *f()" % nm])
            items.append([scope, "void f(const %s &d, int n)" % nm])
    return items


KEYWORD_PREFIXED = {
    "double constrain(double value, double constant)": ["constrain", "value", "constant"],
    "int volatile_flag": ["volatile_flag"],
    "int *constant": ["constant"],
    "void f(int unsigned_count, long longer, short shortest)": ["f", "unsigned_count", "longer", "shortest"],
    "void g(int classic, int structure, int enumerate, int statics)": ["g", "classic", "structure", "enumerate", "statics"],
    "int integer": ["integer"],
    "double doubled(double voided, char character)": ["doubled", "voided", "character"],
    "void h(int namespaced, int templated, int typename_)": ["h", "namespaced", "templated", "typename_"],
    "bool boolean(bool signedness, int constexpr_like)": ["boolean", "signedness", "constexpr_like"],
}


def candidates(seed, around=None):
    yield {"kind": "cxx", "texts": sorted(KEYWORD_PREFIXED), "names": KEYWORD_PREFIXED}
    for s in ("int", "double", "const char"):
        yield {"text": "void apply(%s (*fn)(%s &count, const double *vals), %s &total)" % (s if s != "const char" else "char", s, s)}
        yield {"text": "void visit(void (*cb)(const %s &item, int &n))" % s.replace("const ", "")}
    fam = cxx_family() + ["%s a" % s for s in INTSPEC] + ["%s *f(%s a, const %s *b)" % (s, s, s) for s in INTSPEC]
    sc = scoped_family()
    for i in range(0, len(sc), 45):
        yield {"kind": "scoped", "items": sc[i:i + 45]}
    for i in range(0, len(fam), 60):
        yield {"kind": "cxx", "texts": fam[i:i + 60]}
    for e in expr_family():
        yield {"kind": "expr", "text": e}
    for s, p, at in itertools.product(SPEC, PTRS, ATTRS):
        yield {"text": "%s %s a%s" % (s, p, at)}
    for s, p in itertools.product(SPEC, PTRS[:5]):
        yield {"text": "%s %sf(%s %sa, double b = 1.5)" % (s, p, s, p)}
        yield {"text": "%s %sf(void)" % (s, p)}
        yield {"text": "void f(%s (*cb)(int, %s %s))" % (s, s, p)}
        yield {"text": "%s a[3]" % s}
        yield {"text": "%s a[3][4]" % s}
        yield {"text": "void f(%s field[4][5])" % s}
        yield {"text": "std::vector<%s> %sv" % (s.replace("const ", ""), p)}
    for a, b, c in itertools.product(["+", "-", "*", "/"], repeat=3):
        yield {"kind": "expr", "text": "a %s -b %s c %s +d" % (a, b, c)}
        yield {"kind": "expr", "text": "6 %s - 2 %s 3 %s 4" % (a, b, c)}
    exprs = ["1", "a", "a+b", "a+b*c", "(a+b)*c", "a-b-c", "a/b/c", "a-(b-c)", "-a", "- -a", "1 - -1", "a*-b", "f(a)", "f(a,b)", "f(a,)",
             "size(a)+1", "2*(3+4)", "a+(b)", "((a))", "+a", "f()", "a*b+c*d", "a/(b*c)"]
    for e in exprs:
        yield {"kind": "expr", "text": e}
    rnd = random.Random(seed)
    toks = ["a", "b", "1", "+", "-", "*", "/", "(", ")", "f(", ","]
    while True:
        yield {"kind": "expr", "text": " ".join(rnd.choice(toks) for _ in range(rnd.randint(1, 8)))}
