"""C16 executable statement: switching debug / debug_index / doxygen / show_splicer_comments / literalinclude (per
declaration) / version stamping on or off changes comments and blank lines only: after comment removal the
generated C, C++, Fortran, Python-extension and Lua sources are identical and the same files are produced."""
import argparse
import contextlib
import io
import itertools
import os
import re
import shutil
import tempfile

YAML = """library: doc
cxx_header: doc.hpp
options:
%s
declarations:
- decl: void fone(int arg1, const char *name)
  doxygen:
    brief: %s
    description: |
      A longer description
      on two lines.
    return: %s
- decl: class Widget
  declarations:
  - decl: Widget()
  - decl: ~Widget()
  - decl: int size(int *n +intent(out))
%s
"""


def strip_comments(name, text):
    if name.endswith((".f", ".f90")):
        out = []
        for line in text.split("\n"):
            # Fortran: '!' starts a comment unless inside a string (generated strings never contain '!')
            line = re.sub(r'!.*$', '', line).rstrip()
            if line.strip():
                out.append(" ".join(line.split()))
        return out
    if name.endswith(".lua") or name.endswith(".py"):
        return [" ".join(l.split()) for l in text.split("\n") if l.strip() and not l.strip().startswith(("--", "#"))]
    t = re.sub(r'/\*.*?\*/', ' ', text, flags=re.S)
    out = []
    for line in t.split("\n"):
        line = re.sub(r'//.*$', '', line).rstrip()
        if line.strip():
            out.append(" ".join(line.split()))
    return out


# libraries of other shapes: no function at all (no bind(C) interface), only nested namespaces, only classes
SHAPES = {
    "types_only": """library: doc
cxx_header: doc.hpp
options:
%s
declarations:
- decl: enum Color { RED, BLUE }
- decl: struct Pt { int x; double y; }
- decl: typedef int IndexType
""",
    "namespaces_only": """library: doc
cxx_header: doc.hpp
options:
%s
declarations:
- decl: namespace outer
  declarations:
  - decl: void deep(int a)
  - decl: enum Mode { OFF, ON }
""",
    "classes_only": """library: doc
cxx_header: doc.hpp
options:
%s
declarations:
- decl: class Only
  declarations:
  - decl: Only()
  - decl: int get()
""",
}
_SHAPE = [None]


def run(opts, brief, ret, perdecl, write_version):
    from shroud import main as M
    if _SHAPE[0]:
        optlines = "\n".join("  %s: %s" % (k, "true" if v else "false") for k, v in sorted(opts.items())) or "  wrap_c: true"
        return run_text(SHAPES[_SHAPE[0]] % optlines, write_version)
    return run_std(opts, brief, ret, perdecl, write_version)


def run_text(text, write_version):
    global YAML
    saved = YAML
    YAML = text.replace("%", "%%") + "%.0s%.0s%.0s%.0s"
    try:
        return run_std({}, "", "", "", write_version, raw=True)
    finally:
        YAML = saved


def run_std(opts, brief, ret, perdecl, write_version, raw=False):
    from shroud import main as M
    d = tempfile.mkdtemp(prefix="mdoc_")
    try:
        f = os.path.join(d, "doc.yaml")
        optlines = "\n".join("  %s: %s" % (k, "true" if v else "false") for k, v in sorted(opts.items())) or "  wrap_c: true"
        open(f, "w").write(YAML % (optlines, brief, ret, perdecl))
        a = argparse.Namespace()
        a.cmake = a.cfiles = a.ffiles = ""
        a.filename = [f]
        a.outdir = a.logdir = d
        a.outdir_c_fortran = a.outdir_lua = a.outdir_python = a.outdir_yaml = ""
        a.path = []
        a.write_helpers = a.write_statements = a.yaml_types = ""
        a.write_version = write_version
        a.option = []
        a.language = None
        with contextlib.redirect_stdout(io.StringIO()):
            M.main_with_args(a)
        res = {}
        for n in sorted(os.listdir(d)):
            if n.endswith((".c", ".cpp", ".h", ".hpp", ".f", ".lua")):
                res[n] = strip_comments(n, open(os.path.join(d, n)).read())
        return res
    finally:
        shutil.rmtree(d, ignore_errors=True)


def check(inp):
    _SHAPE[0] = inp.get("shape")
    try:
        return check1(inp)
    finally:
        _SHAPE[0] = None


def check1(inp):
    base_opts = {"wrap_python": True, "wrap_lua": True}
    on = dict(base_opts)
    on.update(inp["opts"])
    off = dict(base_opts)
    off.update(dict((k, False) for k in inp["opts"]))
    brief, ret = inp.get("brief", "one line"), inp.get("ret", "a value")
    try:
        a = run(off, brief, ret, inp.get("perdecl_off", ""), inp.get("version_off", True))
        b = run(on, brief, ret, inp.get("perdecl", ""), inp.get("version_on", True))
    except (RuntimeError, SystemExit) as e:
        return None
    if sorted(a) != sorted(b):
        return "set of files differs: %s vs %s" % (sorted(a), sorted(b))
    for n in a:
        if a[n] != b[n]:
            diff = [x for x in b[n] if x not in a[n]][:2] + [x for x in a[n] if x not in b[n]][:2]
            if not diff:
                k = next((i for i in range(min(len(a[n]), len(b[n]))) if a[n][i] != b[n][i]), min(len(a[n]), len(b[n])))
                diff = ["line %d: off %r / on %r" % (k + 1, (a[n] + [""])[k], (b[n] + [""])[k])]
            return "%s differs after comment removal when %s is switched on: %r" % (n, inp.get("what") or inp["opts"], diff)
    return None


PERDECL = [
    # overloads with different preprocessor conditions: a generic interface whose members are guarded one by one
    ["- decl: void process(int v)\n  cpp_if: if defined(HAVE_INT)\n", "- decl: void process(double v)\n",
     "- decl: void process(const char *v)\n  cpp_if: if defined(HAVE_STR)\n"],
    # default arguments (generated overloads) and a struct
    ["- decl: int scale(int a, int b = 1, double c = 2.0)\n", "- decl: struct Pt { int x; double y; }\n",
     "- decl: double norm(const Pt *p)\n"],
    # a callback whose declaration is longer than a line (the debug comment that repeats it must stay a comment)
    ["- decl: void on_event(void (*handler)(int event_code, double timestamp +value, const char * message, int severity_level +value, void * user_data))\n",
     "- decl: int plain2(int a)\n"],
    # a class behind a preprocessor condition; a namespace (own module) whose options are toggled on the namespace itself;
    # a namespace that holds nothing but extern "C" functions (no wrapper file of its own)
    ["- decl: class Guarded\n  cpp_if: ifdef HAVE_GUARDED\n  declarations:\n  - decl: Guarded()\n  - decl: int get()\n",
     "- decl: int after(int a)\n"],
    ["- decl: namespace tools\n  declarations:\n  - decl: int add_one(int value)\n  - decl: enum Mode { OFF, ON }\n",
     "- decl: int outside(int a)\n"],
    ["- decl: namespace cfuncs\n  declarations:\n  - decl: int c_add(int a, int b)\n    options:\n      C_extern_C: true\n"
     "  - decl: double c_scale(double x)\n    options:\n      C_extern_C: true\n",
     "- decl: int outside2(int a)\n"],
    # overloads of which only the first carries declaration-level splicers (the emitters read them from "the" node)
    ["- decl: int twice(int n)\n  splicer:\n    lua:\n    - lua_pushinteger(L, 1);\n    - return 1;\n    c:\n    - return 2;\n",
     "- decl: int twice(double x)\n", "- decl: int twice(const char *s)\n"],
    # fortran_generic and a function returning a string
    ["- decl: void gen(double arg)\n  fortran_generic:\n  - decl: (float arg)\n  - decl: (double arg)\n",
     "- decl: const std::string& title()\n"],
]


def perdecl_candidates():
    for group in PERDECL:
        for k in range(len(group)):
            for opt in ("literalinclude", "debug", "doxygen"):
                def text(val):
                    out = ""
                    for j, d in enumerate(group):
                        out += d
                        if j == k:
                            out += "  options:\n    %s: %s\n" % (opt, val)
                    return out
                yield {"opts": {}, "perdecl": text("true"), "perdecl_off": text("false"), "what": "%s on declaration %d" % (opt, k)}


def candidates(seed, around=None):
    names = ["debug", "doxygen", "show_splicer_comments", "debug_index"]
    if around and around.get("perdecl_first"):
        for c in perdecl_candidates():
            yield c
    for n in names:
        yield {"opts": {n: True}}
    yield {"opts": {"debug": True, "debug_index": True}}
    yield {"opts": {"doxygen": True}, "brief": "\"first line\\nsecond line\"", "ret": "a value"}
    yield {"opts": {"doxygen": True}, "brief": "one line", "ret": "\"line 1\\nline 2\""}
    yield {"opts": {}, "version_on": False, "version_off": True}
    yield {"opts": {"debug": True, "doxygen": True, "show_splicer_comments": True}}
    for c in perdecl_candidates():
        yield c
    for shape in sorted(SHAPES):
        for n in names:
            yield {"opts": {n: True}, "shape": shape}
    for r in range(2, 5):
        for c in itertools.combinations(names, r):
            yield {"opts": dict((k, True) for k in c)}
