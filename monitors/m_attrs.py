"""Executable statement of C17 for declarations with attributes: the real parser + generate_functions either
accept the declaration or stop with RuntimeError / NotImplementedError / SystemExit; never an internal exception.
Functional clauses from docs/input.rst checked on acceptance: rank in 0..7; intent in {in,out,inout}."""
import itertools
import random
import traceback

ALLOWED = ("RuntimeError", "NotImplementedError", "SystemExit", "DeprecationWarning")


def check(inp):
    from shroud import ast, generate, typemap
    decl = inp["decl"]
    typemap.initialize()
    lib = ast.LibraryNode()
    try:
        fn = lib.add_function(decl)
        generate.generate_functions(lib, None)
    except BaseException as e:
        if type(e).__name__ in ALLOWED:
            return None
        tb = traceback.extract_tb(e.__traceback__)
        where = " <- ".join("%s:%d" % (f.filename.split("/")[-1], f.lineno) for f in tb[-3:])
        return "internal exception %s: %s [%s] for %r" % (type(e).__name__, str(e)[:120], where, decl)
    # accepted: functional clauses
    for arg in fn.ast.params:
        r = arg.attrs["rank"]
        if r is not None and r is not False and not (isinstance(r, int) and 0 <= r <= 7):
            return "rank %r accepted (documented range 0-7) for %r" % (r, decl)
        i = arg.metaattrs["intent"]
        if i not in ("in", "out", "inout", None):
            return "intent %r accepted for %r" % (i, decl)
    return None


TYPES = ["int a", "int *a", "const int *a", "int &a", "char *a", "const char *a", "char **a", "void *a", "void **a",
         "std::string &a", "std::vector<int> &a", "double a", "bool *a", "int (*a)(int b)", "int **a"]
ATTRS = ["intent", "rank", "dimension", "deref", "owner", "value", "charlen", "implied", "hidden", "len", "len_trim",
         "size", "name", "allocatable", "assumedtype", "capsule", "cdesc", "external", "free_pattern", "pass", "readonly", "foo"]
VALUES = ["", "(in)", "(out)", "(INOUT)", "(2)", "(-1)", "(8)", "=3", "=2.5", '="x"', "(n)", "(size(a))", "(pointer)",
          "(caller)", "(1+2)", "()", "=a", "(0)", "(:)"]


def grid():
    for t in TYPES:
        for a in ATTRS:
            for v in VALUES:
                yield "void f(%s +%s%s)" % (t, a, v)
    for a in ATTRS:
        for v in VALUES:
            yield "int *f(int n) +%s%s" % (a, v)
            yield "void f(int (*cb)(int *b +%s%s))" % (a, v)
            yield "void f(int n, int *a +%s%s)" % (a, v)


def candidates(seed, around=None):
    first = (around or {}).get("attr")
    items = list(grid())
    if first:
        items.sort(key=lambda d: 0 if ("+" + first) in d else 1)
    for d in items:
        yield {"decl": d}
    rnd = random.Random(seed)
    while True:
        t = rnd.choice(TYPES)
        n = rnd.randint(1, 3)
        yield {"decl": "void f(%s %s)" % (t, " ".join("+%s%s" % (rnd.choice(ATTRS), rnd.choice(VALUES)) for _ in range(n)))}
