"""C17 executable statement for the YAML structure (bounded stand-in): a library description whose structure shroud does
not support stops with RuntimeError / SystemExit (a message), never with an internal Python exception; structures the
documentation allows are accepted.  Runs the REAL pipeline (ast.create_library_from_dictionary + generate + wrappers).

inputs: {"yaml": "<text>", "must_accept": bool}
"""
import contextlib
import io
import itertools
import os
import shutil
import sys
import tempfile
import traceback


def run_yaml(text):
    from shroud import main as M
    d = tempfile.mkdtemp(prefix="myaml_")
    try:
        p = os.path.join(d, "in.yaml")
        open(p, "w").write(text)
        saved = sys.argv
        sys.argv = ["shroud", p, "--outdir", d, "--logdir", d]
        try:
            with contextlib.redirect_stdout(io.StringIO()), contextlib.redirect_stderr(io.StringIO()):
                M.main()
        finally:
            sys.argv = saved
    finally:
        shutil.rmtree(d, ignore_errors=True)


def check(inp):
    if inp.get("single"):
        return check_single(inp)
    try:
        run_yaml(inp["yaml"])
    except SystemExit as e:
        if inp.get("must_accept") and e.code not in (0, None):
            return "a documented structure is rejected (exit %r): %s" % (e.code, inp["yaml"][:200].replace("\n", " / "))
        return None
    except RuntimeError as e:
        if inp.get("must_accept"):
            return "a documented structure is rejected: %s: %s" % (str(e)[:120], inp["yaml"][:200].replace("\n", " / "))
        return None
    except Exception as e:
        tb = traceback.extract_tb(sys.exc_info()[2])
        where = "%s:%d" % (os.path.basename(tb[-1].filename), tb[-1].lineno) if tb else "?"
        return "internal %s at %s (%s) for the description: %s" % (type(e).__name__, where, str(e)[:100],
                                                                  inp["yaml"][:300].replace("\n", " / "))
    return None


HEAD = "library: lib\ncxx_header: lib.h\noptions:\n  wrap_python: false\n  wrap_lua: false\n"
PARENTS = {
    "library": ("", "declarations:\n%s"),
    "namespace": ("declarations:\n- decl: namespace ns\n", "  declarations:\n%s"),
    "class": ("declarations:\n- decl: class Foo\n", "  declarations:\n%s"),
    "struct": ("declarations:\n- decl: struct Pt\n", "  declarations:\n%s"),
    "block": ("declarations:\n- block: true\n  options:\n    wrap_lua: false\n", "  declarations:\n%s"),
    "block in class": ("declarations:\n- decl: class Foo\n  declarations:\n  - block: true\n", "    declarations:\n%s"),
    "block in namespace": ("declarations:\n- decl: namespace ns\n  declarations:\n  - block: true\n", "    declarations:\n%s"),
    "block in block": ("declarations:\n- block: true\n  declarations:\n  - block: true\n", "    declarations:\n%s"),
    "function": ("declarations:\n- decl: void foo()\n", "  declarations:\n%s"),
    "enum": ("declarations:\n- decl: enum Color { RED, BLUE }\n", "  declarations:\n%s"),
    "typedef": ("declarations:\n- decl: typedef int MyInt\n  fields:\n    base: integer\n", "  declarations:\n%s"),
    "variable in struct": ("declarations:\n- decl: struct Pt\n  declarations:\n  - decl: int x\n", "    declarations:\n%s"),
}
ACCEPTING = {"library", "namespace", "class", "block", "block in class", "block in namespace", "block in block"}
CHILDREN = {
    "function": ("- decl: void bar(int a)\n", True),
    "class": ("- decl: class Inner\n", None),
    "namespace": ("- decl: namespace inner\n", None),
    "enum": ("- decl: enum E { A, B }\n", None),
    "block": ("- block: true\n  declarations:\n  - decl: void baz()\n", None),
    "empty block": ("- block: true\n", None),
    "variable": ("- decl: int x\n", None),
    "unknown key": ("- foo: 1\n", False),
    "scalar": ("- 5\n", False),
    "decl not a string": ("- decl: 5\n", False),
    "decl list": ("- decl: [void f()]\n", False),
    "options not a map": ("- decl: void f()\n  options: 3\n", False),
    "format not a map": ("- decl: void f()\n  format: [a]\n", False),
    "attrs not a map": ("- decl: void f(int a)\n  attrs: 3\n", False),
    "declarations scalar": ("- decl: class K\n  declarations: 5\n", False),
    "empty splicer text": ("- decl: void f()\n  splicer:\n    c: \"\"\n", None),
    "empty fstatements text": ("- decl: void f()\n  fstatements:\n    c:\n      pre_call: \"\"\n", None),
    "splicer null": ("- decl: void f()\n  splicer:\n    c:\n", None),
    "fstatements scalar": ("- decl: void f()\n  fstatements:\n    c: 3\n", False),
    "doxygen scalar": ("- decl: void f()\n  doxygen: text\n", False),
    "cxx_template scalar": ("- decl: template<typename T> void f(T a)\n  cxx_template: 3\n", False),
    "fortran_generic scalar": ("- decl: void f(double a)\n  fortran_generic: 3\n", False),
    "fortran_generic entries": ("- decl: void f(double a)\n  fortran_generic:\n  - 3\n", False),
    "return_this text": ("- decl: void f()\n  return_this: maybe\n", None),
    "cpp_if number": ("- decl: void f()\n  cpp_if: 3\n", None),
    "options unknown": ("- decl: void f()\n  options:\n    no_such_option: 1\n", None),
    "format number": ("- decl: void f()\n  format:\n    F_name_impl: 3\n", None),
    "attrs unknown arg": ("- decl: void f(int a)\n  attrs:\n    nosuch:\n      intent: in\n", None),
    "attrs value list": ("- decl: void f(int a)\n  attrs:\n    a:\n      intent: [in]\n", False),
    "attrs deref list": ("- decl: void f(int **a +intent(out))\n  attrs:\n    a:\n      deref: [pointer]\n", None),
    "attrs deref map": ("- decl: void f(int **a +intent(out))\n  attrs:\n    a:\n      deref: {kind: pointer}\n", None),
    "attrs owner list": ("- decl: void f(int **a +intent(out))\n  attrs:\n    a:\n      owner: [pointer]\n", None),
    "attrs owner map": ("- decl: void f(int **a +intent(out))\n  attrs:\n    a:\n      owner: {kind: pointer}\n", None),
    "attrs intent list": ("- decl: void f(int *a)\n  attrs:\n    a:\n      intent: [pointer]\n", None),
    "attrs intent map": ("- decl: void f(int *a)\n  attrs:\n    a:\n      intent: {kind: pointer}\n", None),
    "attrs value list": ("- decl: void f(int a)\n  attrs:\n    a:\n      value: [pointer]\n", None),
    "attrs value map": ("- decl: void f(int a)\n  attrs:\n    a:\n      value: {kind: pointer}\n", None),
    "attrs rank list": ("- decl: void f(int *a)\n  attrs:\n    a:\n      rank: [pointer]\n", None),
    "attrs rank map": ("- decl: void f(int *a)\n  attrs:\n    a:\n      rank: {kind: pointer}\n", None),
    "attrs len list": ("- decl: void f(char *a)\n  attrs:\n    a:\n      len: [pointer]\n", None),
    "attrs len map": ("- decl: void f(char *a)\n  attrs:\n    a:\n      len: {kind: pointer}\n", None),
    "attrs dimension list": ("- decl: void f(int *a)\n  attrs:\n    a:\n      dimension: [pointer]\n", None),
    "attrs dimension map": ("- decl: void f(int *a)\n  attrs:\n    a:\n      dimension: {kind: pointer}\n", None),
    "attrs name list": ("- decl: void f(int a)\n  attrs:\n    a:\n      name: [pointer]\n", None),
    "attrs name map": ("- decl: void f(int a)\n  attrs:\n    a:\n      name: {kind: pointer}\n", None),
    "attrs free_pattern list": ("- decl: void f(int **a +intent(out))\n  attrs:\n    a:\n      free_pattern: [pointer]\n", None),
    "attrs free_pattern map": ("- decl: void f(int **a +intent(out))\n  attrs:\n    a:\n      free_pattern: {kind: pointer}\n", None),
    "attrs charlen list": ("- decl: void f(char *a +intent(out))\n  attrs:\n    a:\n      charlen: [pointer]\n", None),
    "attrs charlen map": ("- decl: void f(char *a +intent(out))\n  attrs:\n    a:\n      charlen: {kind: pointer}\n", None),
    "attrs assumedtype list": ("- decl: void f(void *a)\n  attrs:\n    a:\n      assumedtype: [pointer]\n", None),
    "attrs assumedtype map": ("- decl: void f(void *a)\n  attrs:\n    a:\n      assumedtype: {kind: pointer}\n", None),
    "attrs hidden list": ("- decl: void f(int *a +intent(out))\n  attrs:\n    a:\n      hidden: [pointer]\n", None),
    "attrs hidden map": ("- decl: void f(int *a +intent(out))\n  attrs:\n    a:\n      hidden: {kind: pointer}\n", None),
    "fattrs deref list": ("- decl: int *f()\n  fattrs:\n    deref: [pointer]\n", None),
    "fattrs deref map": ("- decl: int *f()\n  fattrs:\n    deref: {kind: pointer}\n", None),
    "fattrs owner list": ("- decl: int *f()\n  fattrs:\n    owner: [pointer]\n", None),
    "fattrs owner map": ("- decl: int *f()\n  fattrs:\n    owner: {kind: pointer}\n", None),
    "fattrs name list": ("- decl: int *f()\n  fattrs:\n    name: [pointer]\n", None),
    "fattrs name map": ("- decl: int *f()\n  fattrs:\n    name: {kind: pointer}\n", None),
    "fattrs free_pattern list": ("- decl: int *f()\n  fattrs:\n    free_pattern: [pointer]\n", None),
    "fattrs free_pattern map": ("- decl: int *f()\n  fattrs:\n    free_pattern: {kind: pointer}\n", None),
    "fattrs pure list": ("- decl: int *f()\n  fattrs:\n    pure: [pointer]\n", None),
    "fattrs pure map": ("- decl: int *f()\n  fattrs:\n    pure: {kind: pointer}\n", None),
    "fattrs scalar": ("- decl: int f()\n  fattrs: 3\n", False),
}


def indent(text, n):
    return "".join(" " * n + l + "\n" for l in text.rstrip("\n").split("\n"))


# keys with a fixed structure (ast.clean_dictionary) x wrong-typed values, falsy ones included: "false", 0, an empty list or
# mapping, an empty string are values too -- the type check must not be skipped for them
STR_KEYS = ["library", "cxx_header", "language", "namespace", "cpp_if"]
DICT_KEYS = ["options", "format", "splicer", "patterns", "doxygen"]
LIST_KEYS = ["declarations", "typemap", "copyright"]
DECL_STR = ["decl", "cpp_if"]
DECL_DICT = ["options", "format", "attrs", "fattrs", "fstatements", "splicer", "doxygen"]
DECL_LIST = ["declarations", "fortran_generic", "cxx_template", "default_arg_suffix"]


def typed_candidates():
    wrong = {"str": ["false", "0", "[]", "{}", "3", "[a]", "{a: b}"], "dict": ["false", "0", "[]", "''", "3", "[1]", "text"],
             "list": ["false", "0", "{}", "''", "5", "{a: 1}", "text"]}
    for kind, keys in (("str", STR_KEYS), ("dict", DICT_KEYS), ("list", LIST_KEYS)):
        for key in keys:
            for val in wrong[kind]:
                base = "library: lib\ncxx_header: lib.h\n"
                if key in ("library", "cxx_header"):
                    base = "\n".join(l for l in base.split("\n") if not l.startswith(key + ":")) + ("\n" if not base.endswith("\n") else "")
                rest = "" if key == "declarations" else "declarations:\n- decl: void f()\n"
                yield {"yaml": base + "%s: %s\n" % (key, val) + rest, "must_accept": False}
    for kind, keys in (("str", DECL_STR), ("dict", DECL_DICT), ("list", DECL_LIST)):
        for key in keys:
            for val in wrong[kind]:
                head = "- decl: void f(int a)\n" if key != "decl" else "- "
                line = ("  %s: %s\n" % (key, val)) if key != "decl" else ("decl: %s\n" % val)
                yield {"yaml": "library: lib\ncxx_header: lib.h\ndeclarations:\n" + head + line, "must_accept": False}
                yield {"yaml": "library: lib\ncxx_header: lib.h\ndeclarations:\n- decl: class K\n  declarations:\n  " +
                               head.replace("\n", "\n  ", head.count("\n") - 1 if head.endswith("\n") else 0) +
                               ("  " + line if key != "decl" else line), "must_accept": False}


H_ = "library: lib\ncxx_header: lib.h\n"
# single descriptions: (yaml, "accept" | "reject" | None)   reject = a diagnostic is REQUIRED (silent acceptance is the failure)
SINGLES = [
    (H_ + "splicer_code: [a]\ndeclarations:\n- decl: void f()\n", None),
    (H_ + "splicer_code: 3\ndeclarations:\n- decl: void f()\n", None),
    (H_ + "declarations:\n- decl:\n", None),
    (H_ + "language:\ndeclarations:\n- decl: void f()\n", None),
    (H_ + "declarations:\n- decl: template<typename T> void g(T a)\n  cxx_template:\n  - instantiation: 3\n", None),
    (H_ + "declarations:\n- decl: template<typename T> void g(T a)\n  cxx_template:\n  - instantiation:\n", None),
    (H_ + "declarations:\n- decl: void g(double a)\n  fortran_generic:\n  - decl: 3\n", None),
    (H_ + "declarations:\n- decl: void g(double a)\n  fortran_generic:\n  - decl:\n", None),
    (H_ + "declarations:\n- decl: template<typename T> void g(T a)\n  cxx_template:\n  - instantiation: <int> garbage\n", "reject"),
    (H_ + "declarations:\n- decl: template<typename T> void g(T a)\n  cxx_template:\n  - instantiation: <int>>\n", "reject"),
    (H_ + "declarations:\n- decl: void g(double a)\n  fortran_generic:\n  - decl: (float a) garbage\n", "reject"),
    (H_ + "declarations:\n- decl: void g(double a)\n  fortran_generic:\n  - decl: (float a))\n", "reject"),
    (H_ + "declarations:\n- decl: typedef int T1\n- decl: void f(T1::x a)\n", None),
    (H_ + "declarations:\n- decl: enum E { A }\n- decl: void f(E::x a)\n", None),
    (H_ + "declarations:\n- decl: void f(int *a +rank(1), int n +implied(size(a+1)))\n", None),
    (H_ + "declarations:\n- decl: void f(char *a, int n +implied(len(a//2)))\n", None),
    (H_ + "declarations:\n- decl: void f(char *a, int n +implied(len_trim(1)))\n", None),
    # typemap entries whose fields are not a mapping
    (H_ + "typemap:\n- type: int\n  fields: text\n" + "declarations:\n- decl: void f(int a)\n", None),
    (H_ + "typemap:\n- type: int\n  fields: [a, b]\n" + "declarations:\n- decl: void f(int a)\n", None),
    (H_ + "typemap:\n- type: int\n  fields: 3\n" + "declarations:\n- decl: void f(int a)\n", None),
    (H_ + "typemap:\n- type: NewT\n  fields: text\n" + "declarations:\n- decl: void f(int a)\n", None),
    (H_ + "typemap:\n- type: NewT\n  fields: [a]\n" + "declarations:\n- decl: void f(int a)\n", None),
    (H_ + "typemap:\n- type: int\n  fields:\n" + "declarations:\n- decl: void f(int a)\n", None),
    # the arguments re-declared by a fortran_generic entry are validated like the function's own
    (H_ + "declarations:\n- decl: void f(double *a +rank(1), int n +implied(size(a)))\n  fortran_generic:\n"
          "  - decl: (float *a +rank(1), int n +implied(size(zz)))\n", "reject"),
    (H_ + "declarations:\n- decl: void f(double *a +rank(1), int n +implied(size(a)))\n  fortran_generic:\n"
          "  - decl: (float *a +rank(1), int n +implied(size(a,1,2)))\n", "reject"),
    (H_ + "declarations:\n- decl: void f(double *a +rank(1), int n +implied(size(a)))\n  fortran_generic:\n"
          "  - decl: (float *a +rank(1), int n +implied)\n", None),
    (H_ + "declarations:\n- decl: void f(double *a +rank(1), int n +implied(size(a)))\n  fortran_generic:\n"
          "  - decl: (float *a +rank(1), int n +implied(size(a+1)))\n", None),
    (H_ + "declarations:\n- decl: void f(double *a +rank(1), int n +implied(size(a)))\n  fortran_generic:\n"
          "  - decl: (float *a +rank(1), int n +implied(size(a)))\n  - decl: (double *a +rank(1), int n +implied(size(a)))\n", "accept"),
    # implied with a wrong number of arguments
    (H_ + "declarations:\n- decl: void f(int *a +rank(1), int n +implied(size()))\n", None),
    (H_ + "declarations:\n- decl: void f(char *a, int n +implied(len()+1))\n", None),
    (H_ + "declarations:\n- decl: void f(char *a, int n)\n  attrs:\n    n:\n      implied: len_trim()\n", None),
    (H_ + "declarations:\n- decl: void f(int *a +rank(1), int n +implied(size(a,1,2)))\n", None),
    # template argument lists the wrappers cannot represent: more than one argument, a dangling comma
    (H_ + "declarations:\n- decl: void f(std::vector<int,double> &a)\n", "reject"),
    (H_ + "declarations:\n- decl: void f(std::vector<int,> &a)\n", "reject"),
    (H_ + "declarations:\n- decl: std::vector<int,long> f()\n", "reject"),
    (H_ + "declarations:\n- decl: void f(std::vector<int> &a)\n", "accept"),
    # fields of a typemap / class / struct / typedef that are not documented fields
    (H_ + "typemap:\n- type: int\n  fields:\n    name: Other\n" + "declarations:\n- decl: void f(int a)\n", "reject"),
    (H_ + "typemap:\n- type: int\n  fields:\n    update: 3\n" + "declarations:\n- decl: void f(int a)\n", "reject"),
    (H_ + "typemap:\n- type: int\n  fields:\n    nme: x\n" + "declarations:\n- decl: void f(int a)\n", "reject"),
    (H_ + "declarations:\n- decl: class K\n  fields:\n    clone_as: x\n  declarations:\n  - decl: void m()\n", "reject"),
    (H_ + "typemap:\n- type: int\n  fields:\n    f_cast: 'int({f_var}, C_INT)'\n" + "declarations:\n- decl: void f(int a)\n", "accept"),
    (H_ + "declarations:\n- decl: class K\n  declarations:\n  - block: true\n    declarations:\n    - decl: K()\n    - decl: ~K()\n"
          "    - decl: int get()\n", "accept"),
    (H_ + "declarations:\n- decl: class K\n  declarations:\n  - block: true\n    declarations:\n    - block: true\n      declarations:\n"
          "      - decl: K(int n)\n", "accept"),
]


def check_single(inp):
    want = inp["want"]
    try:
        run_yaml(inp["yaml"])
    except SystemExit as e:
        if e.code in (0, None):
            return "silently accepted although it carries text the parser never looked at: %s" % inp["yaml"][:200].replace("\n", " / ") \
                if want == "reject" else None
        return "a documented structure is rejected (exit %r): %s" % (e.code, inp["yaml"][:200].replace("\n", " / ")) if want == "accept" else None
    except RuntimeError as e:
        return "a documented structure is rejected: %s: %s" % (str(e)[:100], inp["yaml"][:200].replace("\n", " / ")) if want == "accept" else None
    except Exception as e:
        tb = traceback.extract_tb(sys.exc_info()[2])
        where = "%s:%d" % (os.path.basename(tb[-1].filename), tb[-1].lineno) if tb else "?"
        return "internal %s at %s (%s) for the description: %s" % (type(e).__name__, where, str(e)[:100],
                                                                  inp["yaml"][:300].replace("\n", " / "))
    if want == "reject":
        return "silently accepted although it carries text the parser never looked at: %s" % inp["yaml"][:200].replace("\n", " / ")
    return None


def candidates(seed, around=None):
    for y, want in SINGLES:
        yield {"single": True, "yaml": y, "want": want}
    for c in typed_candidates():
        yield c
    for (pname, (pre, tmpl)), (cname, (child, ok)) in itertools.product(sorted(PARENTS.items()), sorted(CHILDREN.items())):
        depth = len(tmpl) - len(tmpl.lstrip(" "))
        body = tmpl % indent(child, depth)
        must = bool(ok) and pname in ACCEPTING and cname == "function"
        yield {"yaml": HEAD + pre + body, "must_accept": must, "parent": pname, "child": cname}
    # top-level keys of the wrong type
    for key, val in (("declarations", "5"), ("declarations", "{a: 1}"), ("options", "[1]"), ("format", "3"), ("library", "[a]"),
                     ("cxx_header", "{a: b}"), ("typemap", "5"), ("typemap", "[5]"), ("splicer", "3"), ("patterns", "[1]"),
                     ("language", "pascal"), ("language", "[c]"), ("copyright", "5"), ("namespace", "[a]")):
        yield {"yaml": "library: lib\ncxx_header: lib.h\n%s: %s\ndeclarations:\n- decl: void f()\n" % (key, val), "must_accept": False}
