"""C14/U4 executable statement: an option given as --option name=value produces byte-identical output to the same
option in the YAML file; --language equals the YAML field; create_wrapper(f) equals the command line on f;
a malformed --option stops with SystemExit, never an internal exception."""
import argparse
import contextlib
import io
import os
import shutil
import tempfile
import traceback

YAML = """library: opt
cxx_header: opt.hpp
%s
declarations:
- decl: void fone(int arg1, const char *name)
- decl: int ftwo(double *values +rank(1), int n +implied(size(values)))
"""


def args_for(fname, outdir, option=(), language=None):
    a = argparse.Namespace()
    a.cmake = a.cfiles = a.ffiles = a.logdir = ""
    a.filename = [fname]
    a.outdir = outdir
    a.logdir = outdir
    a.outdir_c_fortran = a.outdir_lua = a.outdir_python = a.outdir_yaml = ""
    a.path = []
    a.write_helpers = a.write_statements = a.yaml_types = ""
    a.write_version = True
    a.option = list(option)
    a.language = language
    return a


def run(yaml_text, option=(), language=None, via_create_wrapper=False):
    from shroud import main as M
    d = tempfile.mkdtemp(prefix="mopt_")
    try:
        f = os.path.join(d, "opt.yaml")
        open(f, "w").write(yaml_text)
        out = os.path.join(d, "out")
        os.makedirs(out)
        with contextlib.redirect_stdout(io.StringIO()):
            try:
                if via_create_wrapper:
                    cwd = os.getcwd()
                    os.chdir(out)
                    try:
                        M.create_wrapper(f, outdir=out)
                    finally:
                        os.chdir(cwd)
                else:
                    M.main_with_args(args_for(f, out, option, language))
            except SystemExit as e:
                return "exit", str(e)
            except (RuntimeError, NotImplementedError) as e:
                return "rejected", str(e)[:100]
            except Exception as e:
                tb = traceback.extract_tb(e.__traceback__)
                return "internal", "%s: %s [%s]" % (type(e).__name__, str(e)[:100], " <- ".join(
                    "%s:%d" % (x.filename.split("/")[-1], x.lineno) for x in tb[-3:]))
        files = {}
        for n in sorted(os.listdir(out)):
            if n.endswith((".c", ".cpp", ".h", ".f", ".hpp")):
                files[n] = open(os.path.join(out, n)).read()
        return "ok", files
    finally:
        shutil.rmtree(d, ignore_errors=True)


def run_rel(yaml_text, via_create_wrapper):
    """both entry points with the SAME relative output directory ('build/source', as in the documentation), from the same
    working directory; every generated text file is compared, setup.py included (it names the sources)"""
    from shroud import main as M
    d = tempfile.mkdtemp(prefix="mopt_")
    cwd = os.getcwd()
    try:
        f = os.path.join(d, "opt.yaml")
        open(f, "w").write(yaml_text)
        os.makedirs(os.path.join(d, "build", "source"))
        os.chdir(d)
        with contextlib.redirect_stdout(io.StringIO()):
            try:
                if via_create_wrapper:
                    M.create_wrapper("opt.yaml", outdir="build/source")
                else:
                    a = args_for("opt.yaml", "build/source")
                    a.logdir = ""
                    a.write_version = True       # the command line's default, and what create_wrapper sets
                    M.main_with_args(a)
            except SystemExit as e:
                return "exit", str(e)
            except (RuntimeError, NotImplementedError) as e:
                return "rejected", str(e)[:100]
            except Exception as e:
                return "internal", "%s: %s" % (type(e).__name__, str(e)[:100])
        files = {}
        out = os.path.join(d, "build", "source")
        for n in sorted(os.listdir(out)):
            if n.endswith((".c", ".cpp", ".h", ".f", ".hpp", ".py")):
                files[n] = open(os.path.join(out, n)).read()
        return "ok", files
    finally:
        os.chdir(cwd)
        shutil.rmtree(d, ignore_errors=True)


def run_splicer_path(via_create_wrapper, explicit_path):
    """the YAML file names a splicer file (`splicer: c: [csplicer.c]`) and lives in a SUBDIRECTORY of the working directory;
    a csplicer.c exists in the working directory, next to the YAML file and in a third directory.  Without --path the
    command line searches the working directory; create_wrapper(path=None) must do the same, and path=[d] must equal
    --path d."""
    from shroud import main as M
    d = tempfile.mkdtemp(prefix="mopt_")
    cwd = os.getcwd()
    try:
        os.makedirs(os.path.join(d, "src"))
        os.makedirs(os.path.join(d, "third"))
        os.makedirs(os.path.join(d, "out"))
        open(os.path.join(d, "src", "opt.yaml"), "w").write(YAML % "splicer:\n  c:\n  - csplicer.c")
        for where, expr in ((".", "1"), ("src", "2"), ("third", "3")):
            open(os.path.join(d, where, "csplicer.c"), "w").write(
                "// splicer begin function.fone\nint from_dir_%s = %s;\n// splicer end function.fone\n" % (expr, expr))
        os.chdir(d)
        with contextlib.redirect_stdout(io.StringIO()):
            try:
                if via_create_wrapper:
                    if explicit_path:
                        M.create_wrapper(os.path.join("src", "opt.yaml"), outdir="out", path=["third"])
                    else:
                        M.create_wrapper(os.path.join("src", "opt.yaml"), outdir="out")
                else:
                    a = args_for(os.path.join("src", "opt.yaml"), "out")
                    a.logdir = ""
                    a.path = ["third"] if explicit_path else []
                    M.main_with_args(a)
            except SystemExit as e:
                return "exit", str(e)
            except (RuntimeError, NotImplementedError) as e:
                return "rejected", str(e)[:100]
            except Exception as e:
                return "internal", "%s: %s" % (type(e).__name__, str(e)[:100])
        files = {}
        for n in sorted(os.listdir(os.path.join(d, "out"))):
            if n.endswith((".c", ".cpp", ".h", ".f", ".hpp")):
                files[n] = open(os.path.join(d, "out", n)).read()
        return "ok", files
    finally:
        os.chdir(cwd)
        shutil.rmtree(d, ignore_errors=True)


def check(inp):
    if inp["kind"] == "create_wrapper_splicer_path":
        for explicit in (False, True):
            a, b = run_splicer_path(False, explicit), run_splicer_path(True, explicit)
            what = "path=['third'] / --path third" if explicit else "no path given"
            if b[0] == "internal":
                return "create_wrapper: internal exception %s (%s)" % (b[1], what)
            if a[0] != b[0]:
                return "command line -> %s, create_wrapper -> %s (splicer file named in the YAML file, %s)" % (a[0], b[0], what)
            if a[0] == "ok" and a[1] != b[1]:
                diff = sorted(n for n in set(a[1]) | set(b[1]) if a[1].get(n) != b[1].get(n))
                return "create_wrapper differs from the command line in %s: the splicer file named in the YAML file is looked up " \
                       "in another directory (%s)" % (diff, what)
            if a[0] == "ok" and not any("from_dir_" in t for t in a[1].values()):
                return None if a[0] != "ok" else "monitor: the splicer block did not reach the output (scenario broken)"
        return None
    if inp["kind"] == "create_wrapper_relative":
        y = YAML % "options:\n  wrap_python: true"
        a, b = run_rel(y, False), run_rel(y, True)
        if b[0] == "internal":
            return "create_wrapper: internal exception %s" % b[1]
        if a[0] != b[0]:
            return "command line -> %s, create_wrapper -> %s (relative outdir)" % (a[0], b[0])
        if a[0] == "ok" and a[1] != b[1]:
            diff = sorted(n for n in set(a[1]) | set(b[1]) if a[1].get(n) != b[1].get(n))
            return "create_wrapper(outdir='build/source') differs from the command line with --outdir build/source in %s" % diff
        return None
    kind = inp["kind"]
    if kind == "option":
        name, ytext, ctext = inp["name"], inp["yaml_value"], inp["cli_value"]
        a = run(YAML % ("options:\n  %s: %s" % (name, ytext)))
        b = run(YAML % "", option=["%s=%s" % (name, ctext)])
        if b[0] == "internal":
            return "--option %s=%s: internal exception %s" % (name, ctext, b[1])
        if a[0] == "internal":
            return None
        if a[0] != b[0]:
            return "options: {%s: %s} in YAML -> %s, --option %s=%s -> %s" % (name, ytext, a[0], name, ctext, b[0])
        if a[0] == "ok" and a[1] != b[1]:
            diff = [n for n in a[1] if a[1][n] != b[1].get(n)]
            return "--option %s=%s differs from the YAML option in %s" % (name, ctext, diff)
        return None
    if kind == "malformed":
        b = run(YAML % "", option=[inp["text"]])
        if b[0] == "internal":
            return "--option %s: internal exception %s" % (inp["text"], b[1])
        return None
    if kind == "language_override":
        # the command line wins over the file: --language c on a file that says c++ equals a file that says c
        a = run(YAML % ("language: %s" % inp["cli"]))
        b = run(YAML % ("language: %s" % inp["yaml"]), language=inp["cli"])
        if a != b:
            return "--language %s on a file with 'language: %s' differs from a file with 'language: %s'" % (inp["cli"], inp["yaml"], inp["cli"])
        return None
    if kind == "option_override":
        name = inp["name"]
        a = run(YAML % ("options:\n  %s: %s" % (name, inp["cli"])))
        b = run(YAML % ("options:\n  %s: %s" % (name, inp["yaml"])), option=["%s=%s" % (name, inp["cli"])])
        if a[0] == "internal" or b[0] == "internal":
            return None
        if a != b:
            return "--option %s=%s on a file with %s: %s differs from a file with %s: %s" % (name, inp["cli"], name, inp["yaml"], name, inp["cli"])
        return None
    if kind == "language":
        a = run(YAML % ("language: %s" % inp["lang"]))
        b = run(YAML % "", language=inp["lang"])
        if a != b:
            return "--language %s differs from the YAML field" % inp["lang"]
        return None
    if kind == "create_wrapper":
        a = run(YAML % "")
        b = run(YAML % "", via_create_wrapper=True)
        if b[0] == "internal":
            return "create_wrapper: internal exception %s" % b[1]
        if a != b:
            return "create_wrapper output differs from the command line"
        return None
    return None


def candidates(seed, around=None):
    yield {"kind": "create_wrapper"}
    yield {"kind": "create_wrapper_relative"}
    yield {"kind": "create_wrapper_splicer_path"}
    for lang in ("c", "c++"):
        yield {"kind": "language", "lang": lang}
    yield {"kind": "language_override", "yaml": "c++", "cli": "c"}
    yield {"kind": "language_override", "yaml": "c", "cli": "c++"}
    for n, y, c in (("F_line_length", "100", "60"), ("debug", "false", "true"), ("wrap_fortran", "true", "false"),
                    ("C_name_template", "{C_prefix}YY{function_name}", "{C_prefix}XX{function_name}")):
        yield {"kind": "option_override", "name": n, "yaml": y, "cli": c}
    for t in ("debug", "foo=", "=3", "F_line_length", "a=b=c"):
        yield {"kind": "malformed", "text": t}
    opts = [("F_line_length", "40", "40"), ("C_line_length", "30", "30"), ("debug", "true", "true"), ("debug", "True", "True"),
            ("wrap_fortran", "false", "false"), ("F_standard", "2008", "2008"), ("wrap_python", "true", "True"),
            ("C_name_template", "{C_prefix}XX{function_name}", "{C_prefix}XX{function_name}"),
            ("F_assumed_rank_max", "3", "3"), ("doxygen", "false", "False"), ("F_CFI", "true", "true"),
            ("literalinclude", "true", "true"), ("return_scalar_pointer", "scalar", "scalar")]
    for n, y, c in opts:
        yield {"kind": "option", "name": n, "yaml_value": y, "cli_value": c}
