"""Executable statement of C13 P1-P5 for util.WrapperMixin.write_continue (independent of the proof's ghost
code): run the real method, then check the physical lines against the logical line."""
import itertools
import random


class FP(object):
    def __init__(self):
        self.out = []

    def write(self, s):
        self.out.append(s)


def del_hints(s):
    return s.replace("\t", "").replace("\f", "")


STRICT = [False]


def spec_check(line, spaces, indent, linelen, cont, out):
    if not out:
        return "nothing written"
    extra = 2 if line[0] == "\r" else 1
    body = line[1:] if line[0] == "\r" else line
    src = del_hints(body)
    # break points (offsets into src) and forced breaks
    allowed, forced = set(), []
    off = 0
    for ch in body:
        if ch == "\t":
            allowed.add(off)
        elif ch == "\f":
            allowed.add(off)
            forced.append(off)
        else:
            off += 1
    bodies = []
    for j, w in enumerate(out):
        last = j == len(out) - 1
        suffix = "\n" if last else cont + "\n"
        ind = spaces * indent if j == 0 else spaces * (indent + extra)
        if not w.endswith(suffix):
            return "P2 line %d does not end with %r: %r" % (j, suffix, w)
        if not w.startswith(ind) or len(w) < len(ind) + len(suffix):
            return "P5 line %d is not indented by %r: %r" % (j, ind, w)
        b = w[len(ind):len(w) - len(suffix)]
        if "\t" in b or "\f" in b or "\r" in b and "\r" not in src:
            return "directive character emitted in line %d: %r" % (j, w)
        bodies.append((ind, b))

    # P1/P3: src == b0 ws1 b1 ws2 b2 ... with each ws_i whitespace dropped at a break point
    def match(j, pos):
        if j == len(bodies):
            return [] if src[pos:].strip() == "" and pos == len(src) or (pos <= len(src) and src[pos:] == "") else None
        b = bodies[j][1]
        ks = [0]
        if j > 0:
            k = 0
            while pos + k < len(src) and src[pos + k].isspace():
                k += 1
                ks.append(k)
        for k in ks:
            if j > 0 and STRICT[0] and not any(pos <= a <= pos + k for a in allowed):
                continue      # only alignments whose breaks sit at break hints (P3) are looked for first
            if src.startswith(b, pos + k):
                # a break happened at offset `pos` (before line j, j > 0)
                rest = match(j + 1, pos + k + len(b))
                if rest is not None:
                    return [(pos, pos + k)] + rest
        # trailing whitespace-only part dropped at the very end after a break
        return None
    # the alignment of the emitted bodies with the logical line is not unique when whitespace was dropped: an alignment
    # in which every break sits at a hint is preferred; only if none exists the unconstrained one is used (and then P3 fails)
    STRICT[0] = True
    m = match(0, 0)
    if m is None:
        STRICT[0] = False
        m = match(0, 0)
    if m is None:
        # allow whitespace dropped at the end (a blank part after the last break)
        stripped = src.rstrip()
        if stripped != src:
            src2 = stripped
            cat = "".join(b for _, b in bodies)
            if cat.replace(" ", "") == src2.replace(" ", ""):
                m = "tail"
        if m is None:
            return "P1 text not preserved: src=%r bodies=%r" % (src, [b for _, b in bodies])
    import re as _re
    ambiguous = any(seg and not seg.strip() for seg in _re.split(r'[\t\f]', body))
    if ambiguous:
        # a part that is only whitespace: it is dropped after a break or emitted as a blank continuation line, and the
        # bodies can then be aligned with the logical line in several ways -- only P1 (text), P2, P5 are judged here
        return None
    if m != "tail":
        breaks = [p for (p, q) in m[1:]]
        ends = [q for (p, q) in m[1:]]
        for p, q in m[1:]:
            # the break must sit at a designated break point: some allowed offset in [p, q]
            if not any(p <= a <= q for a in allowed):
                return "P3 break at offset %d..%d of %r is not at a break hint" % (p, q, src)
        for f in forced:
            if not any(p <= f <= q for p, q in m[1:]):
                return "form feed at offset %d did not force a break" % f
    # P4 length
    pos = 0
    starts = None
    if m != "tail":
        # where each emitted body starts in the logical line: from the alignment found above (first line at 0, line j
        # after the j-th break)
        starts = [q for (p_, q) in m]
    for j, (ind, b) in enumerate(bodies):
        if len(ind) + len(b) > linelen and b.strip():
            # (a body that is only whitespace cannot be aligned with the logical line unambiguously: not judged)
            if starts is not None and j < len(starts):
                start = starts[j]
            else:
                start = src.find(b, pos) if b else pos
            inside = [a for a in allowed if start < a < start + len(b)]
            if inside:
                return "P4 line %d too long (%d > %d) although it could break at %s: %r" % (
                    j, len(ind) + len(b), linelen, inside, b)
        pos += len(b)
    return None


def check(inp):
    from shroud import util

    class W(util.WrapperMixin):
        pass
    w = W()
    w.linelen, w.indent, w.cont = inp["linelen"], inp["indent"], inp["cont"]
    fp = FP()
    w.write_continue(fp, inp["line"], inp["spaces"])
    return spec_check(inp["line"], inp["spaces"], inp["indent"], inp["linelen"], inp["cont"], fp.out)


def candidates(seed, around=None):
    rnd = random.Random(seed)
    alpha = ["a", "b", " ", "\t", "\f", ","]
    if around and "line" in around:
        for ll in range(0, 12):
            for ind in (0, 1, 2):
                d = dict(around)
                d["linelen"], d["indent"] = ll, ind
                yield d
    conts = ["&", "", " \\"]
    # quotes, apostrophes and escapes next to break hints (a hint is a hint wherever it stands)
    for body in ("x = 'a\tb',\t y", 'call f("a\tb",\t c)', "it's\t a,\t b,\t c", "s = '\\'',\t t,\t u", 'a "\f b"\f c', "1'000,\t 2"):
        for ll in (5, 8, 12, 72):
            yield {"line": body, "spaces": " ", "indent": 1, "linelen": ll, "cont": "&"}
    # exhaustive small scope first
    for n in range(1, 6):
        for tup in itertools.product(alpha, repeat=n):
            line = "".join(tup)
            for cr in ("", "\r"):
                for ll in (1, 3, 5, 8):
                    yield {"line": cr + line if cr + line else "a", "spaces": " ", "indent": rnd.choice([0, 1, 2]),
                           "linelen": ll, "cont": conts[(n + ll) % 3]}
    while True:
        n = rnd.randint(1, 30)
        line = "".join(rnd.choice(alpha + ["word", "x = y", "  "]) for _ in range(n))
        yield {"line": rnd.choice(["", "\r"]) + line, "spaces": rnd.choice(["", " ", "    "]),
               "indent": rnd.randint(0, 4), "linelen": rnd.choice([1, 5, 10, 20, 40, 72, 132]), "cont": rnd.choice(conts)}
