"""C15 executable statement: wrapper selection is honoured and the file lists match what was written."""
import argparse
import contextlib
import io
import itertools
import os
import shutil
import tempfile

YAML = """library: sel
cxx_header: sel.hpp
options:
%s
declarations:
- decl: void fone(int arg1, const char *name)
- decl: class Widget
  declarations:
  - decl: Widget()
  - decl: ~Widget()
  - decl: int size()
- decl: std::vector<int> *getvec() +owner(caller)
- decl: void setval(int v)
  options:
    wrap_c: false
    wrap_fortran: false
- decl: void setval(double v)
- decl: void setval(const char *v)
- decl: struct Pt { int x; double y; }
- decl: double norm(Pt *p)
- decl: class Chain
  declarations:
  - decl: Chain()
  - decl: Chain *grow(int n)
    return_this: true
  - decl: int length()
  - decl: int tally +readonly
  - decl: double factor
"""
# names every language that is switched on must know (class methods included)
PRESENT = ["fone", "Widget", "size", "getvec", "norm", "Chain", "grow", "length"]

KIND = {".c": "c", ".cpp": "c", ".h": "c", ".hpp": "c", ".f": "f", ".f90": "f", ".lua": "lua", ".py": "py"}


def classify(name):
    if name.startswith("py") or name == "setup.py":
        return "py"
    if name.startswith("lua"):
        return "lua"
    ext = os.path.splitext(name)[1]
    return KIND.get(ext, "other")


def run(flags, dirs):
    from shroud import main as M
    base = tempfile.mkdtemp(prefix="msel_")
    try:
        f = os.path.join(base, "sel.yaml")
        open(f, "w").write(YAML % "\n".join("  wrap_%s: %s" % (k, "true" if v else "false") for k, v in sorted(flags.items())))
        a = argparse.Namespace()
        a.cmake = ""
        a.filename = [f]
        for k in ("outdir", "outdir_c_fortran", "outdir_python", "outdir_lua", "outdir_yaml", "logdir"):
            d = os.path.join(base, dirs.get(k, "out")) if (k in dirs or k in ("outdir", "logdir")) else ""
            if d:
                os.makedirs(d, exist_ok=True)
            setattr(a, k, d)
        a.cfiles = os.path.join(base, "cfiles.txt")
        a.ffiles = os.path.join(base, "ffiles.txt")
        a.path = []
        a.write_helpers = a.write_statements = a.yaml_types = ""
        a.write_version = False
        a.option = []
        a.language = None
        with contextlib.redirect_stdout(io.StringIO()):
            M.main_with_args(a)
        files = {}
        for root, _, names in os.walk(base):
            for n in names:
                p = os.path.join(root, n)
                rel = os.path.relpath(p, base)
                if n.endswith((".yaml", ".log", ".json", ".txt")):
                    continue
                files[rel] = open(p, "rb").read()
        cf = open(a.cfiles).read().split()
        ff = open(a.ffiles).read().split()
        return files, [os.path.relpath(x, base) for x in cf], [os.path.relpath(x, base) for x in ff]
    finally:
        shutil.rmtree(base, ignore_errors=True)


NESTED = """library: sel
cxx_header: sel.hpp
options:
%s
declarations:
- decl: namespace outer
  declarations:
  - decl: namespace inner
    declarations:
    - decl: void deep(int a)
      options:
        wrap_%s: true
%s
"""


def check_nested(inp):
    """a wrapper switched off for the library but on for one declaration in a nested namespace is still produced"""
    global YAML
    saved = YAML
    extra = "        wrap_c: true\n" if inp["enable"] == "fortran" else ""
    YAML = NESTED % ("%s", inp["enable"], extra)
    try:
        files, cf, ff = run(inp["flags"], {})
    except (RuntimeError, SystemExit):
        return None
    finally:
        YAML = saved
    key = {"python": "py", "lua": "lua", "fortran": "f", "c": "c"}[inp["enable"]]
    have = [r for r in files if classify(os.path.basename(r)) == key]
    text = b" ".join(files[r] for r in have)
    if not have or b"deep" not in text:
        return "wrap_%s is on for outer::inner::deep but no %s wrapper for it was written (files: %s)" % (
            inp["enable"], inp["enable"], sorted(files))
    return None


OFFDECL = """library: sel
cxx_header: sel.hpp
options:
%%s
declarations:
- decl: void keep(int a)
- decl: void hidden(int a, int b = 1, double c = 2.0)
  options:
%s
"""


def check_declaration_off(inp):
    """a function whose wrapper is off for a language has no wrapper of that language, for none of its signatures"""
    global YAML
    saved = YAML
    YAML = OFFDECL % "".join("    wrap_%s: false\n" % l for l in inp["declaration_off"])
    try:
        files, cf, ff = run({"python": False, "lua": False}, {})
    except (RuntimeError, SystemExit):
        return None
    finally:
        YAML = saved
    import re
    for rel, data in sorted(files.items()):
        text = data.decode("utf-8", "replace")
        kind = classify(os.path.basename(rel))
        if kind == "c" and "c" in inp["declaration_off"] and re.search(r'\bSEL_hidden\w*\s*\(', text):
            return "wrap_c is off for 'hidden' but %s declares/defines a C wrapper for it" % rel
        if kind == "f" and "fortran" in inp["declaration_off"]:
            m = re.search(r'^\s*(subroutine|function)\s+hidden\w*', text, re.M | re.I)
            if m:
                return "wrap_fortran is off for 'hidden' but %s has the Fortran wrapper %r" % (rel, m.group(0).strip())
            if "c" in inp["declaration_off"] and re.search(r'c_hidden', text, re.I):
                return "wrap_c and wrap_fortran are off for 'hidden' but %s has an interface for it" % rel
    return None


OFFTYPE = """library: sel
cxx_header: sel.hpp
options:
%%s
declarations:
- decl: void keep(int a)
- decl: %s
  options:
%s
%s
- decl: %s
%s
"""
TYPE_DECLS = {
    "struct": ("struct Hidden { int i; double d; }", "", "struct Shown { int j; }", ""),
    "class": ("class Hidden", "  declarations:\n  - decl: Hidden()\n  - decl: ~Hidden()\n  - decl: void poke(int a)", "class Shown",
              "  declarations:\n  - decl: void peek(int a)"),
}


def check_type_off(inp):
    """a struct / class whose wrapper is off for a language does not appear in that language's files"""
    global YAML
    saved = YAML
    d = TYPE_DECLS[inp["type_off"]]
    YAML = OFFTYPE % (d[0], "".join("    wrap_%s: false\n" % l for l in inp["langs"]), d[1], d[2], d[3])
    try:
        files, cf, ff = run({"python": bool(inp.get("python")), "lua": False}, {})
    except (RuntimeError, SystemExit):
        return None
    finally:
        YAML = saved
    import re
    shown = {"c": False, "f": False}
    for rel, data in sorted(files.items()):
        text = data.decode("utf-8", "replace")
        kind = classify(os.path.basename(rel))
        if kind in shown and re.search(r"shown", text, re.I):
            shown[kind] = True
        for lang, k in (("c", "c"), ("fortran", "f"), ("python", "py")):
            if kind == k and lang in inp["langs"] and re.search(r"hidden", text, re.I):
                ln = next(l for l in text.split("\n") if re.search(r"hidden", l, re.I))
                return "wrap_%s is off for the %s 'Hidden' but %s mentions it: %r" % (lang, inp["type_off"], rel, ln.strip()[:80])
    if not (shown["c"] and shown["f"]):
        return "the %s 'Shown' (wrappers on) is missing from the C or Fortran files: %s" % (inp["type_off"], shown)
    return None


FLATNS = """library: sel
cxx_header: sel.hpp
options:
%%s
declarations:
- decl: void keep(int a)
- decl: namespace inner
  options:
    F_flatten_namespace: %s
    wrap_fortran: false
  declarations:
  - decl: void hidden1(int a)
  - decl: enum HiddenColor { HIDDENRED, HIDDENBLUE }
  - decl: namespace deeper
    declarations:
    - decl: void hidden2(int a)
"""


def check_namespace_off(inp):
    """a namespace switched off for Fortran contributes nothing to any Fortran module, flattened or not"""
    global YAML
    saved = YAML
    lang = inp.get("lang", "fortran")
    YAML = (FLATNS % ("true" if inp["flatten"] else "false")).replace("    wrap_fortran: false", "    wrap_%s: false" % lang)
    try:
        files, cf, ff = run({"python": lang == "python", "lua": lang == "lua"}, {})
    except (RuntimeError, SystemExit):
        return None
    finally:
        YAML = saved
    import re
    seen_keep = False
    key = {"fortran": "f", "python": "py", "lua": "lua"}[lang]
    for rel, data in sorted(files.items()):
        if classify(os.path.basename(rel)) != key:
            continue
        text = data.decode("utf-8", "replace")
        seen_keep = seen_keep or "keep" in text
        m = re.search(r"^.*(hidden|inner).*$", text, re.I | re.M)
        if m:
            return "wrap_%s is off for namespace inner (F_flatten_namespace %s) but %s has: %r" % (
                lang, inp["flatten"], rel, m.group(0).strip()[:80])
    if not seen_keep:
        return "the %s wrapper of 'keep' (wrappers on) is missing" % lang
    return None


SUBDIR = """library: sel
cxx_header: sel.hpp
options:
%s
format:
  C_header_filename: include/wrapsel.h
  F_impl_filename: fortran/wrapfsel.f
declarations:
- decl: void keep(int a)
- decl: class Box
  format:
    C_header_filename: include/wrapBox.h
  declarations:
  - decl: int size()
"""


def check_subdir(inp):
    """file names with a directory part (format fields): every listed file exists, every include of a generated header resolves"""
    global YAML
    saved = YAML
    YAML = SUBDIR
    try:
        base_marker = {}
        # the sub-directories must exist: the generator does not create them
        orig_makedirs = os.makedirs
        files, cf, ff = run_with_dirs({"python": False, "lua": False}, ["out/include", "out/fortran"])
    except (RuntimeError, SystemExit, OSError):
        return None
    finally:
        YAML = saved
    for rel in cf + ff:
        if rel not in files:
            return "the file list names %s, which was not written (written: %s)" % (rel, sorted(files))
    return None


def run_with_dirs(flags, subdirs):
    real_mkdtemp = tempfile.mkdtemp

    def mk(prefix="msel_"):
        d = real_mkdtemp(prefix=prefix)
        for s_ in subdirs:
            os.makedirs(os.path.join(d, s_), exist_ok=True)
        return d
    tempfile.mkdtemp = mk
    try:
        return run(flags, {})
    finally:
        tempfile.mkdtemp = real_mkdtemp


def check(inp):
    if inp.get("subdir"):
        return check_subdir(inp)
    if inp.get("declaration_off"):
        return check_declaration_off(inp)
    if "namespace_off" in inp:
        return check_namespace_off(inp)
    if inp.get("type_off"):
        return check_type_off(inp)
    if inp.get("nested"):
        return check_nested(inp)
    flags, dirs = inp["flags"], inp.get("dirs", {})
    try:
        files, cf, ff = run(flags, dirs)
    except (RuntimeError, SystemExit):
        return None
    kinds = {}
    for rel in files:
        kinds.setdefault(classify(os.path.basename(rel)), []).append(rel)
    for lang, key in (("c", "c"), ("fortran", "f"), ("python", "py"), ("lua", "lua")):
        if not flags.get(lang, True) and kinds.get(key):
            if key == "c" and flags.get("fortran", True):
                continue
            return "wrap_%s is off but files were written: %s" % (lang, sorted(kinds[key]))
    wc = sorted(r for r in files if classify(os.path.basename(r)) == "c")
    wf = sorted(r for r in files if classify(os.path.basename(r)) == "f")
    if sorted(cf) != wc:
        return "--cfiles lists %s, C/C++ files written are %s" % (sorted(cf), wc)
    if sorted(ff) != wf:
        return "--ffiles lists %s, Fortran files written are %s" % (sorted(ff), wf)
    want_dir = {"c": dirs.get("outdir_c_fortran", "out"), "f": dirs.get("outdir_c_fortran", "out"),
                "py": dirs.get("outdir_python", "out"), "lua": dirs.get("outdir_lua", "out")}
    for rel in files:
        k = classify(os.path.basename(rel))
        if k in want_dir and os.path.basename(rel) != "setup.py" and os.path.dirname(rel) != want_dir[k]:
            return "%s (kind %s) written to %s, designated directory is %s" % (os.path.basename(rel), k, os.path.dirname(rel), want_dir[k])
    # a declaration whose wrapper is on appears in that language's output
    for lang, key in (("c", "c"), ("fortran", "f"), ("python", "py"), ("lua", "lua")):
        if flags.get(lang, True) and (lang != "fortran" or flags.get("c", True)):
            text = b" ".join(files[r] for r in files if classify(os.path.basename(r)) == key).decode("utf-8", "replace").lower()
            for nm in PRESENT:
                if nm.lower() not in text:
                    return "wrap_%s is on but the %s output does not mention %r" % (lang, lang, nm)
    # the accessor functions generated for data members are C / Fortran functions: Python uses descriptors, Lua has none
    import re as _re
    for lang, key in (("python", "py"), ("lua", "lua")):
        if flags.get(lang, True):
            text = b" ".join(files[r] for r in files if classify(os.path.basename(r)) == key).decode("utf-8", "replace")
            m = _re.search(r"\b\w*(get_?tally|set_?tally|get_?factor|set_?factor)\w*", text, _re.I)
            if m:
                return "the %s output contains the member accessor %r, which is generated for C and Fortran only" % (lang, m.group(0))
    # python / lua switches do not change a byte of the C and Fortran files
    if flags.get("python") or flags.get("lua"):
        f2 = dict(flags)
        f2["python"] = f2["lua"] = False
        files2, _, _ = run(f2, dirs)
        for rel in files2:
            if classify(os.path.basename(rel)) in ("c", "f") and files.get(rel) != files2[rel]:
                return "%s changes when wrap_python/wrap_lua are switched on" % rel
    return None


def candidates(seed, around=None):
    for c, f, p, l in itertools.product([True, False], repeat=4):
        if f and not c:
            continue
        yield {"flags": {"c": c, "fortran": f, "python": p, "lua": l}}
    yield {"flags": {"c": True, "fortran": True, "python": True, "lua": True},
           "dirs": {"outdir_c_fortran": "cf", "outdir_python": "py", "outdir_lua": "lua"}}
    yield {"flags": {"c": True, "fortran": False, "python": False, "lua": True}, "dirs": {"outdir_lua": "lua", "outdir_python": "py"}}
    allflags = {"c": True, "fortran": True, "python": True, "lua": True}
    opts = {"outdir_c_fortran": "cf", "outdir_python": "py", "outdir_lua": "lua"}
    for r in (1, 2):
        for sub in itertools.combinations(sorted(opts), r):
            yield {"flags": allflags, "dirs": dict((k, opts[k]) for k in sub)}
    yield {"nested": True, "flags": {"c": False, "fortran": False, "python": False, "lua": False}, "enable": "python"}
    yield {"nested": True, "flags": {"c": False, "fortran": False, "python": False, "lua": False}, "enable": "lua"}
    yield {"nested": True, "flags": {"c": True, "fortran": False, "python": False, "lua": False}, "enable": "fortran"}
    # per-declaration switch-off must also hold for the shorter signatures of a function with default arguments
    yield {"declaration_off": ["fortran"]}
    yield {"declaration_off": ["c", "fortran"]}
    yield {"subdir": True}
    yield {"namespace_off": True, "flatten": True}
    yield {"namespace_off": True, "flatten": False}
    yield {"namespace_off": True, "flatten": False, "lang": "python"}
    yield {"namespace_off": True, "flatten": False, "lang": "lua"}
    for t in ("struct", "class"):
        yield {"type_off": t, "langs": ["fortran"]}
        yield {"type_off": t, "langs": ["c", "fortran"]}
        yield {"type_off": t, "langs": ["python"], "python": True}
        yield {"type_off": t, "langs": ["c", "fortran"], "python": True}
