"""C13 end to end: real write_lines + real write_continue.  The output is cut into one group of physical lines per
piece (a group ends at the first line that does not end with the continuation marker); each group must satisfy the
write_continue specification (m_write_continue.spec_check) for the piece's payload at the expected indentation;
verbatim pieces ('#', '^', empty) must be written unchanged."""
import itertools
import random
from m_write_continue import spec_check


class FP(object):
    def __init__(self):
        self.out = []

    def write(self, s):
        self.out.append(s)


def pieces(lines, indent):
    """expected (kind, payload, indent) per piece"""
    ev = []
    for line in lines:
        if isinstance(line, int):
            indent += int(line)
            continue
        for s in line.split("\n"):
            if s == "":
                ev.append(("raw", "\n", 0))
            elif s[0] == "#":
                ev.append(("raw", s + "\n", 0))
            elif s[0] == "^":
                ev.append(("raw", s[1:] + "\n", 0))
            elif s[0] == "@":
                ev.append(("wc", s[1:], indent))
            elif s[0] == "+":
                if s[-1] == "-":
                    ev.append(("wc", s[1:-1], indent + 1))
                else:
                    indent += 1
                    ev.append(("wc", s[1:], indent))
            else:
                k = len(s) - len(s.lstrip("-"))
                indent -= k
                t = s[k:]
                if t[-1:] == "+":
                    ev.append(("wc", t[:-1], indent))
                    indent += 1
                else:
                    ev.append(("wc", t, indent))
    return ev, indent


def check(inp):
    from shroud import util
    lines, cont, linelen = inp["lines"], "&", inp.get("linelen", 12)
    ev, ind_final = pieces(lines, inp["indent"])
    if any(k == "wc" and (p == "" or ind < 0) for k, p, ind in ev):
        return None   # degenerate piece / negative indentation: outside the contract's domain

    class W(util.WrapperMixin):
        pass
    w = W()
    w.indent, w.linelen, w.cont = inp["indent"], linelen, cont
    fp = FP()
    w.write_lines(fp, lines, " ")
    text = "".join(fp.out)
    phys = text.split("\n")
    if phys and phys[-1] == "":
        phys.pop()
    phys = [p + "\n" for p in phys]
    pos = 0
    for kind, payload, ind in ev:
        if kind == "raw":
            want = payload
            n = want.count("\n")
            got = "".join(phys[pos:pos + n])
            if got != want:
                return "verbatim piece %r written as %r" % (want, got)
            pos += n
            continue
        grp = []
        while pos < len(phys):
            grp.append(phys[pos])
            pos += 1
            if not grp[-1].endswith(cont + "\n"):
                break
        v = spec_check(payload, " ", ind, linelen, cont, grp)
        if v:
            return "piece %r at indent %d: %s" % (payload, ind, v)
    if pos != len(phys):
        return "extra output lines: %r" % phys[pos:]
    if w.indent != ind_final:
        return "indent %r expected %r" % (w.indent, ind_final)
    return None


def candidates(seed, around=None):
    rnd = random.Random(seed)
    alpha = ["a", "+", "-", "#", "@", "^", "\n", " ", "\t", "\r", "b;"]
    for n in range(1, 5):
        for tup in itertools.product(alpha, repeat=n):
            s = "".join(tup)
            if "&" in s:
                continue
            yield {"lines": [s], "indent": 3, "linelen": 8}
    while True:
        lines = []
        for _ in range(rnd.randint(1, 4)):
            if rnd.random() < 0.2:
                lines.append(rnd.choice([1, 2]))
            else:
                lines.append("".join(rnd.choice(alpha + ["xy", "call f(", "\f"]) for _ in range(rnd.randint(0, 10))))
        yield {"lines": lines, "indent": rnd.randint(4, 9), "linelen": rnd.choice([6, 12, 40])}
