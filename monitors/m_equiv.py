"""C14 bounded two-run relations on the REAL driver (main_with_args), byte comparison of every generated source file:
  block      an empty block (no options, no format) around declarations is transparent, in every container
             (library, namespace, class, class template with instantiations), nested blocks included
  scope      a function-scoped option / format field set on a container (block, namespace, class, class template,
             library) equals the same field set on each function the container holds; siblings outside are unaffected
  attrs      attributes written inline (+intent(out)...) equal the same attributes given under attrs / fattrs
Never counted as proof."""
import argparse
import contextlib
import copy
import io
import itertools
import os
import random
import shutil
import tempfile
import traceback

import yaml

FUNCS = [
    "int push(const char *s)",
    "void pop(int n)",
    "double total(const double *v +rank(1), int n +implied(size(v)))",
    "const std::string& label()",
    "void fill(int *out +intent(out)+rank(1), int n)",
    "bool empty() const",
]
FREE_ONLY = ["bool empty() const"]      # const qualifier: methods only

# function-scoped customisations (docs/reference.rst: options/format fields read per function)
CUSTOM = [
    {"format": {"F_result": "res"}},
    {"format": {"C_result": "cres"}},
    {"options": {"F_force_wrapper": True}},
    {"options": {"F_string_len_trim": False}},
    {"options": {"F_create_bufferify_function": False}},
    {"options": {"C_name_template": "{C_prefix}{C_name_scope}x_{underscore_name}{function_suffix}{template_suffix}"}},
    {"options": {"F_name_impl_template": "{F_name_scope}impl_{underscore_name}{function_suffix}{template_suffix}"}},
    {"options": {"F_force_wrapper": True}, "format": {"F_result": "val"}},
]
# class-level customisations (file names, derived-type names) that an instantiation may also carry
INST_CUSTOM = [
    {"options": {"C_header_filename_class_template": "hdr{file_scope}.{C_header_filename_suffix}"}},
    {"options": {"C_impl_filename_class_template": "imp{file_scope}.{C_impl_filename_suffix}"}},
    {"options": {"F_derived_name_template": "{underscore_name}_t"}},
    {"options": {"C_name_scope_template": "s_{cxx_class}_"}} if False else {"options": {"F_force_wrapper": True, "debug": True}},
]
CONTAINERS = ["library", "namespace", "class", "template"]


def fdecl(text, custom=None):
    d = {"decl": text}
    if custom:
        d.update(copy.deepcopy(custom))
    return d


def wrap_container(kind, decls, custom=None):
    """-> top-level YAML dict with `decls` as the content of a container of the given kind"""
    top = {"library": "eqv", "cxx_header": "eqv.hpp"}
    if kind == "library":
        top["declarations"] = decls
        if custom:
            top.update(copy.deepcopy(custom))
        return top
    if kind == "namespace":
        c = {"decl": "namespace outer", "declarations": decls}
    elif kind == "class":
        c = {"decl": "class Box", "declarations": decls}
    else:
        c = {"decl": "template<typename T> class vec", "cxx_template": [{"instantiation": "<int>"}, {"instantiation": "<double>"}],
             "declarations": decls}
    if custom:
        c.update(copy.deepcopy(custom))
    top["declarations"] = [c, {"decl": "void sibling(const char *name)"}]
    return top


def usable(kind, f):
    if kind in ("library", "namespace") and f in FREE_ONLY:
        return False
    return True


def args_for(fname, outdir):
    a = argparse.Namespace()
    a.cmake = a.cfiles = a.ffiles = ""
    a.filename = [fname]
    a.outdir = a.logdir = outdir
    a.outdir_c_fortran = a.outdir_lua = a.outdir_python = a.outdir_yaml = ""
    a.path = []
    a.write_helpers = a.write_statements = a.yaml_types = ""
    a.write_version = False
    a.option = []
    a.language = None
    return a


def run(doc):
    from shroud import main as M
    d = tempfile.mkdtemp(prefix="meqv_")
    try:
        f = os.path.join(d, "eqv.yaml")
        open(f, "w").write(yaml.safe_dump(doc, sort_keys=False, default_flow_style=False))
        out = os.path.join(d, "out")
        os.makedirs(out)
        with contextlib.redirect_stdout(io.StringIO()):
            try:
                M.main_with_args(args_for(f, out))
            except SystemExit as e:
                return "exit", str(e)[:100]
            except (RuntimeError, NotImplementedError) as e:
                return "rejected", str(e)[:100]
            except Exception as e:
                tb = traceback.extract_tb(e.__traceback__)
                return "internal", "%s: %s [%s]" % (type(e).__name__, str(e)[:100], " <- ".join(
                    "%s:%d" % (x.filename.split("/")[-1], x.lineno) for x in tb[-3:]))
        files = {}
        for n in sorted(os.listdir(out)):
            if not n.endswith((".log", ".json")):
                files[n] = open(os.path.join(out, n)).read()
        return "ok", files
    finally:
        shutil.rmtree(d, ignore_errors=True)


def compare(a, b, what):
    if a[0] == "internal" or b[0] == "internal":
        return None                      # C17's concern, not this relation
    if a[0] != b[0]:
        return "%s: one form gives %s (%s), the other %s (%s)" % (what, a[0], a[1] if a[0] != "ok" else "", b[0], b[1] if b[0] != "ok" else "")
    if a[0] != "ok":
        return None
    if sorted(a[1]) != sorted(b[1]):
        return "%s: different file sets %s / %s" % (what, sorted(a[1]), sorted(b[1]))
    for n in sorted(a[1]):
        if a[1][n] != b[1][n]:
            la, lb = a[1][n].split("\n"), b[1][n].split("\n")
            k = next((i for i in range(min(len(la), len(lb))) if la[i] != lb[i]), min(len(la), len(lb)))
            return "%s: %s differs at line %d: %r / %r" % (what, n, k + 1, (la + [""])[k][:90], (lb + [""])[k][:90])
    return None


def attr_split(decl):
    """'void f(int *a +intent(out)+rank(1)) +name(g)' -> plain decl, attrs {a: {...}}, fattrs {...}"""
    from shroud import declast
    if decl.startswith(("Box(", "~Box(")):         # constructor / destructor: needs the class to parse; one function attribute
        plain, _, at = decl.partition(" +")
        k, _, v = at.partition("(")
        return plain, {}, {k: v.rstrip(")")}
    a = declast.check_decl(decl)
    attrs, fattrs = {}, {}
    for k, v in a.attrs.items():
        if v is not None and not k.startswith("_"):
            fattrs[k] = v
    a.attrs.clear() if hasattr(a.attrs, "clear") else None
    for p in a.params or []:
        mine = dict((k, v) for k, v in p.attrs.items() if v is not None and not k.startswith("_"))
        if mine:
            attrs[p.name] = mine
        p.attrs.clear() if hasattr(p.attrs, "clear") else None
    return a.gen_decl(), attrs, fattrs


ATTR_DECLS = [
    "void fill(int *out +intent(out)+rank(1), int n)",
    "void get(int *n +intent(out))",
    "double total(const double *v +rank(1), int n +implied(size(v)))",
    "int *data(int *n +intent(out)+hidden) +dimension(n)",
    "void rename(int n) +name(renamed)",
    "char *title() +deref(allocatable)",
    "void buf(char *text +intent(out)+charlen(20))",
    "int *owned() +owner(caller)+dimension(3)",
    "void vals(double *a +intent(inout)+dimension(n), int n +value)",
    "void reg(void (*cb)(int i) +external)",
    "int apply(int (*fn)(int x) +external, int n +intent(in))",
    "void each(double *v +intent(inout)+rank(1), void (*visit)(double x) +external)",
    "Box() +name(create)",
    "~Box() +name(destroy)",
]


def check(inp):
    kind = inp["kind"]
    if kind == "block":
        cont, funcs, part = inp["container"], inp["funcs"], inp["partition"]
        direct = [fdecl(f) for f in funcs]
        blocked, i = [], 0
        for size, depth in part:
            group = [fdecl(f) for f in funcs[i:i + size]]
            i += size
            if depth == 0:
                blocked += group
            else:
                b = {"block": True, "declarations": group}
                for _ in range(depth - 1):
                    b = {"block": True, "declarations": [b]}
                blocked.append(b)
        blocked += [fdecl(f) for f in funcs[i:]]
        return compare(run(wrap_container(cont, direct)), run(wrap_container(cont, blocked)),
                       "empty block(s) %s in %s around %s" % (part, cont, funcs))
    if kind == "scope":
        cont, funcs, custom, place, inside = inp["container"], inp["funcs"], inp["custom"], inp["place"], inp["inside"]
        if place == "block":
            sel = funcs[:inside]
            a_decls = [dict({"block": True, "declarations": [fdecl(f) for f in sel]}, **copy.deepcopy(custom))] + \
                [fdecl(f) for f in funcs[inside:]]
            b_decls = [fdecl(f, custom) for f in sel] + [fdecl(f) for f in funcs[inside:]]
            a, b = wrap_container(cont, a_decls), wrap_container(cont, b_decls)
        else:   # on the container itself
            a = wrap_container(cont, [fdecl(f) for f in funcs], custom)
            b = wrap_container(cont, [fdecl(f, custom) for f in funcs])
            if cont == "library":
                pass
            else:
                pass
        return compare(run(a), run(b), "%s on the %s of %s vs on each of %s" % (custom, place, cont, funcs[:inside] if place == "block" else funcs))
    if kind == "enum_scope":
        # an option / format field of a block reaches the enumerations declared in it, as it reaches the functions
        cont, custom = inp["container"], inp["custom"]
        e1, e2 = "enum Color { RED = 1, BLUE }", "enum Mode { OFF, ON }"
        a_decls = [dict({"block": True, "declarations": [fdecl(e1), fdecl("void pop(int n)")]}, **copy.deepcopy(custom)), fdecl(e2)]
        b_decls = [fdecl(e1, custom), fdecl("void pop(int n)", custom), fdecl(e2)]
        return compare(run(wrap_container(cont, a_decls)), run(wrap_container(cont, b_decls)),
                       "%s on a block holding an enum vs on the enum itself (%s)" % (custom, cont))
    if kind == "override":
        # an inner scope may set a field back to a FALSY value (false, 0, ''): the block says X = outer, one function inside
        # says X = inner; equals every function of the block with X = outer except that one with X = inner
        cont, funcs, field, outer, inner = inp["container"], inp["funcs"], inp["field"], inp["outer"], inp["inner"]
        sec = inp.get("section", "options")
        a_decls = [{"block": True, sec: {field: outer},
                    "declarations": [fdecl(funcs[0], {sec: {field: inner}})] + [fdecl(f) for f in funcs[1:]]}]
        b_decls = [fdecl(funcs[0], {sec: {field: inner}})] + [fdecl(f, {sec: {field: outer}}) for f in funcs[1:]]
        return compare(run(wrap_container(cont, a_decls)), run(wrap_container(cont, b_decls)),
                       "%s %s = %r on a block and %r on one function inside vs the same values on each function" % (sec, field, outer, inner))
    if kind == "inst":
        # a class template: the customisation on EVERY instantiation equals the customisation on the class itself
        funcs, custom = inp["funcs"], inp["custom"]
        a = wrap_container("template", [fdecl(f) for f in funcs], custom)
        b = wrap_container("template", [fdecl(f) for f in funcs])
        b["declarations"][0]["cxx_template"] = [dict({"instantiation": i_}, **copy.deepcopy(custom)) for i_ in ("<int>", "<double>")]
        return compare(run(a), run(b), "%s on the class template vs on each of its instantiations" % (custom,))
    if kind == "attrs":
        decl, cont = inp["decl"], inp["container"]
        plain, attrs, fattrs = attr_split(decl)
        y = {"decl": plain}
        if attrs:
            y["attrs"] = attrs
        if fattrs:
            y["fattrs"] = fattrs
        x = fdecl(decl)
        if inp.get("generic"):
            x["fortran_generic"] = [{"decl": g} for g in inp["generic"]]
            y["fortran_generic"] = [{"decl": g} for g in inp["generic"]]
        return compare(run(wrap_container(cont, [x])), run(wrap_container(cont, [y])),
                       "inline attributes of %r vs attrs %s / fattrs %s in %s" % (decl, attrs, fattrs, cont))
    return None


def candidates(seed, around=None):
    rnd = random.Random(seed)
    # deterministic core: every container x block shape; every customisation x placement
    for cont in CONTAINERS:
        fs = [f for f in FUNCS if usable(cont, f)]
        yield {"kind": "block", "container": cont, "funcs": fs[:3], "partition": [[2, 1]]}
        yield {"kind": "block", "container": cont, "funcs": fs[:4], "partition": [[1, 0], [2, 2]]}
    # constructors and destructors inside a block of their class
    yield {"kind": "block", "container": "class", "funcs": ["Box()", "~Box()", "int push(const char *s)"], "partition": [[2, 1]]}
    yield {"kind": "block", "container": "class", "funcs": ["Box(int n)", "void pop(int n)", "~Box()"], "partition": [[1, 2], [2, 1]]}
    yield {"kind": "block", "container": "template", "funcs": ["vec()", "~vec()", "void pop(int n)"], "partition": [[2, 1]]}
    for cont in CONTAINERS:
        fs = [f for f in FUNCS if usable(cont, f)]
        for cu in CUSTOM:
            yield {"kind": "scope", "container": cont, "funcs": fs[:3], "custom": cu, "place": "block", "inside": 2}
    for cont in CONTAINERS:
        fs = [f for f in FUNCS if usable(cont, f)]
        for cu in CUSTOM:
            # name templates set on a class / library also name the functions shroud itself adds to the class
            # (get_instance, ...): those are not contained declarations, the relation does not speak about them
            if cont != "namespace" and "_template" in str(cu):
                continue
            yield {"kind": "scope", "container": cont, "funcs": fs[:3], "custom": cu, "place": "container", "inside": 3}
    for cont in ("library", "class"):
        fs = [f for f in FUNCS if usable(cont, f)][:3]
        for field, outer, inner in (("C_extern_C", True, False), ("F_force_wrapper", True, False), ("F_string_len_trim", False, True),
                                    ("debug", True, False), ("wrap_fortran", False, True), ("F_create_bufferify_function", False, True)):
            yield {"kind": "override", "container": cont, "funcs": fs, "field": field, "outer": outer, "inner": inner}
        yield {"kind": "override", "container": cont, "funcs": fs, "field": "F_result", "outer": "res", "inner": "rv2", "section": "format"}
    for cont in ("library", "namespace", "class"):
        for cu in ({"options": {"C_enum_member_template": "{C_prefix}X{C_name_scope}{enum_member_name}"}},
                   {"options": {"F_enum_member_template": "x_{F_name_scope}{enum_member_lower}"}},
                   {"options": {"C_enum_template": "{C_prefix}E{C_name_scope}{enum_name}"}}):
            yield {"kind": "enum_scope", "container": cont, "custom": cu}
    for cu in CUSTOM + INST_CUSTOM:
        yield {"kind": "inst", "funcs": [f for f in FUNCS][:3], "custom": cu}
    # the generic variants of a function see the attributes of its other arguments, however they were given
    yield {"kind": "attrs", "container": "library", "decl": "void scale(double *v +intent(inout)+rank(1), int n +implied(size(v)))",
           "generic": ["(float *v +rank(1))", "(double *v +rank(1))"]}
    yield {"kind": "attrs", "container": "class", "decl": "void scale(double *v +intent(inout)+rank(1), int n +implied(size(v)))",
           "generic": ["(float *v +rank(1))", "(double *v +rank(1))"]}
    for d in ATTR_DECLS:
        ctor = d.startswith(("Box", "~Box"))
        for cont in (["class"] if ctor else ["library", "class", "template"]):
            yield {"kind": "attrs", "decl": d, "container": cont}
    while True:
        cont = rnd.choice(CONTAINERS)
        fs = [f for f in FUNCS if usable(cont, f)]
        rnd.shuffle(fs)
        n = rnd.randint(2, len(fs))
        k = rnd.random()
        if k < 0.4:
            sizes, left = [], n
            while left > 0:
                s = rnd.randint(1, left)
                sizes.append([s, rnd.randint(0, 2)])
                left -= s
            yield {"kind": "block", "container": cont, "funcs": fs[:n], "partition": sizes}
        else:
            yield {"kind": "scope", "container": cont, "funcs": fs[:n], "custom": rnd.choice(CUSTOM),
                   "place": "block", "inside": rnd.randint(1, n)}
