"""C08 bounded stand-in at file level: in the files the REAL generator writes for a library, no C wrapper function is
defined twice, no Fortran module entity (procedure, interface body, type-bound name, generic name) is declared twice
(Fortran is case-insensitive), every generic interface lists distinct specifics -- and the compilers agree (a duplicate
is a redefinition error).

inputs: {"yaml": "<library text>"}
"""
import collections
import contextlib
import io
import os
import re
import shutil
import subprocess
import sys
import tempfile


def generate(text, d):
    from shroud import main as M
    p = os.path.join(d, "lib.yaml")
    open(p, "w").write(text)
    saved = sys.argv
    sys.argv = ["shroud", "--outdir", d, "--logdir", d, p]
    try:
        with contextlib.redirect_stdout(io.StringIO()), contextlib.redirect_stderr(io.StringIO()):
            M.main()
    except SystemExit as e:
        if e.code not in (0, None):
            raise RuntimeError("exit %r" % e.code)
    finally:
        sys.argv = saved


def check(inp):
    d = tempfile.mkdtemp(prefix="mnm_")
    try:
        try:
            generate(inp["yaml"], d)
        except Exception:
            return None
        names = sorted(os.listdir(d))
        # C: function definitions in the wrapper sources
        cdefs = collections.Counter()
        for n in names:
            if n.startswith("wrap") and n.endswith((".c", ".cpp")):
                text = open(os.path.join(d, n)).read()
                for m in re.finditer(r'^[A-Za-z_][\w\s\*:<>,]*?[\s\*]([A-Za-z_]\w*)\s*\([^;{)]*\)\s*\n\{', text, re.M):
                    cdefs[m.group(1)] += 1
        dup = sorted(k for k, v in cdefs.items() if v > 1)
        if dup:
            return "the C wrapper function %s is defined %d times (two signatures share one name)" % (dup[0], cdefs[dup[0]])
        for n in names:
            if n.endswith((".f", ".f90")) and n.startswith("wrapf"):
                text = open(os.path.join(d, n)).read()
                low = text.lower()
                ents = collections.Counter()
                for m in re.finditer(r'^\s*(?:pure\s+|elemental\s+)*(?:subroutine|function)\s+(\w+)', low, re.M):
                    ents[m.group(1)] += 1
                # a specific procedure appears once as definition; interface bodies once
                dup = sorted(k for k, v in ents.items() if v > 1)
                if dup:
                    return "%s declares the procedure %s %d times" % (n, dup[0], ents[dup[0]])
                for tm in re.finditer(r'^\s*type(?:\s*,[^:\n]*)?(?:\s*::)?\s*(\w+)\s*\n(.*?)^\s*end type', low, re.M | re.S):
                    body = tm.group(2)
                    bound = collections.Counter(m.group(1) for m in re.finditer(r'^\s*procedure\s*(?:,[^:]*)?::\s*(\w+)', body, re.M))
                    gen = collections.Counter(m.group(1) for m in re.finditer(r'^\s*generic\s*::\s*(\w+)', body, re.M))
                    for k in list(bound) + list(gen):
                        if bound[k] + gen[k] > 1:
                            return "%s: type %s has the type-bound name %s %d times" % (n, tm.group(1), k, bound[k] + gen[k])
                    for m in re.finditer(r'^\s*generic\s*::\s*(\w+)\s*=>\s*([^\n]*(?:&\s*\n[^\n]*)*)', body, re.M):
                        specs = [x.strip() for x in re.sub(r'&\s*\n\s*&?', '', m.group(2)).split(",") if x.strip()]
                        if len(set(specs)) != len(specs):
                            return "%s: generic %s of type %s lists a specific twice: %s" % (n, m.group(1), tm.group(1), specs)
                for m in re.finditer(r'^\s*interface\s+(\w+)\s*\n(.*?)^\s*end interface', low, re.M | re.S):
                    specs = re.findall(r'module procedure\s+(\w+)', m.group(2))
                    if len(set(specs)) != len(specs):
                        return "%s: generic interface %s lists a specific twice: %s" % (n, m.group(1), specs)
        # Python extension and Lua binding: one entry per name in every method / function table, no static wrapper
        # function defined twice
        for n in names:
            if not (n.startswith(("py", "lua")) and n.endswith((".c", ".cpp"))):
                continue
            text = open(os.path.join(d, n)).read()
            defs = collections.Counter(m.group(1) for m in re.finditer(
                r'^static\s+[A-Za-z_][\w\s\*]*?[\s\*]([A-Za-z_]\w*)\s*\([^;{)]*\)\s*\n\{', text, re.M))
            dup = sorted(k for k, v in defs.items() if v > 1)
            if dup:
                return "%s defines the wrapper function %s %d times" % (n, dup[0], defs[dup[0]])
            for tm in re.finditer(r'(?:PyMethodDef|luaL_Reg)\s+(\w+)\s*\[\]\s*=\s*\{(.*?)\n\};', text, re.S):
                ents = collections.Counter(m.group(1) for m in re.finditer(r'\{\s*"([^"]+)"\s*,', tm.group(2)))
                dup = sorted(k for k, v in ents.items() if v > 1)
                if dup:
                    return "%s: table %s has %d entries named \"%s\" (one callable name, several wrappers: only the first is reachable)" % (
                        n, tm.group(1), ents[dup[0]], dup[0])
        # names given by the input itself (explicit suffix lists, explicit generic names): predictable from the input
        exp = inp.get("expect") or {}
        for nm in exp.get("c", []):
            if not cdefs.get(nm):
                return "the input names the C wrapper %s (prefix, scope, underscore name, the suffix given in the input) but no " \
                       "such function is defined; defined: %s" % (nm, sorted(k for k in cdefs if k.split("_")[-1] != "")[:12])
        if exp.get("generic") or exp.get("bound_generic"):
            low = "\n".join(open(os.path.join(d, n)).read().lower() for n in names if n.startswith("wrapf") and n.endswith((".f", ".f90")))
            for g, cnt in (exp.get("generic") or {}).items():
                specs = []
                for m in re.finditer(r'^\s*interface\s+%s\s*\n(.*?)^\s*end interface' % re.escape(g.lower()), low, re.M | re.S):
                    specs += re.findall(r'module procedure\s+(\w+)', m.group(1))
                if len(specs) != cnt:
                    return "generic interface %s must list the %d specifics of its C++ name; it lists %d: %s" % (g, cnt, len(specs), specs)
            for g, cnt in (exp.get("bound_generic") or {}).items():
                specs = []
                for m in re.finditer(r'^\s*generic\s*::\s*%s\s*=>\s*([^\n]*(?:&\s*\n[^\n]*)*)' % re.escape(g.lower()), low, re.M):
                    specs += [x.strip() for x in re.sub(r'&\s*\n\s*&?', '', m.group(1)).split(",") if x.strip()]
                if len(specs) != cnt:
                    return "type-bound generic %s must list the %d specifics of its C++ name; it lists %d: %s" % (g, cnt, len(specs), specs)
        # the compilers' verdict on redefinitions
        hdr = ["#ifndef LIB_H", "#define LIB_H", "#include <string>", "#include <vector>", inp.get("header", ""), "#endif"]
        open(os.path.join(d, "lib.hpp"), "w").write("\n".join(hdr) + "\n")
        for n in names:
            if n.startswith("wrap") and n.endswith(".cpp") and inp.get("header"):
                p = subprocess.run(["g++", "-std=c++11", "-fsyntax-only", "-I.", n], cwd=d, stdout=subprocess.PIPE, stderr=subprocess.STDOUT,
                                   universal_newlines=True, timeout=120)
                if p.returncode != 0:
                    err = [l for l in p.stdout.split("\n") if "error" in l][:2]
                    if any("redefinition" in e or "conflicting" in e or "ambiguat" in e for e in err):
                        return "g++ rejects %s: %s" % (n, " | ".join(err))
        fs = [n for n in names if n.startswith("wrapf") and n.endswith(".f")]
        pending = list(fs)
        for _ in range(len(fs) + 1):
            left = []
            for n in pending:
                p = subprocess.run(["gfortran", "-cpp", "-ffree-form", "-fsyntax-only", "-J", d, n], cwd=d, stdout=subprocess.PIPE,
                                   stderr=subprocess.STDOUT, universal_newlines=True, timeout=120)
                if p.returncode != 0:
                    left.append((n, p.stdout))
            if not left or len(left) == len(pending):
                pending = left
                break
            pending = [n for n, _ in left]
        for item in pending:
            n, out = item if isinstance(item, tuple) else (item, "")
            err = [l for l in out.split("\n") if "Error" in l][:3]
            if any(re.search(r'already|duplicate|ambiguous|more than once|same name', e, re.I) for e in err):
                return "gfortran rejects %s: %s" % (n, " | ".join(err))
        return None
    finally:
        shutil.rmtree(d, ignore_errors=True)


HEAD = "library: lib\ncxx_header: lib.hpp\noptions:\n  wrap_python: false\n  wrap_lua: false\n%sdeclarations:\n"
LIBS = [
    # overload set in which one overload has a fortran_generic list that needs its own C variant
    (HEAD % "" + """- decl: int SumValues(const int *values, int nvalues)
  fortran_generic:
  - decl: (const int *values)
  - decl: (const int *values+rank(1))
- decl: int SumValues(const double *values, int nvalues)
- decl: int MaxValue(const int *values, int nvalues)
  fortran_generic:
  - decl: (const int *values)
  - decl: (const int *values+rank(1))
""", "int SumValues(const int *values, int nvalues); int SumValues(const double *values, int nvalues); int MaxValue(const int *values, int nvalues);"),
    # nested namespaces flattened into one Fortran module
    (HEAD % "  F_flatten_namespace: true\n" + """- decl: void reset()
- decl: namespace alpha
  declarations:
  - decl: void reset()
  - decl: namespace util
    declarations:
    - decl: void reset()
    - decl: void scale(int n)
    - decl: void scale(double x)
- decl: namespace beta
  declarations:
  - decl: namespace util
    declarations:
    - decl: void reset()
    - decl: void scale(int n)
    - decl: void scale(double x)
""", "void reset(); namespace alpha { void reset(); namespace util { void reset(); void scale(int n); void scale(double x);} } "
     "namespace beta { namespace util { void reset(); void scale(int n); void scale(double x);} }"),
    (HEAD % "  flatten_namespace: true\n" + """- decl: namespace alpha
  declarations:
  - decl: void go()
  - decl: namespace util
    declarations:
    - decl: void go()
- decl: namespace beta
  declarations:
  - decl: namespace util
    declarations:
    - decl: void go()
""", "namespace alpha { void go(); namespace util { void go(); } } namespace beta { namespace util { void go(); } }"),
    # static and instance members of one name, overloads with defaults in a class, same method names in two classes
    (HEAD % "" + """- decl: class Widget
  declarations:
  - decl: Widget()
  - decl: static void reset()
  - decl: void reset(int level)
  - decl: void apply(int n)
  - decl: void apply(double x)
  - decl: static int count()
  - decl: static int count(int kind)
  - decl: void grow(int n, int m = 1)
- decl: class Gadget
  declarations:
  - decl: void reset(int level)
  - decl: void apply(int n)
- decl: void reset()
- decl: void apply(int n)
""", "class Widget { public: Widget(); static void reset(); void reset(int level); void apply(int n); void apply(double x); "
     "static int count(); static int count(int kind); void grow(int n, int m = 1); }; class Gadget { public: void reset(int level); "
     "void apply(int n); }; void reset(); void apply(int n);"),
    # templates: function and class instantiations
    (HEAD % "" + """- decl: template<typename T> void store(T value)
  cxx_template:
  - instantiation: <int>
  - instantiation: <double>
- decl: void store(const char *s)
- decl: template<typename T> class Box
  cxx_template:
  - instantiation: <int>
  - instantiation: <double>
  declarations:
  - decl: Box()
  - decl: void put(T v)
  - decl: T get()
""", "template<typename T> void store(T value); void store(const char *s); template<typename T> class Box { public: Box(); void put(T v); T get(); };"),
    # bufferify / result-as-argument variants next to overloads
    (HEAD % "" + """- decl: const std::string name()
- decl: const std::string name(int i)
- decl: void fill(std::vector<int> &v +intent(out))
- decl: void fill(std::vector<double> &v +intent(out))
- decl: void label(const char *s)
- decl: void label(int n, const std::string &s)
""", "const std::string name(); const std::string name(int i); void fill(std::vector<int> &v); void fill(std::vector<double> &v); "
     "void label(const char *s); void label(int n, const std::string &s);"),
]


RESULT_AS_ARG = """- decl: const std::string getName(int id)
  format:
    F_string_result_as_arg: output
- decl: const std::string getName(const std::string &key)
  format:
    F_string_result_as_arg: output
- decl: const std::string getTitle()
  format:
    F_string_result_as_arg: output
- decl: const std::string & getLabel(int id)
- decl: const std::string & getLabel(const std::string &key)
"""
RESULT_AS_ARG_H = ("const std::string getName(int id); const std::string getName(const std::string &key); const std::string getTitle(); "
                   "const std::string & getLabel(int id); const std::string & getLabel(const std::string &key);")
HEAD_PL = "library: lib\ncxx_header: lib.hpp\noptions:\n  wrap_python: true\n  wrap_lua: true\n%sdeclarations:\n"
LIBS += [
    # overloads that are NOT adjacent, overloads with default arguments, in a class and at file level (Python, Lua tables)
    (HEAD_PL % "" + """- decl: void setValue(int v)
- decl: int getValue()
- decl: void setValue(double v)
- decl: int work(int a)
- decl: int work(int a, int b, int c = 0)
- decl: class Counter
  declarations:
  - decl: Counter()
  - decl: void add(int n)
  - decl: int total()
  - decl: void add(const char *s, int times = 1)
""", "void setValue(int v); int getValue(); void setValue(double v); int work(int a); int work(int a, int b, int c = 0); "
     "class Counter { public: Counter(); void add(int n); int total(); void add(const char *s, int times = 1); };"),
    # string results turned into arguments, overloaded, with and without the CFI variants
    (HEAD % "" + RESULT_AS_ARG, RESULT_AS_ARG_H),
    (HEAD % "  F_CFI: true\n" + RESULT_AS_ARG, RESULT_AS_ARG_H),
]


LIBS += [
    # different C++ functions given the same API name; names that differ by a leading underscore; a data member whose
    # accessor has the name of a user method
    (HEAD % "" + """- decl: void setInt(int v) +name(set)
- decl: void setDouble(double v) +name(set)
- decl: void setText(const char *v) +name(set)
""", "void setInt(int v); void setDouble(double v); void setText(const char *v);"),
    (HEAD_PL % "" + """- decl: void reset()
- decl: void _reset()
- decl: class Timer
  declarations:
  - decl: void start()
  - decl: void _start()
""", "void reset(); void _reset(); class Timer { public: void start(); void _start(); };"),
    (HEAD % "" + """- decl: class Store
  declarations:
  - decl: int count
  - decl: double scale
  - decl: int getCount(int which)
  - decl: void setScale(double value, int which)
""", "class Store { public: int count; double scale; int getCount(int which); void setScale(double value, int which); };"),
]


LIBS += [
    # a class template with several instantiations whose methods sit inside a block
    (HEAD % "" + """- decl: template<typename T> class vec
  cxx_template:
  - instantiation: <int>
  - instantiation: <long>
  - instantiation: <double>
  declarations:
  - decl: vec()
  - block: true
    declarations:
    - decl: void clear()
    - decl: int count()
  - decl: void push(int n)
""", "template<typename T> class vec { public: vec(); void clear(); int count(); void push(int n); };"),
    # default_arg_suffix shorter than the number of variants; the same generic name in two flattened namespaces
    (HEAD % "" + """- decl: void apply(int a, int b = 0, int c = 0)
  default_arg_suffix:
  - _a
  - _ab
""", "void apply(int a, int b = 0, int c = 0);"),
    (HEAD % "" + """- decl: namespace ns1
  options:
    F_flatten_namespace: true
  declarations:
  - decl: void foo(int a)
  - decl: void foo(double a)
- decl: namespace ns2
  options:
    F_flatten_namespace: true
  declarations:
  - decl: void foo(int a)
  - decl: void foo(double a)
""", "namespace ns1 { void foo(int a); void foo(double a); } namespace ns2 { void foo(int a); void foo(double a); }"),
]

PYHEAD = HEAD.replace("wrap_python: false", "wrap_python: true")
# libraries with names the input itself fixes: (yaml, header, expectations)
XLIBS = [
    # the same explicit default_arg_suffix list in every instantiation of a class template
    (HEAD % "" + """- decl: template<typename T> class Box
  cxx_template:
  - instantiation: <int>
  - instantiation: <double>
  - instantiation: <long>
  declarations:
  - decl: void clear()
  - decl: void resize(int n, int fill = 0, bool shrink = false)
    default_arg_suffix:
    - _n
    - _fill
    - _all
- decl: class Plain
  declarations:
  - decl: void resize(int n, int fill = 0, bool shrink = false)
    default_arg_suffix:
    - _n
    - _fill
    - _all
""", "template<typename T> class Box { public: void clear(); void resize(int n, int fill = 0, bool shrink = false); };"
    " class Plain { public: void resize(int n, int fill = 0, bool shrink = false); };",
     {"c": ["%sBox_%s_resize%s" % ("{P}", t, x) for t in ("int", "double", "long") for x in ("_n", "_fill", "_all")] +
           ["{P}Plain_resize" + x for x in ("_n", "_fill", "_all")]}),
    # an explicit generic name on a function with default arguments: one interface with all variants
    (HEAD % "" + """- decl: double accumulate(double a, double b = 0., double c = 0., double d = 0.)
  format:
    F_name_generic: combine
- decl: class Job
  declarations:
  - decl: void run(int n, int m = 1)
    format:
      F_name_generic: apply
""", "double accumulate(double a, double b = 0., double c = 0., double d = 0.); class Job { public: void run(int n, int m = 1); };",
     {"generic": {"combine": 4}, "bound_generic": {"apply": 2}}),
    (HEAD % "" + """- decl: void scale(int a, int b = 0)
- decl: void scale(double a)
""", "void scale(int a, int b = 0); void scale(double a);", {"generic": {"scale": 3}}),
    # an assumed-rank method in a class template with two instantiations (fixed defect 61a125e)
    (HEAD % "" + """- decl: template<typename T> class Box
  cxx_template:
  - instantiation: <int>
  - instantiation: <double>
  declarations:
  - decl: void fill(int *a +dimension(..))
    options:
      F_assumed_rank_max: 2
""", "template<typename T> class Box { public: void fill(int *a); };", {"bound_generic": {"fill": 6}}),
    # an overload that is wrapped for Python only: the Python implementations still get distinct names
    (PYHEAD % "" + """- decl: void setValue(int v)
- decl: void setValue(double v)
- decl: void setValue(long a, long b)
  options:
    wrap_c: false
    wrap_fortran: false
- decl: class Mix
  declarations:
  - decl: void put(int v)
  - decl: void put(double v)
    options:
      wrap_c: false
      wrap_fortran: false
""", "void setValue(int v); void setValue(double v); void setValue(long a, long b); class Mix { public: void put(int v); void put(double v); };",
     {}),
]

# recorded known finding (replayed by the check): overloaded methods of a class template
KNOWN_TEMPLATE_OVERLOAD = {"yaml": HEAD % "" + """- decl: template<typename T> class Box
  cxx_template:
  - instantiation: <int>
  - instantiation: <double>
  declarations:
  - decl: Box()
  - decl: void put(T v)
  - decl: void put(T v, int times)
""", "header": "template<typename T> class Box { public: Box(); void put(T v); void put(T v, int times); };"}


def _fill(e, prefix):
    out = dict(e)
    if "c" in out:
        out["c"] = [x.replace("{P}", prefix) for x in out["c"]]
    return out


def candidates(seed, around=None):
    for y, h, e in XLIBS:
        yield {"yaml": y, "header": h, "expect": _fill(e, "LIB_")}
        yield {"yaml": y.replace("cxx_header: lib.hpp\n", "cxx_header: lib.hpp\nformat:\n  C_prefix: L_\n"), "header": h,
               "expect": _fill(e, "L_")}
    for y, h in LIBS:
        yield {"yaml": y, "header": h}
        yield {"yaml": y.replace("cxx_header: lib.hpp\n", "cxx_header: lib.hpp\nformat:\n  C_prefix: L_\n"), "header": h}
