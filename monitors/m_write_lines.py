"""Executable statement of C13/U2 for util.WrapperMixin.write_lines: directive characters steer indentation only;
the payload handed to write_continue is the piece minus exactly those characters."""
import itertools
import random


class FP(object):
    def __init__(self):
        self.out = []

    def write(self, s):
        self.out.append(("raw", s))


def expected(lines, indent):
    ev = []
    for line in lines:
        if isinstance(line, int):
            indent += int(line)
            continue
        for s in line.split("\n"):
            if s == "":
                ev.append(("raw", "\n"))
            elif s[0] == "#":
                ev += [("raw", s), ("raw", "\n")]
            elif s[0] == "^":
                ev += [("raw", s[1:]), ("raw", "\n")]
            elif s[0] == "@":
                ev.append(("wc", s[1:], indent))
            elif s[0] == "+":
                if s[-1] == "-":
                    ev.append(("wc", s[1:-1], indent + 1))
                else:
                    indent += 1
                    ev.append(("wc", s[1:], indent))
            else:
                k = len(s) - len(s.lstrip("-"))
                indent -= k
                t = s[k:]
                if t[-1:] == "+":
                    ev.append(("wc", t[:-1], indent))
                    indent += 1
                else:
                    ev.append(("wc", t, indent))
    return ev, indent


def degenerate(lines):
    for line in lines:
        if isinstance(line, str):
            for s in line.split("\n"):
                if s and s[0] not in "#^" and s.strip("-+@") == "" :
                    return True
    return False


def check(inp):
    from shroud import util

    class W(util.WrapperMixin):
        def write_continue(self, fp, line, spaces="    "):
            if not line:
                raise IndexError("empty")
            fp.out.append(("wc", line, self.indent))
    w = W()
    w.indent = inp["indent"]
    fp = FP()
    lines = inp["lines"]
    if degenerate(lines):
        return None   # outside the contract's domain (IndexError permitted)
    w.write_lines(fp, lines, " ")
    ev, ind = expected(lines, inp["indent"])
    got = [tuple(x) for x in fp.out]
    if got != ev:
        return "events differ: got %r expected %r" % (got[:6], ev[:6])
    if w.indent != ind:
        return "indent %r expected %r" % (w.indent, ind)
    return None


def candidates(seed, around=None):
    rnd = random.Random(seed)
    alpha = ["a", "+", "-", "#", "@", "^", "\n", " "]
    for n in range(1, 6):
        for tup in itertools.product(alpha, repeat=n):
            yield {"lines": ["".join(tup)], "indent": 3}
    while True:
        lines = []
        for _ in range(rnd.randint(1, 4)):
            if rnd.random() < 0.2:
                lines.append(rnd.choice([-1, 1, 2]))
            else:
                lines.append("".join(rnd.choice(alpha + ["xy"]) for _ in range(rnd.randint(0, 8))))
        yield {"lines": lines, "indent": rnd.randint(2, 9)}
