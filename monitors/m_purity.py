"""C07 bounded run-time frame contract: the output of main_with_args on an input does not depend on libraries processed
earlier in the same Python process.  For a sequence of inputs: run each alone in a fresh process (reference), then the
whole sequence in one process; every file must be byte-identical."""
import argparse
import contextlib
import hashlib
import io
import itertools
import json
import os
import shutil
import subprocess
import sys
import tempfile

LIBS = {
    "cxxclass": """library: liba
cxx_header: a.hpp
declarations:
- decl: class Foo
  declarations:
  - decl: Foo()
  - decl: ~Foo()
  - decl: const std::string& name()
- decl: std::vector<int> *getvec() +owner(caller)
""",
    "cxxclass_lit": """library: liba
cxx_header: a.hpp
options:
  literalinclude: true
declarations:
- decl: class Foo
  declarations:
  - decl: Foo()
  - decl: ~Foo()
  - decl: const std::string& name()
- decl: std::vector<int> *getvec() +owner(caller)
""",
    "cxxclass2": """library: libb
cxx_header: b.hpp
declarations:
- decl: class Bar
  declarations:
  - decl: Bar()
  - decl: ~Bar()
- decl: void fstr(std::string &s +intent(inout))
""",
    "cstruct": """library: libc
language: c
cxx_header: c.h
declarations:
- decl: struct Cstruct1 { int ifield; double dfield; }
- decl: int pass(Cstruct1 *s)
- decl: Cstruct1 retval(int i)
- decl: void fchar(char *s +intent(inout), const char *t)
""",
    "cxxstruct": """library: libd
cxx_header: d.hpp
declarations:
- decl: struct S2 { int i; }
- decl: int pass2(S2 *s)
- decl: std::string getname()
""",
    "mpi_custom": """library: libf
cxx_header: f.hpp
typemap:
- type: MPI_Comm
  fields:
    cpp_if: ifdef HAVE_MPI
declarations:
- decl: void bcast(MPI_Comm comm)
""",
    "mpi_plain": """library: libg
cxx_header: g.hpp
declarations:
- decl: void send(MPI_Comm comm, int n)
""",
    "python": """library: libe
cxx_header: e.hpp
options:
  wrap_python: true
  wrap_lua: true
declarations:
- decl: class Baz
  declarations:
  - decl: Baz()
  - decl: int get(int i = 0)
- decl: void vec(std::vector<double> &v +intent(out))
""",
}


def args_for(fname, outdir):
    a = argparse.Namespace()
    a.cmake = ""
    a.cfiles = os.path.join(outdir, "cfiles.lst")
    a.ffiles = os.path.join(outdir, "ffiles.lst")
    a.filename = [fname]
    a.outdir = a.logdir = outdir
    a.outdir_c_fortran = a.outdir_lua = a.outdir_python = a.outdir_yaml = ""
    a.path = []
    a.write_helpers = a.write_statements = a.yaml_types = ""
    a.write_version = False
    a.option = []
    a.language = None
    return a


def run_seq(names, base):
    """run the libraries in order in THIS process; -> {name: {file: sha}}"""
    from shroud import main as M
    res = {}
    for i, n in enumerate(names):
        d = os.path.join(base, "%d_%s" % (i, n))
        os.makedirs(d)
        f = os.path.join(d, n + ".yaml")
        open(f, "w").write(LIBS[n])
        try:
            with contextlib.redirect_stdout(io.StringIO()):
                M.main_with_args(args_for(f, d))
            res["%d:%s" % (i, n)] = dict((x, hashlib.sha256(open(os.path.join(d, x), "rb").read().replace(
                d.encode(), b"<DIR>")).hexdigest()[:16])
                for x in sorted(os.listdir(d)) if not x.endswith((".yaml", ".log", ".json")))
            # C15: the lists written for --cfiles / --ffiles name exactly the files of THIS run
            for lst, exts in (("cfiles.lst", (".c", ".cpp", ".cxx")), ("ffiles.lst", (".f", ".f90", ".F", ".F90"))):
                listed = sorted(open(os.path.join(d, lst)).read().split())
                written = sorted(os.path.join(d, x) for x in os.listdir(d) if x.endswith(exts))
                if listed != written:
                    res["%d:%s" % (i, n)]["<%s>" % lst] = "lists %s, written %s" % (
                        [x.replace(d, "<DIR>").replace(base, "<OTHER>") for x in listed], [os.path.basename(x) for x in written])
        except BaseException as e:
            res["%d:%s" % (i, n)] = {"<exception>": "%s: %s" % (type(e).__name__, str(e)[:80])}
    return res


def in_fresh_process(names):
    """run the sequence in ONE fresh interpreter"""
    code = "import sys, json; sys.path.insert(0, %r); sys.path.insert(0, %r); import m_purity, tempfile, shutil; " \
           "d = tempfile.mkdtemp(); r = m_purity.run_seq(%r, d); shutil.rmtree(d); print(json.dumps(r))" % (
               os.environ.get("VERIF_REPO", "/repo"), os.path.dirname(os.path.abspath(__file__)), list(names))
    p = subprocess.run([sys.executable, "-c", code], capture_output=True, text=True, timeout=300)
    return json.loads(p.stdout.strip().split("\n")[-1])


def fresh(name):
    """reference: the library alone in a fresh interpreter"""
    return list(in_fresh_process([name]).values())[0]


_REF = {}


def check(inp):
    seq = inp["seq"]
    for n in set(seq):
        if n not in _REF:
            _REF[n] = fresh(n)
    got = in_fresh_process(seq)
    for i, n in enumerate(seq):
        g = got["%d:%s" % (i, n)]
        if g != _REF[n]:
            diff = sorted(k for k in set(g) | set(_REF[n]) if g.get(k) != _REF[n].get(k))
            return "output of %r depends on earlier runs %r in the same process: files %s differ from a fresh run" % (n, seq[:i], diff)
    return None


def candidates(seed, around=None):
    names = sorted(LIBS)
    for a, b in itertools.permutations(names, 2):
        yield {"seq": [a, b]}
    for a in names:
        yield {"seq": [a, a]}
    for t in itertools.permutations(names, 3):
        yield {"seq": list(t)}
