"""C07 bounded run-time frame contract: the output of main_with_args on an input does not depend on libraries processed
earlier in the same Python process.  For a sequence of inputs: run each alone in a fresh process (reference), then the
whole sequence in one process; every file must be byte-identical."""
import argparse
import contextlib
import hashlib
import io
import itertools
import json
import os
import shutil
import subprocess
import sys
import tempfile

LIBS = {
    "cxxclass": """library: liba
cxx_header: a.hpp
declarations:
- decl: class Foo
  declarations:
  - decl: Foo()
  - decl: ~Foo()
  - decl: const std::string& name()
- decl: std::vector<int> *getvec() +owner(caller)
""",
    "cxxclass_lit": """library: liba
cxx_header: a.hpp
options:
  literalinclude: true
declarations:
- decl: class Foo
  declarations:
  - decl: Foo()
  - decl: ~Foo()
  - decl: const std::string& name()
- decl: std::vector<int> *getvec() +owner(caller)
""",
    "cxxclass2": """library: libb
cxx_header: b.hpp
declarations:
- decl: class Bar
  declarations:
  - decl: Bar()
  - decl: ~Bar()
- decl: void fstr(std::string &s +intent(inout))
""",
    "cstruct": """library: libc
language: c
cxx_header: c.h
declarations:
- decl: struct Cstruct1 { int ifield; double dfield; }
- decl: int pass(Cstruct1 *s)
- decl: Cstruct1 retval(int i)
- decl: void fchar(char *s +intent(inout), const char *t)
""",
    "cxxstruct": """library: libd
cxx_header: d.hpp
declarations:
- decl: struct S2 { int i; }
- decl: int pass2(S2 *s)
- decl: std::string getname()
""",
    "mpi_custom": """library: libf
cxx_header: f.hpp
typemap:
- type: MPI_Comm
  fields:
    cpp_if: ifdef HAVE_MPI
declarations:
- decl: void bcast(MPI_Comm comm)
""",
    "mpi_plain": """library: libg
cxx_header: g.hpp
declarations:
- decl: void send(MPI_Comm comm, int n)
""",
    "geom_base": """library: geom
cxx_header: geom.h
language: c
declarations:
- decl: struct Point { int x; int y; };
  options:
    wrap_struct_as: class
- decl: struct Point3 { int x; int y; int z; };
  options:
    wrap_struct_as: class
    class_baseclass: Point
""",
    "units_struct": """library: units
cxx_header: units.h
language: c
declarations:
- decl: struct Length { double value; int unit; };
  options:
    wrap_struct_as: class
- decl: double in_meters(Length *l)
""",
    "python": """library: libe
cxx_header: e.hpp
options:
  wrap_python: true
  wrap_lua: true
declarations:
- decl: class Baz
  declarations:
  - decl: Baz()
  - decl: int get(int i = 0)
- decl: void vec(std::vector<double> &v +intent(out))
""",
}


def args_for(fname, outdir):
    a = argparse.Namespace()
    a.cmake = ""
    a.cfiles = os.path.join(outdir, "cfiles.lst")
    a.ffiles = os.path.join(outdir, "ffiles.lst")
    a.filename = [fname]
    a.outdir = a.logdir = outdir
    a.outdir_c_fortran = a.outdir_lua = a.outdir_python = a.outdir_yaml = ""
    a.path = []
    a.write_helpers = a.write_statements = a.yaml_types = ""
    a.write_version = False
    a.option = []
    a.language = None
    return a


def run_seq(names, base):
    """run the libraries in order in THIS process; -> {name: {file: sha}}"""
    from shroud import main as M
    res = {}
    for i, n in enumerate(names):
        d = os.path.join(base, "%d_%s" % (i, n))
        os.makedirs(d)
        f = os.path.join(d, n + ".yaml")
        open(f, "w").write(LIBS[n])
        try:
            with contextlib.redirect_stdout(io.StringIO()):
                M.main_with_args(args_for(f, d))
            res["%d:%s" % (i, n)] = dict((x, hashlib.sha256(open(os.path.join(d, x), "rb").read().replace(
                d.encode(), b"<DIR>")).hexdigest()[:16])
                for x in sorted(os.listdir(d)) if not x.endswith((".yaml", ".log", ".json")))
            # C15: the lists written for --cfiles / --ffiles name exactly the files of THIS run
            for lst, exts in (("cfiles.lst", (".c", ".cpp", ".cxx")), ("ffiles.lst", (".f", ".f90", ".F", ".F90"))):
                listed = sorted(open(os.path.join(d, lst)).read().split())
                written = sorted(os.path.join(d, x) for x in os.listdir(d) if x.endswith(exts))
                if listed != written:
                    res["%d:%s" % (i, n)]["<%s>" % lst] = "lists %s, written %s" % (
                        [x.replace(d, "<DIR>").replace(base, "<OTHER>") for x in listed], [os.path.basename(x) for x in written])
        except BaseException as e:
            res["%d:%s" % (i, n)] = {"<exception>": "%s: %s" % (type(e).__name__, str(e)[:80])}
    return res


def in_fresh_process(names):
    """run the sequence in ONE fresh interpreter"""
    code = "import sys, json; sys.path.insert(0, %r); sys.path.insert(0, %r); import m_purity, tempfile, shutil; " \
           "d = tempfile.mkdtemp(); r = m_purity.run_seq(%r, d); shutil.rmtree(d); print(json.dumps(r))" % (
               os.environ.get("VERIF_REPO", "/repo"), os.path.dirname(os.path.abspath(__file__)), list(names))
    p = subprocess.run([sys.executable, "-c", code], capture_output=True, text=True, timeout=300)
    return json.loads(p.stdout.strip().split("\n")[-1])


def fresh(name):
    """reference: the library alone in a fresh interpreter"""
    return list(in_fresh_process([name]).values())[0]


_REF = {}


SPL_YAML = """library: spl
cxx_header: spl.hpp
splicer:
  c:
  - csplicer.c
  f:
  - fsplicer.f
declarations:
- decl: void foo(int a)
- decl: void bar(const char *s)
"""


def _spl_file(lead, text):
    return "%s splicer begin function.foo\n%s %s\n%s splicer end function.foo\n" % (lead, lead, text, lead)


def check_env(inp):
    """the same absolute command line gives the same bytes from any working directory (one of them holding decoy files
    named like the files the YAML refers to) and under any PYTHONHASHSEED (two --path directories both hold the files:
    the first one named wins)"""
    base = tempfile.mkdtemp(prefix="mpur_")
    try:
        dirs = {}
        for d_, text in (("first", "FROM FIRST"), ("second", "FROM SECOND"), ("decoy", "FROM DECOY"), ("neutral", None)):
            p_ = os.path.join(base, d_)
            os.makedirs(p_)
            dirs[d_] = p_
            if text:
                open(os.path.join(p_, "csplicer.c"), "w").write(_spl_file("//", text))
                open(os.path.join(p_, "fsplicer.f"), "w").write(_spl_file("!", text))
        yml = os.path.join(base, "spl.yaml")
        open(yml, "w").write(SPL_YAML)
        code = """
import sys, json, os, hashlib, contextlib, io
sys.path.insert(0, %r)
from shroud import main as M
out = sys.argv[1]
sys.argv = ['shroud', '--outdir', out, '--logdir', out, '--path', %r, '--path', %r, %r]
try:
    with contextlib.redirect_stdout(io.StringIO()):
        M.main()
except SystemExit as e:
    if e.code not in (0, None):
        raise
print(json.dumps(dict((n, hashlib.sha256(open(os.path.join(out, n), 'rb').read()).hexdigest()[:16])
                      for n in sorted(os.listdir(out)) if n.endswith(('.c', '.cpp', '.h', '.f')))))
""" % (os.environ.get("VERIF_REPO", "/repo"), dirs["first"], dirs["second"], yml)
        results = {}
        runs = [("neutral", "0"), ("decoy", "0")] + [("neutral", s_) for s_ in ("1", "2", "3", "4", "5")]
        for k, (cwd, seed) in enumerate(runs):
            out = os.path.join(base, "out%d" % k)
            os.makedirs(out)
            env = dict(os.environ, PYTHONHASHSEED=seed)
            p = subprocess.run([sys.executable, "-c", code, out], cwd=dirs[cwd], env=env, capture_output=True, text=True, timeout=300)
            if p.returncode != 0:
                return None if k == 0 else "the run from working directory %r (PYTHONHASHSEED=%s) fails while the reference run succeeds: %s" % (
                    cwd, seed, p.stderr[-200:])
            results[(cwd, seed)] = json.loads(p.stdout.strip().split("\n")[-1])
            text = open(os.path.join(out, "wrapspl.cpp")).read() if os.path.exists(os.path.join(out, "wrapspl.cpp")) else ""
            if k == 0 and "FROM FIRST" not in text:
                return None       # the reference run itself does not pick the first --path directory: no verdict here
        ref = results[("neutral", "0")]
        for (cwd, seed), r in results.items():
            if r != ref:
                diff = sorted(n for n in set(r) | set(ref) if r.get(n) != ref.get(n))
                return ("the same absolute command line gives different files %s when run from a directory that holds files named like "
                        "the YAML's splicer files" % diff) if cwd == "decoy" else (
                    "the same command line gives different files %s under PYTHONHASHSEED=%s" % (diff, seed))
        return None
    finally:
        shutil.rmtree(base, ignore_errors=True)


def check_stale(inp):
    """regenerating into a directory that still holds the (longer) files of an earlier version of the library gives the
    same bytes as generating into an empty directory"""
    big = LIBS["cxxclass"]
    small = "library: liba\ncxx_header: a.hpp\ndeclarations:\n- decl: int one()\n"
    base = tempfile.mkdtemp(prefix="mpur_")
    try:
        from shroud import main as M
        used, fresh = os.path.join(base, "used"), os.path.join(base, "fresh")
        os.makedirs(used)
        os.makedirs(fresh)
        for d_, texts in ((used, (big, small)), (fresh, (small,))):
            for t in texts:
                f = os.path.join(d_, "liba.yaml")
                open(f, "w").write(t)
                with contextlib.redirect_stdout(io.StringIO()):
                    M.main_with_args(args_for(f, d_))
        for n in sorted(os.listdir(fresh)):
            if n.endswith((".yaml", ".log", ".json", ".lst")):
                continue
            a = open(os.path.join(fresh, n), "rb").read().replace(fresh.encode(), b"<DIR>")
            b = open(os.path.join(used, n), "rb").read().replace(used.encode(), b"<DIR>")
            if a != b:
                return "%s written over an older, longer version of itself differs from the same file written into an empty directory " \
                       "(%d vs %d bytes)" % (n, len(b), len(a))
        return None
    finally:
        shutil.rmtree(base, ignore_errors=True)


def check(inp):
    if inp.get("kind") == "env":
        return check_env(inp)
    if inp.get("kind") == "stale":
        return check_stale(inp)
    seq = inp["seq"]
    for n in set(seq):
        if n not in _REF:
            _REF[n] = fresh(n)
    got = in_fresh_process(seq)
    for i, n in enumerate(seq):
        g = got["%d:%s" % (i, n)]
        if g != _REF[n]:
            diff = sorted(k for k in set(g) | set(_REF[n]) if g.get(k) != _REF[n].get(k))
            return "output of %r depends on earlier runs %r in the same process: files %s differ from a fresh run" % (n, seq[:i], diff)
    return None


def candidates(seed, around=None):
    yield {"kind": "env"}
    yield {"kind": "stale"}
    yield {"seq": ["geom_base", "units_struct"]}
    yield {"seq": ["mpi_custom", "mpi_plain"]}
    names = sorted(LIBS)
    for a, b in itertools.permutations(names, 2):
        yield {"seq": [a, b]}
    for a in names:
        yield {"seq": [a, a]}
    for t in itertools.permutations(names, 3):
        yield {"seq": list(t)}
