"""C12/U4: a user splicer line that does not begin with a formatting metacharacter is written identically up to
leading indentation and trailing blanks (real write_lines + real write_continue)."""
import itertools
import random


class FP(object):
    def __init__(self):
        self.out = []

    def write(self, s):
        self.out.append(s)


def check(inp):
    from shroud import util

    class W(util.WrapperMixin):
        pass
    line = inp["line"]
    if "\n" in line or (line and line[0] in "#@^+-\r"):
        return None
    w = W()
    w.indent, w.linelen, w.cont = inp.get("indent", 1), inp.get("linelen", 72), "&"
    fp = FP()
    w.write_lines(fp, [line], " ")
    text = "".join(fp.out)
    want = (" " * w.indent + line + "\n") if line else "\n"
    if w.indent != inp.get("indent", 1):
        return "indentation level changed by user line %r" % line
    if text != want:
        return "user line %r written as %r" % (line, text)
    return None


def candidates(seed, around=None):
    rnd = random.Random(seed)
    alpha = ["a", " ", "+", "-", "\t", ";", "#"]
    for n in range(0, 6):
        for tup in itertools.product(alpha, repeat=n):
            yield {"line": "".join(tup), "indent": 1, "linelen": 5}
    while True:
        yield {"line": "".join(rnd.choice(alpha + ["x = y"]) for _ in range(rnd.randint(0, 20))), "indent": rnd.randint(0, 3),
               "linelen": rnd.choice([3, 10, 72])}
