"""C12 end to end on the emission side: user code registered for a splicer name goes through the real
_create_splicer and the real write_lines/write_continue and must come out complete, in order and identical line by
line up to leading indentation and trailing blanks, between the begin/end markers.
Domain (property): no line begins in column one with a formatting metacharacter; the known-finding carve-out
(interior TAB/FF, trailing '+') is excluded here and reported by the C12 check separately."""
import itertools
import random


class FP(object):
    def __init__(self):
        self.out = []

    def write(self, s):
        self.out.append(s)


class Opt(object):
    pass


def in_domain(line):
    if "\n" in line or "\t" in line or "\f" in line or "\r" in line:
        return False
    if line and line[0] in "#@^+-":
        return False
    if line.rstrip().endswith("+"):
        return False
    return True


def check(inp):
    from shroud import util
    lines = inp["lines"]
    if not all(in_domain(l) for l in lines):
        return None

    class W(util.WrapperMixin):
        pass
    w = W()
    w.newlibrary = Opt()
    w.newlibrary.options = Opt()
    w.newlibrary.options.show_splicer_comments = inp.get("marks", True)
    w.comment = "//"
    w.linelen, w.indent, w.cont = 1000, 0, ""
    w._init_splicer({} if inp.get("user_absent") else {"blk": list(lines)})
    out = []
    default = inp.get("default", ["default();"])
    force = inp.get("force")
    added = w._create_splicer("blk", out, default=default, force=force)
    # precedence: force, then the user's block (even an empty one), then the default, then nothing
    if force is not None:
        lines = list(force)
    elif inp.get("user_absent"):
        lines = list(default) if default is not None else []
    # the same name emitted a second time (another instantiation of a class template, another file) gets the same code
    out_again = []
    added_again = w._create_splicer("blk", out_again, default=default, force=force)
    if out_again != out or bool(added_again) != bool(added):
        return "the block emitted a second time differs from the first emission: %r then %r" % (out[:4], out_again[:4])
    if bool(added) != (force is not None or not inp.get("user_absent") or default is not None):
        return "_create_splicer reports added=%r for force=%r user_absent=%r default=%r" % (added, force, bool(inp.get("user_absent")), default)
    fp = FP()
    w.indent = inp.get("indent", 1)
    w.write_lines(fp, out, "    ")
    text = "".join(fp.out).split("\n")
    if text and text[-1] == "":
        text.pop()
    if inp.get("marks", True):
        if not text or "splicer begin blk" not in text[0] or "splicer end blk" not in text[-1]:
            return "markers missing or displaced: %r" % text[:3]
        body = text[1:-1]
    else:
        body = text
    want = [l.rstrip() for l in lines]
    got = [l.rstrip() for l in body]
    if len(got) != len(want):
        return "user block of %d lines emitted as %d lines: %r -> %r" % (len(want), len(got), lines, body)
    for a, b in zip(want, got):
        if a.strip() != b.strip():
            return "user line %r emitted as %r" % (a, b)
    # relative indentation inside the block is user text too
    ind = lambda s: len(s) - len(s.lstrip())
    base_w = min([ind(l) for l in want if l.strip()] or [0])
    base_g = min([ind(l) for l in got if l.strip()] or [0])
    for a, b in zip(want, got):
        if a.strip() and ind(a) - base_w != ind(b) - base_g:
            return "relative indentation of user line %r changed: %r" % (a, b)
    if w.indent != inp.get("indent", 1):
        return "indentation level changed by user block %r" % lines
    return None


def candidates(seed, around=None):
    for marks in (True, False):
        # an empty user block is the user's choice: nothing is emitted, the default does not come back
        yield {"lines": [], "marks": marks, "indent": 1}
        yield {"lines": [], "marks": marks, "indent": 1, "default": None}
        yield {"lines": ["x = 1;"], "marks": marks, "indent": 1, "user_absent": True}
        yield {"lines": ["x = 1;"], "marks": marks, "indent": 1, "user_absent": True, "default": None}
        yield {"lines": ["x = 1;"], "marks": marks, "indent": 1, "user_absent": True, "default": []}
        yield {"lines": ["x = 1;"], "marks": marks, "indent": 1, "force": ["forced();"]}
        yield {"lines": ["x = 1;"], "marks": marks, "indent": 1, "force": []}
        yield {"lines": [], "marks": marks, "indent": 1, "force": ["forced();"], "user_absent": True, "default": None}
    atoms = ["x = 1;", "    ++n;", "    --n;", "  y;", "", "    @z", "   ^w", "#ifdef A", "  if (a) {", "  }", " -q", "    +p", "a+ b"]
    for n in range(1, 4):
        for tup in itertools.product(atoms, repeat=n):
            for marks in (True, False):
                yield {"lines": list(tup), "marks": marks, "indent": 1}
    rnd = random.Random(seed)
    while True:
        yield {"lines": [rnd.choice(atoms) for _ in range(rnd.randint(1, 8))], "marks": rnd.random() < 0.5, "indent": rnd.randint(0, 3)}
