"""C11 executable statement at the property's observation point (bounded stand-in): the enumerators of the C header and
the parameters of the Fortran module that the REAL generator writes have the values a C++ compiler gives the original
enumeration.  g++ evaluates the original (in a namespace) and, in the same translation unit, the generated C header;
gfortran compiles and runs a program printing the module's parameters.

inputs: {"enums": ["enum Color { A = 1, B }", ...], "language": "c++"|"c"}
"""
import contextlib
import io
import itertools
import os
import re
import shutil
import subprocess
import sys
import tempfile


def sh(cmd, cwd):
    p = subprocess.run(cmd, cwd=cwd, stdout=subprocess.PIPE, stderr=subprocess.STDOUT, universal_newlines=True, timeout=120)
    return p.returncode, p.stdout


def check(inp):
    from shroud import main as M
    d = tempfile.mkdtemp(prefix="menum_")
    try:
        lines = ["library: en", "cxx_header: en.h", "language: %s" % inp.get("language", "c++"), "options:",
                 "  wrap_python: false", "  wrap_lua: false", "declarations:"]
        for e in inp["enums"]:
            lines.append("- decl: %s" % e)
        open(os.path.join(d, "en.yaml"), "w").write("\n".join(lines) + "\n")
        saved = sys.argv
        sys.argv = ["shroud", os.path.join(d, "en.yaml"), "--outdir", d, "--logdir", d]
        try:
            with contextlib.redirect_stdout(io.StringIO()), contextlib.redirect_stderr(io.StringIO()):
                M.main()
        except SystemExit as e:
            if e.code not in (0, None):
                return None
        except Exception:
            return None
        finally:
            sys.argv = saved
        hdr = os.path.join(d, "wrapen.h")
        fmod = os.path.join(d, "wrapfen.f")
        if not os.path.exists(hdr) or not os.path.exists(fmod):
            return None
        htext = open(hdr).read()
        cnames = []
        for m in re.finditer(r'enum\s+\w+\s*\{(.*?)\};', htext, re.S):
            for item in m.group(1).split(","):
                nm = item.strip().split("=")[0].strip()
                if nm:
                    cnames.append(nm)
        onames = []
        for e in inp["enums"]:
            em = re.match(r'enum\s+(class\s+|struct\s+)?(\w+)\s*\{(.*)\}', e.strip(), re.S)
            scoped, ename = bool(em.group(1)), em.group(2)
            for item in em.group(3).split(","):
                nm = item.strip().split("=")[0].strip()
                if nm:
                    onames.append("orig::%s::%s" % (ename, nm) if scoped else "orig::" + nm)
        if len(cnames) != len(onames):
            return "the C header has %d enumerators, the library %d: %s" % (len(cnames), len(onames), inp["enums"])
        src = ["#include <cstdio>", "namespace orig {"] + [e + ";" for e in inp["enums"]] + ["}", '#include "wrapen.h"', "int main() {"]
        for o, c in zip(onames, cnames):
            src.append('  std::printf("%%s %%ld %%ld\\n", "%s", (long) %s, (long) %s);' % (c, o, c))
        src += ["  return 0;", "}"]
        open(os.path.join(d, "en.h"), "w").write("// user header\n")
        open(os.path.join(d, "t.cpp"), "w").write("\n".join(src) + "\n")
        rc, out = sh(["g++", "-std=c++11", "-I.", "t.cpp", "-o", "t"], d)
        if rc != 0:
            if "orig" in out and "wrapen.h" not in out:
                return None          # the original enumeration itself is not valid C++: no verdict
            err = [l for l in out.split("\n") if "error" in l][:2]
            return "the generated C header does not compile next to the original enumeration: %s (%s)" % (" | ".join(err), inp["enums"])
        rc, out = sh(["./t"], d)
        want = {}
        for line in out.strip().split("\n"):
            c, ov, cv = line.split()
            want[c] = int(ov)
            if ov != cv:
                return "C enumerator %s has the value %s, the C++ compiler gives the original %s (%s)" % (c, cv, ov, inp["enums"])
        ftext = open(fmod).read()
        fnames = re.findall(r'integer\(C_INT\),\s*parameter\s*::\s*(\w+)\s*=', ftext)
        if len(fnames) != len(cnames):
            return "the Fortran module has %d parameters for %d enumerators (%s)" % (len(fnames), len(cnames), inp["enums"])
        prog = ["program p", "  use en_mod", "  implicit none"] + ["  print '(I0)', %s" % n for n in fnames] + ["end program p"]
        open(os.path.join(d, "p.f90"), "w").write("\n".join(prog) + "\n")
        rc, out = sh(["gfortran", "-cpp", "-ffree-form", "-c", "wrapfen.f", "-o", "w.o"], d)
        if rc != 0:
            err = [l for l in out.split("\n") if "Error" in l][:2]
            return "gfortran rejects the generated module: %s (%s)" % (" | ".join(err), inp["enums"])
        rc, out = sh(["gfortran", "p.f90", "w.o", "-o", "p"], d)
        if rc != 0:
            return None
        rc, out = sh(["./p"], d)
        vals = [int(x) for x in out.split()]
        for c, fnm, v in zip(cnames, fnames, vals):
            if v != want[c]:
                return "Fortran parameter %s has the value %d, the C++ compiler gives the original %d (%s)" % (fnm, v, want[c], inp["enums"])
        return None
    finally:
        shutil.rmtree(d, ignore_errors=True)


EXPRS = [None, "0", "1", "-2", "+3", "010", "-010", "+017", "0x1F", "A + 1", "A+B", "(1+2)*3", "2*A", "1 - -1", "6/-2*3", "-2*3+1",
         "7/2", "-7/2", "2*-3/4", "B*2", "A - 1", "64/(4*2)", "3*(64/5)", "1 << 3", "A | 4", "~0", "5 % 3", "-(1+2)", "- -4"]


def candidates(seed, around=None):
    names = ["A", "B", "C", "D", "E"]
    # every expression as second member after an explicit first one, and followed by an implicit member
    for e in EXPRS:
        ms = [("A", "5"), ("B", e), ("C", None)]
        if e and "B" in e:
            ms = [("A", "5"), ("B", "2"), ("C", e), ("D", None)]
        body = ", ".join(n if x is None else "%s = %s" % (n, x) for n, x in ms)
        yield {"enums": ["enum Color { %s }" % body]}
    yield {"enums": ["enum Level { HIGH = 5, NONE = 0, LOW, MID = LOW + 2, TOP }"]}
    # an expression member, an implicit one, then a literal and implicit members again: the mode (literal / expression)
    # the generator is in must follow the LAST explicit member
    yield {"enums": ["enum Sw { ON = 4, BOTH = ON + 3, NEXT, FIXED = 20, LAST, END }"]}
    yield {"enums": ["enum Sw { ON = 4, FIXED = 20, BOTH = ON + 3, NEXT, LAST }"]}
    yield {"enums": ["enum class Mode { OFF, ON = 4, AUTO }", "enum Plain { P0 = 3, P1 }"]}
    # two enumerations with members of the same name, each using its OWN member in later values
    yield {"enums": ["enum Signal { LOW = 2, MID = LOW + 1 }", "enum class Priority { LOW = 5, MID = LOW + 1, HIGH = MID * 5 }"]}
    yield {"enums": ["enum class Shade { RED = 60, BLUE, DARK = RED + BLUE }", "enum class Tone { RED = 1, BLUE = RED + 1, DARK = RED + BLUE }"]}
    # `enum struct` is the other spelling of a scoped enumeration: members qualified the same way
    yield {"enums": ["enum struct Fruit { NONE, APPLE = 3, PEAR }", "enum struct Veg { NONE = 10, LEEK, KALE = NONE + 5 }"]}
    yield {"enums": ["enum struct Gear { LOW = 1, HIGH = LOW * 4 }", "enum class Beam { LOW = 7, HIGH }", "enum Raw { R0 = 2, R1 }"]}
    yield {"enums": ["enum Color { RED = 010, GREEN, BLUE = RED + 010 }"], "language": "c"}
    import random
    rnd = random.Random(seed)
    for _ in range(200):
        k = rnd.randint(2, 5)
        ms = []
        for i in range(k):
            e = rnd.choice(EXPRS)
            if e and re.search(r'\b[A-E]\b', e) and not set(re.findall(r'\b[A-E]\b', e)) <= set(names[:i]):
                e = None
            ms.append((names[i], e))
        body = ", ".join(n if x is None else "%s = %s" % (n, x) for n, x in ms)
        yield {"enums": ["enum Color { %s }" % body]}
