"""C04 executable statement (bounded stand-in, observation point of the property): run the REAL generator on a library
description, let gfortran derive the C prototype of every bind(C) interface of the generated module
(-fc-prototypes) and compare it with the prototype in the generated C header: same number of parameters, in order,
each of the same interoperable class (scalar kind and size, by value vs pointer depth, struct name).

inputs: {"yaml": "<file under regression/input>", "args": [extra command line words]}
A module gfortran cannot process on its own (needs modules of another library) gives no verdict.
"""
import contextlib
import io
import os
import re
import shutil
import subprocess
import sys
import tempfile

REPO = os.environ.get("VERIF_REPO", "/repo")
INPUTS = os.path.join(REPO, "regression", "input")

# (class, size) of C scalar types
SCALAR = {
    "char": ("char", 1), "signed char": ("int", 1), "unsigned char": ("int", 1), "int8_t": ("int", 1), "uint8_t": ("int", 1),
    "short": ("int", 2), "unsigned short": ("int", 2), "int16_t": ("int", 2), "uint16_t": ("int", 2),
    "int": ("int", 4), "unsigned": ("int", 4), "unsigned int": ("int", 4), "int32_t": ("int", 4), "uint32_t": ("int", 4),
    "long": ("int", 8), "unsigned long": ("int", 8), "long long": ("int", 8), "unsigned long long": ("int", 8),
    "int64_t": ("int", 8), "uint64_t": ("int", 8), "size_t": ("int", 8), "ptrdiff_t": ("int", 8), "intptr_t": ("int", 8),
    "float": ("real", 4), "double": ("real", 8), "long double": ("real", 16),
    "bool": ("bool", 1), "_Bool": ("bool", 1),
    "float complex": ("complex", 8), "double complex": ("complex", 16), "float _Complex": ("complex", 8),
    "double _Complex": ("complex", 16), "__GFORTRAN_FLOAT_COMPLEX": ("complex", 8), "__GFORTRAN_DOUBLE_COMPLEX": ("complex", 16),
    "std::complex<float>": ("complex", 8), "std::complex<double>": ("complex", 16),
    "void": ("void", 0),
}


def norm_type(text):
    """-> (class, size-or-name, pointer depth) of a C parameter / result type text without the name"""
    t = re.sub(r'\b(const|volatile|struct|restrict|extern|static)\b', ' ', text)
    stars = t.count("*") + t.count("[")
    extent = 1
    for m_ in re.finditer(r'\[\s*(\d+)\s*\]', t):
        extent *= int(m_.group(1))          # a member array of fixed extent: its total size is part of the layout
    t = re.sub(r'\[[^\]]*\]', ' ', t).replace("*", " ")
    base = " ".join(t.split())
    if base in SCALAR:
        cls_, size_ = SCALAR[base]
        return (cls_, size_ * extent if isinstance(size_, int) else size_, stars)
    return ("named", base.lower(), stars)


def split_params(text):
    text = text.strip()
    if text in ("", "void"):
        return []
    out, depth, cur = [], 0, ""
    for ch in text:
        if ch in "(<[":
            depth += 1
        elif ch in ")>]":
            depth -= 1
        if ch == "," and depth == 0:
            out.append(cur)
            cur = ""
        else:
            cur += ch
    out.append(cur)
    return [p.strip() for p in out]


PROTO_RX = re.compile(r'^\s*([A-Za-z_][\w\s\*:<>]*?[\s\*])([A-Za-z_]\w*)\s*\(([^;{}]*)\)\s*;', re.M | re.S)


def drop_name(param):
    p = param.strip()
    if "(" in p:
        return "fnptr"          # function pointer parameter: compared as a class of its own
    m = re.match(r'^(.*?)([A-Za-z_]\w*)\s*((\[[^\]]*\])*)$', p, re.S)
    if m and m.group(1).strip():
        return m.group(1) + m.group(3)
    return p


def prototypes(text):
    out = {}
    text = re.sub(r'/\*.*?\*/', ' ', text, flags=re.S)
    text = re.sub(r'//[^\n]*', ' ', text)
    text = "\n".join(l for l in text.split("\n") if not l.lstrip().startswith("#"))
    for m in PROTO_RX.finditer(text):
        ret, name, params = m.group(1), m.group(2), m.group(3)
        if name in ("if", "while", "for", "return", "sizeof") or "typedef" in ret:
            continue
        ps = []
        for p in split_params(params):
            d = drop_name(p)
            ps.append(("fnptr", "", 0) if d == "fnptr" else norm_type(d))
        out[name] = (norm_type(ret), ps, " ".join(m.group(0).split()))
    return out


FNPTR_RX = re.compile(r'^(.*?)\(\s*\*\s*([A-Za-z_]\w*)\s*\)\s*\((.*)\)\s*$', re.S)


def fnptr_params(text):
    """function name -> {parameter name: (result, [parameters])} for the function-pointer parameters of each prototype"""
    out = {}
    text = re.sub(r'/\*.*?\*/', ' ', text, flags=re.S)
    text = re.sub(r'//[^\n]*', ' ', text)
    text = "\n".join(l for l in text.split("\n") if not l.lstrip().startswith("#"))
    for m in PROTO_RX.finditer(text):
        name, params = m.group(2), m.group(3)
        for p_ in split_params(params):
            fm = FNPTR_RX.match(p_.strip())
            if fm:
                ps = [norm_type(drop_name(q)) for q in split_params(fm.group(3)) if "(" not in q]
                if len(ps) == len(split_params(fm.group(3))):
                    out.setdefault(name, {})[fm.group(2)] = (norm_type(fm.group(1)), ps, " ".join(p_.split()))
    return out


STRUCT_RX = re.compile(r'struct\s+(\w+)\s*\{([^{}]*)\}\s*(\w*)\s*;')
TYPEDEF_RX = re.compile(r'typedef\s+struct\s+(\w+)\s+(\w+)\s*;')


def struct_layouts(text):
    """name (lower case) -> [member types] for structs without nested braces (unions make a struct unparsable here)"""
    text = re.sub(r'/\*.*?\*/', ' ', text, flags=re.S)
    text = re.sub(r'//[^\n]*', ' ', text)
    # a union of pointers inside a struct (the address member of the array descriptor) occupies one pointer
    text = re.sub(r'union\s*\{[^{}]*\}\s*(\w+)\s*;', r'void *\1;', text)
    out = {}
    for m in STRUCT_RX.finditer(text):
        members = []
        for d in m.group(2).split(";"):
            d = d.strip()
            if d:
                members.append(norm_type(drop_name(d)))
        out[m.group(1).lower()] = members
        if m.group(3):
            out[m.group(3).lower()] = members
    for m in TYPEDEF_RX.finditer(text):
        if m.group(1).lower() in out:
            out[m.group(2).lower()] = out[m.group(1).lower()]
    return out


LAYOUTS = {"c": {}, "f": {}}
LAST = {}


def compatible(c, f, result=False):
    """c: from the generated C header; f: what gfortran says the interface means"""
    cc, cs, cp = c
    fc, fs, fp = f
    if c == f and not (cc == "named" and cs in LAYOUTS["c"] and fs in LAYOUTS["f"]):
        return True
    if cc == "fnptr" or fc == "fnptr":
        return (cc == "fnptr" or (cc, cp) == ("void", 1) or cp >= 1) and (fc == "fnptr" or fp >= 1 or fc == "named")
    if (fc, fp) == ("void", 1) and cc == "named" and cp == 1 and cs in LAYOUTS["c"] and not result:
        # a struct DEFINED by the generated headers (array descriptor, capsule, class shadow) is passed as the
        # matching bind(C) derived type, never as a bare type(C_PTR)
        return False
    if (fc, fp) == ("void", 1) and cp >= 1:
        # gfortran prints type(C_PTR) as `void *` with and without VALUE: the depth of such a dummy is not observable
        return True
    if cp != fp:
        return False
    if cp >= 1 and ("void" in (cc, fc)):
        return True             # void * (type(C_PTR)) stands for any object pointer at that depth
    if cc == "named" and fc == "named":
        lc, lf = LAYOUTS["c"].get(cs), LAYOUTS["f"].get(fs)
        if cs == fs and (lc is None or lf is None):
            return True
        if lc is None or lf is None:
            return True         # a type whose definition is not in the generated files: no verdict
        return len(lc) == len(lf) and all(compatible(a, b) for a, b in zip(lc, lf))
    if cp >= 1 and cc == "named" and fc == "named" and cp == fp:
        # a struct both sides define in the generated files (array descriptor, capsule, user struct): same members behind
        # the pointer, whatever the two sides call the type
        lc, lf = LAYOUTS["c"].get(cs), LAYOUTS["f"].get(fs)
        if lc is not None and lf is not None:
            return len(lc) == len(lf) and all(compatible(a, b) for a, b in zip(lc, lf))
        return True
    if cp >= 1 and (cc == "named" or fc == "named"):
        # an enum / typedef'd scalar behind a pointer cannot be judged by name
        return True
    if cc == "named" or fc == "named":
        return True             # enum or typedef passed by value: needs the user's header, no verdict
    if {cc, fc} == {"char", "int"} and cs == fs:
        return True
    return (cc, cs) == (fc, fs)


def generate(yaml, args, out):
    from shroud import main as M
    path = yaml if os.path.isabs(yaml) else os.path.join(INPUTS, yaml)
    argv = ["shroud", path, "--outdir", out, "--logdir", out, "--path", INPUTS] + list(args)
    saved = sys.argv
    sys.argv = argv
    try:
        with contextlib.redirect_stdout(io.StringIO()), contextlib.redirect_stderr(io.StringIO()):
            M.main()
    finally:
        sys.argv = saved


def inline_yaml(inp, out):
    lines = ["library: gen", "cxx_header: gen.h",
             "language: %s" % inp.get("language", "c++"), "options:", "  wrap_python: false", "  wrap_lua: false"]
    opts = dict(inp.get("options") or {})
    if "wrap_python" in opts:
        lines = [l for l in lines if not l.startswith("  wrap_python")]
    for k, v in sorted(opts.items()):
        lines.append("  %s: %s" % (k, v))
    lines.append("declarations:")
    for d in inp.get("pre", []):
        lines.append(d)
    for d in inp["decls"]:
        lines.append("- decl: %s" % d)
    p = os.path.join(out, "gen.yaml")
    open(p, "w").write("\n".join(lines) + "\n")
    return p


def check(inp):
    out = tempfile.mkdtemp(prefix="mfc_")
    try:
        try:
            generate(inline_yaml(inp, out) if "decls" in inp else inp["yaml"], inp.get("args", []), out)
        except SystemExit as e:
            if e.code not in (0, None):
                return None
        except Exception:
            return None
        fsrc = sorted(n for n in os.listdir(out) if n.endswith((".f", ".f90")))
        hdrs = sorted(n for n in os.listdir(out) if n.endswith((".h", ".hpp")) and not n.startswith("py") and not n.startswith("lua"))
        if not fsrc or not hdrs:
            return None
        cprotos = {}
        cfnptrs = {}
        LAYOUTS["c"], LAYOUTS["f"] = {}, {}
        for h in hdrs:
            text = open(os.path.join(out, h)).read()
            cprotos.update(prototypes(text))
            cfnptrs.update(fnptr_params(text))
            LAYOUTS["c"].update(struct_layouts(text))
        # language c: an interface may bind straight to the USER's function; its prototype is the declaration in the YAML
        userprotos = {}
        if "decls" in inp and inp.get("language") == "c":
            texts = list(inp["decls"])
            for pre in inp.get("pre", []):
                texts += re.findall(r'^- decl:\s*(.*\))\s*$', pre, re.M)
            for t_ in texts:
                t_ = re.sub(r'\+\w+(\([^()]*(\([^()]*\))?[^()]*\))?', '', t_)
                userprotos.update(prototypes(" ".join(t_.split()) + ";"))
        fprotos = {}
        pending = list(fsrc)
        for _round in range(len(fsrc) + 1):
            left = []
            for f in pending:
                r = subprocess.run(["gfortran", "-cpp", "-ffree-form", "-fsyntax-only", "-fc-prototypes", "-J", out, f], cwd=out,
                                   stdout=subprocess.PIPE, stderr=subprocess.PIPE, universal_newlines=True, timeout=120)
                if r.returncode != 0:
                    # -fc-prototypes cannot express procedure / type(*) dummies and then reports an error although the
                    # module is fine: keep the prototypes it did print when the module itself is accepted
                    r2 = subprocess.run(["gfortran", "-cpp", "-ffree-form", "-fsyntax-only", "-J", out, f], cwd=out,
                                        stdout=subprocess.PIPE, stderr=subprocess.PIPE, universal_newlines=True, timeout=120)
                    if r2.returncode != 0:
                        left.append(f)
                        continue
                # a dummy gfortran cannot express ends the prototype it is printing with a comment and goes on with the next
                # one on the same line: drop the unfinished head, keep what follows
                ftxt = re.sub(r'(?m)^[^\n;]*\(/\* Cannot convert[^*]*\*/', '', r.stdout)
                fprotos.update(prototypes(ftxt))
                LAYOUTS["f"].update(struct_layouts(ftxt))
            if not left or len(left) == len(pending):
                pending = left
                break
            pending = left
        problems = []
        LAST.clear()
        LAST.update({"fortran_files": len(fsrc), "not_processed": pending, "interfaces": len(fprotos),
                     "compared": len([n for n in fprotos if n in cprotos])})
        for name, (fret, fps, ftext) in sorted(fprotos.items()):
            if name not in cprotos and name in userprotos:
                cprotos[name] = userprotos[name]
            if name not in cprotos:
                continue        # bound to a function of the user's library: no generated definition to compare with
            cret, cps, ctext = cprotos[name]
            if len(cps) != len(fps):
                problems.append("%s: C has %d parameters, the Fortran interface %d  [C: %s] [Fortran: %s]" % (
                    name, len(cps), len(fps), ctext, ftext))
                continue
            for i, (c, f) in enumerate(zip(cps, fps)):
                if not compatible(c, f):
                    problems.append("%s: parameter %d not interoperable: C %r, Fortran interface means %r  [C: %s] [Fortran: %s]" % (
                        name, i + 1, c, f, ctext, ftext))
            if not compatible(cret, fret, result=True):
                problems.append("%s: result not interoperable: C %r, Fortran interface means %r  [C: %s] [Fortran: %s]" % (
                    name, cret, fret, ctext, ftext))
        # abstract interfaces: gfortran prints the interface of a procedure dummy as a prototype named <function>_<argument>;
        # it must agree with the function-pointer type of that parameter in the C prototype
        for cname, byarg in sorted(cfnptrs.items()):
            for arg, (cret, cps, ctext) in sorted(byarg.items()):
                cands = [n for n in fprotos if n not in cprotos and n.lower().endswith("_" + arg.lower())
                         and cname.lower().endswith(n.lower()[:-(len(arg) + 1)])]
                if len(cands) != 1:
                    continue
                fret, fps, ftext = fprotos[cands[0]]
                if len(cps) != len(fps):
                    problems.append("%s, procedure argument %s: C pointer type has %d parameters, the abstract interface %d  [C: %s] "
                                    "[Fortran: %s]" % (cname, arg, len(cps), len(fps), ctext, ftext))
                    continue
                for i, (c, f) in enumerate(zip(cps, fps)):
                    if not compatible(c, f):
                        problems.append("%s, procedure argument %s: parameter %d not interoperable: C %r, the abstract interface "
                                        "means %r  [C: %s] [Fortran: %s]" % (cname, arg, i + 1, c, f, ctext, ftext))
                if not compatible(cret, fret, result=True):
                    problems.append("%s, procedure argument %s: result not interoperable: C %r, the abstract interface means %r  "
                                    "[C: %s] [Fortran: %s]" % (cname, arg, cret, fret, ctext, ftext))
        if problems:
            return "bind(C) interface disagrees with the generated C prototype: " + " ;; ".join(problems[:4])
        return None
    finally:
        shutil.rmtree(out, ignore_errors=True)


CONFIGS = [[], ["--option", "F_CFI=true"], ["--language", "c"], ["--language", "c++"]]
FIRST = ["strings.yaml", "vectors.yaml", "classes.yaml", "pointers.yaml", "cdesc.yaml", "struct.yaml", "ownership.yaml",
         "generic.yaml", "tutorial.yaml", "arrayclass.yaml", "templates.yaml", "types.yaml", "clibrary.yaml"]


def synthetic():
    """argument shapes x intent x deref x (plain / F_CFI) for native, char and vector arguments and results"""
    n = 0
    shapes = []
    for t in ("int", "double"):
        for ptr in ("*", "**", "*&"):
            for intent in ("in", "out", "inout"):
                for deref in (None, "raw", "pointer", "allocatable", "scalar"):
                    for extra in ("", "+dimension(3)", "+rank(1)"):
                        a = "+intent(%s)" % intent + ("+deref(%s)" % deref if deref else "") + extra
                        shapes.append("void f%%d(%s %sarg %s)" % (t, ptr, a))
    for t, ptr in (("char", "*"), ("char", "**"), ("std::string", "&"), ("std::string", "*"), ("std::vector<int>", "&"),
                   ("std::vector<double>", "&"), ("std::vector<std::string>", "&")):
        for intent in ("in", "out", "inout"):
            for extra in ("", "+len(30)", "+rank(1)"):
                shapes.append("void f%%d(%s%s %sarg +intent(%s)%s)" % ("const " if intent == "in" else "", t, ptr, intent, extra))
    # arrays of pointers, fixed arrays, pointers to arrays
    for t in ("int", "double", "char"):
        for intent in ("in", "out", "inout"):
            shapes.append("void f%%d(%s *arg[4] +intent(%s))" % (t, intent))
            # fixed-size array parameters (T arg[10], T arg[4][5]) are a recorded known finding (declared by value in the
            # interface): left out here, replayed by the check
            shapes.append("void f%%d(%s **arg +intent(%s)+rank(1))" % (t, intent))
    for attr in ("", " +external"):
        shapes.append("void f%%d(void (*hook)(int code, double *data)%s)" % attr)
        shapes.append("int f%%d(int (*fn)(int code, double x)%s, int n)" % attr)
        shapes.append("void f%%d(double (*get)(long i, const double *v)%s)" % attr)
    for t in ("int *", "double *", "const char *", "std::string", "const std::string &", "std::vector<int>", "int **"):
        for deref in (None, "raw", "pointer", "allocatable", "scalar"):
            for extra in ("", "+dimension(4)", "+owner(caller)"):
                shapes.append("%s f%%d() %s%s" % (t, "+deref(%s)" % deref if deref else "", extra))
    return shapes


def candidates(seed, around=None):
    shapes = synthetic()
    # library-level options that size generated types: the C and the Fortran definition follow them together or not at all
    for lang in ("c++", "c"):
        for opts in ({"F_assumed_rank_max": "3"}, {"F_assumed_rank_max": "10"}):
            yield {"decls": ["int *f1() +dimension(4)+deref(pointer)", "void f2(int **p +intent(out)+dimension(10)+deref(pointer))",
                             "void f3(double *a +cdesc+rank(2))" if False else "const char *f3() +deref(allocatable)"],
                   "language": lang, "options": opts}
    # a struct member switched off for one language stays in the layout of both (the other members keep their offsets)
    for lang in ("c++", "c"):
        for off in ("wrap_fortran", "wrap_c", "wrap_python"):
            yield {"pre": ["- decl: struct Rec\n  declarations:\n  - decl: int id\n  - decl: double weight\n    options:\n      %s: false\n"
                           "  - decl: int count\n  - decl: double total\n" % off],
                   "decls": ["void use(Rec *r +intent(inout))", "double sum(Rec r)"], "language": lang, "options": {}}
    # fortran_generic entries that change the kind of a by-value scalar while another argument gets a rank
    for lang in ("c", "c++"):
        yield {"pre": ["- decl: double AddScaled(double factor, const int *values, int nvalues)\n  fortran_generic:\n"
                       "  - decl: (float factor, const int *values+rank(1))\n    function_suffix: _float\n"
                       "  - decl: (double factor, const int *values+rank(1))\n    function_suffix: _double\n"],
               "decls": ["int other(int a)"], "language": lang, "options": {}}
    for x in corpus():
        yield x
    # one declaration per library: a rejected declaration would hide its neighbours
    for lang in ("c++", "c"):
        for opts in ({}, {"F_CFI": "true"}):
            group = []
            for i, sh in enumerate(shapes):
                if lang == "c" and ("std::" in sh or "&" in sh):
                    continue
                yield {"decls": [sh % i], "language": lang, "options": opts}
    # libraries with several declarations: classes and structs by value / pointer / reference, and random pairs of the
    # argument shapes in one function (thorough tier reaches these)
    import random
    rnd = random.Random(seed)
    cls = ["class Box", "struct Pt { int x; double y; };"]
    yield {"pre": ["- decl: class Box\n  declarations:\n  - decl: Box()\n  - decl: ~Box()\n  - decl: int size() const\n"
                   "  - decl: Box *clone() +owner(caller)\n  - decl: void merge(const Box &other)\n"
                   "  - decl: static Box make(int n)\n  - decl: Box &self()\n"],
           "decls": ["void take(Box b)", "void takep(Box *b)", "void taker(Box &b)", "Box give()", "Box *givep()",
                     "const Box &giver()"], "language": "c++", "options": {}}
    for lang in ("c", "c++"):
        yield {"pre": ["- decl: struct Pt { int x; double y; };"],
               "decls": ["void st(Pt p)", "void stp(Pt *p +intent(inout))", "Pt mk()", "Pt *mkp()",
                         "void sta(Pt *p +intent(in)+rank(1), int n +implied(size(p)))"], "language": lang, "options": {}}
    args = []
    for sh in shapes:
        if sh.startswith("void f%d(") and "std::" not in sh and "&" not in sh:
            args.append(sh[len("void f%d("):-1])
    for i in range(1500):
        a, b = rnd.choice(args), rnd.choice(args)
        b = b.replace("arg ", "arg2 ", 1)
        yield {"decls": ["void g%d(%s, %s)" % (i, a, b)], "language": rnd.choice(["c", "c++"]),
               "options": rnd.choice([{}, {"F_CFI": "true"}])}


def corpus():
    names = FIRST + sorted(n for n in os.listdir(INPUTS) if n.endswith(".yaml") and n not in FIRST)
    for cfg in CONFIGS:
        for n in names:
            if cfg and cfg[0] == "--language" and n not in ("pointers.yaml", "struct.yaml", "enum.yaml", "struct-py.yaml"):
                continue
            yield {"yaml": n, "args": cfg}
