"""C05 executable statement (bounded stand-in): the files the REAL generator writes are accepted by the compilers.
  * every generated Fortran module passes `gfortran -fsyntax-only` (modules of one library in dependency order);
  * for the synthetic declaration family (a user header is synthesised from the declarations): every generated C/C++
    source and header passes `gcc/g++ -fsyntax-only` (headers on their own, from C and from C++).
Linking and the Python/Lua sources are not covered.

inputs: as m_fcagree ({"yaml": ..., "args": [...]} or {"decls": [...], "language": ..., "options": {...}}).
Out of the domain (no verdict): Fortran requested without C (wrap.yaml; cdesc.yaml GetScalar2 under F_CFI), libraries
that need the modules of another library (forward.yaml), inputs whose splicer text is a placeholder (example.yaml).
"""
import os
import re
import shutil
import subprocess
import tempfile

import m_fcagree as F

SKIP = {("wrap.yaml", False): "Fortran requested without C", ("wrap.yaml", True): "Fortran requested without C",
        ("cdesc.yaml", True): "GetScalar2 requests Fortran without C (wrap_c: False) and relies on a splicer",
        ("forward.yaml", False): "needs tutorial_mod", ("forward.yaml", True): "needs tutorial_mod",
        ("example.yaml", False): "splicer placeholders", ("example.yaml", True): "splicer placeholders"}


def _pyinc():
    import sysconfig
    inc = []
    p = sysconfig.get_paths().get("include")
    if p and os.path.exists(os.path.join(p, "Python.h")):
        inc.append("-I" + p)
    else:
        return []
    for cand in ("/opt/veriftools/pyvenv/lib/python3.11/site-packages/numpy/_core/include",):
        if os.path.isdir(cand):
            inc.append("-I" + cand)
    return inc


PYINC = _pyinc()


def run(cmd, cwd):
    r = subprocess.run(cmd, cwd=cwd, stdout=subprocess.PIPE, stderr=subprocess.STDOUT, universal_newlines=True, timeout=180)
    return r.returncode, r.stdout


def user_header(inp):
    """declarations of the wrapped functions, derived from the decl lines (attributes removed)"""
    lines = ["#ifndef GEN_H", "#define GEN_H"]
    cxx = inp.get("language", "c++") != "c"
    if inp.get("bare_header"):
        pass        # a user header without any standard include: the generated files must bring what THEY use
    elif cxx:
        lines += ["#include <cstddef>", "#include <string>", "#include <vector>"]
    else:
        lines += ["#include <stddef.h>", "#include <stdbool.h>"]
    if any(re.search(r'\bu?int\d+_t\b', d) for d in inp["decls"]):
        lines.append("#include <cstdint>" if cxx else "#include <stdint.h>")
    for pre in inp.get("pre", []):
        m = re.search(r'decl:\s*struct\s+(\w+)\s*\{(.*?)\};', pre)
        if m:
            lines.append("struct %s {%s};" % (m.group(1), m.group(2)))
            if not cxx:
                lines.append("typedef struct %s %s;" % (m.group(1), m.group(1)))
        if "class Box" in pre:
            lines += ["class Box { public: Box(); ~Box(); int size() const; Box *clone(); void merge(const Box &other);",
                      "  static Box make(int n); Box &self(); };"]
    if inp.get("header"):
        lines.append(inp["header"])
    for d in inp["decls"]:
        t = re.sub(r'\+\w+(\([^()]*(\([^()]*\))?[^()]*\))?', '', d)
        t = re.sub(r'\s+', ' ', t).strip()
        lines.append(t + ";")
    lines.append("#endif")
    return "\n".join(lines) + "\n"


def check(inp):
    key = (inp.get("yaml"), "F_CFI=true" in inp.get("args", []))
    if key in SKIP:
        return None
    out = tempfile.mkdtemp(prefix="mcc_")
    try:
        try:
            F.generate(F.inline_yaml(inp, out) if "decls" in inp else inp["yaml"], inp.get("args", []), out)
        except SystemExit as e:
            if e.code not in (0, None):
                if "decls" not in inp:
                    return "shroud exits with status %r on the upstream input %s %s" % (e.code, inp["yaml"], inp.get("args"))
                return None
        except Exception as e:
            if "decls" not in inp:
                return "shroud fails on the upstream input %s %s: %s: %s" % (inp["yaml"], inp.get("args"), type(e).__name__, str(e)[:150])
            return None
        names = sorted(os.listdir(out))
        fsrc = [n for n in names if n.endswith((".f", ".f90"))]
        pending = list(fsrc)
        last = {}
        for _round in range(len(fsrc) + 1):
            left = []
            for f in pending:
                rc, text = run(["gfortran", "-cpp", "-ffree-form", "-fsyntax-only", "-J", out, f], out)
                if rc != 0:
                    left.append(f)
                    last[f] = text
            if not left or len(left) == len(pending):
                pending = left
                break
            pending = left
        if pending:
            f = pending[0]
            err = [l for l in last[f].split("\n") if "Error" in l][:3]
            return "gfortran rejects the generated module %s: %s" % (f, " | ".join(err) or last[f][-300:])
        # link closure for the generator's own helper functions: a bind(C) name of a Shroud helper used by a module
        # is defined by one of the C/C++ files written in the same run
        ctext = "\n".join(open(os.path.join(out, n)).read() for n in names if n.endswith((".c", ".cpp")))
        for f in fsrc:
            for m in re.finditer(r'bind\(\s*C\s*,\s*name\s*=\s*"(\w*(?:Shroud|SHROUD)\w*)"', open(os.path.join(out, f)).read(), re.I):
                fn = m.group(1)
                if not re.search(r'\b%s\s*\(' % re.escape(fn), ctext):
                    return "module %s binds to the helper function %s which no generated C/C++ file defines (link error)" % (f, fn)
        if "decls" not in inp:
            # Python extension sources of the upstream corpus against the interpreter's and numpy's headers (syntax only),
            # where upstream ships the user library's header (regression/run/<name>)
            base = inp["yaml"][:-5]
            rundir = os.path.join(F.REPO, "regression", "run", base)
            if os.path.isdir(rundir) and PYINC:
                for n in names:
                    if n.startswith("py") and n.endswith((".c", ".cpp")):
                        cmd = (["g++", "-std=c++11"] if n.endswith(".cpp") else ["gcc", "-std=c99"])
                        rc, text = run(cmd + ["-fsyntax-only", "-I.", "-I" + rundir] + PYINC + [n], out)
                        if rc != 0:
                            if "No such file or directory" in text:
                                continue        # a header of the user's library is not available: no verdict
                            err = [l for l in text.split("\n") if "error" in l][:3]
                            return "%s rejects the generated Python extension source %s: %s" % (cmd[0], n, " | ".join(err))
            return None
        open(os.path.join(out, "gen.h"), "w").write(user_header(inp))
        cxx = inp.get("language", "c++") != "c"
        if inp.get("python") and PYINC:
            for n in names:
                if n.startswith("py") and n.endswith((".c", ".cpp", ".h", ".hpp")):
                    cmd = (["g++", "-std=c++11", "-x", "c++"] if n.endswith(("pp",)) else ["gcc", "-std=c99", "-x", "c"])
                    rc, text = run(cmd + ["-fsyntax-only", "-I."] + PYINC + [n], out)
                    if rc != 0:
                        err = [l for l in text.split("\n") if "error" in l][:3]
                        return "%s rejects the generated Python extension file %s: %s" % (cmd[0], n, " | ".join(err))
        for n in names:
            if n.startswith(("py", "lua")) or n == "setup.py":
                continue
            if n.endswith((".c", ".cpp")):
                std = "-std=c++98" if str((inp.get("options") or {}).get("CXX_standard", "2011")) < "2011" else "-std=c++11"
                cmd = ["g++", std] if n.endswith(".cpp") else ["gcc", "-std=c99"]
                rc, text = run(cmd + ["-fsyntax-only", "-I.", n], out)
                if rc != 0:
                    err = [l for l in text.split("\n") if "error" in l][:3]
                    return "%s rejects the generated source %s: %s" % (cmd[0], n, " | ".join(err))
            if n.endswith(".h"):
                for cmd in (["gcc", "-std=c99", "-x", "c"], ["g++", "-std=c++11", "-x", "c++"]):
                    rc, text = run(cmd + ["-fsyntax-only", "-I.", n], out)
                    if rc != 0:
                        err = [l for l in text.split("\n") if "error" in l][:3]
                        return "%s rejects the generated header %s on its own: %s" % (cmd[0], n, " | ".join(err))
        return None
    finally:
        shutil.rmtree(out, ignore_errors=True)


# declaration patterns taken from the user guide (docs/tutorial.rst, pointers.rst, fortran.rst, cfi.rst): each is wrapped
# on its own so that nothing another declaration drags in (a header, a helper) hides what this one needs
CORE = [
    "void f%d()", "int f%d()", "double f%d(double a, int b)", "long f%d(long a)", "void f%d(size_t n)", "bool f%d(bool a)",
    "void f%d(bool *a +intent(out))", "void f%d(bool *a +intent(inout))", "float f%d(float x)", "void f%d(char c)", "char f%d()",
    "void f%d(int *a +intent(in))", "void f%d(int *a +intent(out))", "void f%d(int *a +intent(inout))",
    "void f%d(const double *a +rank(1))", "void f%d(double *a +intent(inout)+rank(1))",
    "void f%d(int *values +intent(in)+rank(1), int n +implied(size(values)))",
    "void f%d(int n +intent(in), double *a +intent(out)+dimension(n))",
    "void f%d(const int *a +rank(2), int n +implied(size(a,1)), int m +implied(size(a,2)))",
    "void f%d(int **p +intent(out))", "void f%d(int **p +intent(out)+dimension(10))", "void f%d(int **p +intent(out)+deref(raw))",
    "void f%d(const int **p +intent(out))", "void f%d(int **p +intent(out)+deref(pointer)+dimension(10))",
    "void f%d(int *&p +intent(out))", "void f%d(int *&p +intent(out)+dimension(10))",
    "int *f%d()", "int *f%d() +dimension(4)", "int *f%d() +deref(pointer)+dimension(4)", "int *f%d() +deref(allocatable)+dimension(4)",
    "int *f%d() +deref(raw)", "int *f%d() +deref(scalar)", "int *f%d() +owner(caller)", "int *f%d() +owner(caller)+dimension(4)",
    "double *f%d() +deref(pointer)+dimension(2)+owner(caller)", "const int *f%d() +dimension(3)", "int &f%d()",
    "void f%d(const char *s)", "void f%d(char *s +intent(out)+charlen(30))", "void f%d(char *s +intent(inout))",
    "void f%d(char *s +intent(out))", "const char *f%d()", "const char *f%d() +deref(allocatable)", "const char *f%d() +len(30)",
    "const char *f%d() +deref(raw)", "char *f%d() +owner(caller)", "void f%d(char **names +intent(in))",
    "void f%d(char **names +intent(in), int n +implied(size(names)))",
    "void f%d(const std::string &s)", "void f%d(std::string &s +intent(out))", "void f%d(std::string &s +intent(inout))",
    "void f%d(std::string *s +intent(out))", "void f%d(const std::string *s)", "void f%d(std::string s)",
    "std::string f%d()", "const std::string &f%d()", "const std::string *f%d()", "std::string f%d() +deref(allocatable)",
    "const std::string &f%d() +len(30)", "const std::string *f%d() +owner(caller)", "const std::string f%d() +deref(allocatable)",
    "void f%d(const std::vector<int> &v)", "void f%d(std::vector<int> &v +intent(out))", "void f%d(std::vector<int> &v +intent(inout))",
    "void f%d(std::vector<double> &v +intent(out)+deref(allocatable))", "void f%d(std::vector<int> &v +intent(inout)+deref(allocatable))",
    "void f%d(const std::vector<std::string> &v)", "std::vector<int> f%d()", "void f%d(std::vector<int> *v +intent(out))",
    "void f%d(void *p)", "void *f%d()", "void f%d(void **p +intent(out))",
    "void f%d(int (*cb)(int))", "void f%d(void (*cb)(double *x +intent(in)))",
    "void f%d(int a, double b = 1.5)", "void f%d(int a = 0, int b = 1)", "int f%d(int a) +pure",
    "void f%d(int *a +intent(in)+value)" ,
    # fixed-width element types reached only through a container / a pointer; callbacks returning pointers
    "void f%d(const std::vector<int64_t> &v)", "void f%d(std::vector<int64_t> &v +intent(out))",
    "void f%d(const std::vector<uint16_t> &v)", "void f%d(int64_t *a +intent(out))", "int32_t f%d(uint8_t a)",
    "void f%d(const char * (*name)(int i))", "void f%d(double * (*next)(int i))", "void f%d(int * (*get)(void))", "void f%d(double (*get)(int i), int n)",
]


def core(skip=()):
    for lang in ("c++", "c"):
        for opts in ({}, {"F_CFI": "true"}):
            for i, sh in enumerate(CORE):
                if lang == "c" and ("std::" in sh or "&" in sh or "= " in sh):
                    continue
                if [sh, bool(opts)] in skip:
                    continue      # recorded known finding: replayed separately by the check
                yield {"decls": [sh % i], "language": lang, "options": opts}
    yield {"pre": ["- decl: class Box\n  declarations:\n  - decl: Box()\n  - decl: ~Box()\n  - decl: int size() const\n"
                   "  - decl: Box *clone() +owner(caller)\n  - decl: void merge(const Box &other)\n"
                   "  - decl: static Box make(int n)\n  - decl: Box &self()\n"],
           "decls": ["void take(Box b)", "void takep(Box *b)", "void taker(Box &b)", "Box give()", "Box *givep()",
                     "const Box &giver()"], "language": "c++", "options": {}}
    # a namespace with its own Fortran module whose functions need C-implemented helpers nothing else asks for
    yield {"pre": ["- decl: namespace outer\n  declarations:\n  - decl: const std::string& name()\n"
                   "  - decl: void fill(std::vector<int> &v +intent(out))\n"
                   "  - decl: namespace inner\n    declarations:\n    - decl: std::vector<double> grid()\n"],
           "header": "namespace outer { const std::string& name(); void fill(std::vector<int> &v);\n"
                     "  namespace inner { std::vector<double> grid(); } }",
           "decls": ["int top(int a)"], "language": "c++", "options": {}}
    # function templates whose instantiations differ in the result type only / in the argument type
    yield {"pre": ["- decl: template<typename T, typename U> T convert(U value)\n  cxx_template:\n  - instantiation: <int, double>\n"
                   "  - instantiation: <long, double>\n",
                   "- decl: template<typename T> T twice(T value)\n  cxx_template:\n  - instantiation: <int>\n  - instantiation: <double>\n"],
           "header": "template<typename T, typename U> T convert(U value); template<typename T> T twice(T value);",
           "decls": ["int top(int a)"], "language": "c++", "options": {}}
    # a struct whose member types need a standard header that no prototype brings in
    yield {"pre": ["- decl: struct Big { size_t n; int64_t big; uint8_t flag; };"], "decls": ["int top(int a)"], "language": "c++",
           "options": {}, "bare_header": True, "header": "#include <cstddef>\n#include <cstdint>"}
    # a struct with pointer members in a library where nothing else needs C_PTR; pointer results next to arguments that
    # bring pre_call code (bool, implied)
    for lang in ("c", "c++"):
        yield {"pre": ["- decl: struct Buffer { int n; double *data; const char *label; };"],
               "decls": ["int buffer_len(const Buffer *b)", "void buffer_clear(Buffer *b +intent(inout))"], "language": lang, "options": {}}
        yield {"pre": ["- decl: struct Cell { int id; double value; };"],
               "decls": ["int *counter(void)", "int *find_slot(int key, bool create)", "Cell *find_cell(int id, bool create)",
                         "double *largest(double *values +rank(1)+intent(in), int n +implied(size(values)))",
                         "int *pick(int *out +intent(out), bool flag)"],
               "language": lang, "options": {}}
    # functions of a namespace (own Fortran module) that take / return a class of the enclosing scope
    yield {"pre": ["- decl: class Shape\n  declarations:\n  - decl: Shape()\n  - decl: ~Shape()\n  - decl: int area()\n"
                   "- decl: namespace tools\n  declarations:\n  - decl: int measure(Shape *s)\n  - decl: Shape *make()\n"
                   "  - decl: void both(const Shape &a, Shape &b)\n"],
           "header": "class Shape { public: Shape(); ~Shape(); int area(); }; namespace tools { int measure(Shape *s); Shape *make(); "
                     "void both(const Shape &a, Shape &b); }",
           "decls": ["int top(int a)"], "language": "c++", "options": {}}
    # const methods whose only non-input arguments are hidden from the Fortran API (they are still
    # dummies of the bind(C) interface)
    yield {"pre": ["- decl: class Tab\n  declarations:\n  - decl: Tab()\n  - decl: int lookup(int key, int *status +intent(out)+hidden) const\n"
                   "  - decl: int count(int *err +intent(inout)+hidden) const\n  - decl: int plain(int key) const\n"
                   "  - decl: double total(const double *v +rank(1), int n +implied(size(v))) const\n"],
           "header": "class Tab { public: Tab(); int lookup(int key, int *status) const; int count(int *err) const; "
                     "int plain(int key) const; double total(const double *v, int n) const; };",
           "decls": ["int top(int a)"], "language": "c++", "options": {}}
    # the same overload set in two namespaces folded into the parent module
    for fl in ("F_flatten_namespace",):
        yield {"pre": ["- decl: namespace metric\n  options:\n    %s: true\n  declarations:\n  - decl: double convert(int v)\n"
                       "  - decl: double convert(double v)\n"
                       "- decl: namespace imperial\n  options:\n    %s: true\n  declarations:\n  - decl: double convert(int v)\n"
                       "  - decl: double convert(double v)\n  - decl: void only_here(int a)\n  - decl: void only_here(double a)\n" % (fl, fl)],
               "header": "namespace metric { double convert(int v); double convert(double v); } namespace imperial { "
                         "double convert(int v); double convert(double v); void only_here(int a); void only_here(double a); }",
               "decls": ["int top(int a)"], "language": "c++", "options": {}}
    # older C++ standards (NULL instead of nullptr) with a user header that includes nothing
    for std in ("2003", "2011"):
        yield {"pre": ["- decl: class Box\n  declarations:\n  - decl: Box()\n  - decl: ~Box()\n  - decl: int size() const\n"
                       "  - decl: Box *clone() +owner(caller)\n  - decl: void merge(const Box &other)\n"
                       "  - decl: static Box make(int n)\n  - decl: Box &self()\n"],
               "decls": ["int top(int a)"], "language": "c++", "options": {"CXX_standard": std}, "bare_header": True}
        yield {"decls": ["int top(int a)", "int *mk() +owner(caller)"], "language": "c++", "options": {"CXX_standard": std},
               "bare_header": True}
    for lang in ("c", "c++"):
        yield {"pre": ["- decl: struct Pt { int x; double y; };"],
               "decls": ["void st(Pt p)", "void stp(Pt *p +intent(inout))", "Pt mk()", "Pt *mkp()",
                         "void sta(Pt *p +intent(in)+rank(1), int n +implied(size(p)))"], "language": lang, "options": {}}


PYDECLS = ["int f10(const std::vector<int> &v)", "void f11(void *p)", "double f12(const std::vector<double> &v, int n)",
           "void f1(int *v +rank(1))", "void f2(const char *s)", "int *f3() +dimension(3)", "void f4(std::vector<int> &v +intent(out))",
           "void f5(double *a +intent(inout)+rank(1))", "int f6(int a, double b = 1.0)", "void f7(char **names +intent(in))",
           "std::string f8()", "void f9(int *out +intent(out))",
           # a result next to intent(out) arrays (storage allocated -- and `goto fail` possible -- before the call)
           "int f13(int key, double *values +intent(out)+dimension(3))", "double f14(int *out +intent(out)+dimension(4))",
           "int f15(int n, int *out +intent(out)+dimension(n))", "bool f16(double *a +intent(out)+dimension(2), int *b +intent(out)+dimension(2))"]
PYOPTS = [{}, {"PY_write_helper_in_util": "true"}, {"PY_array_arg": "list"}, {"PY_array_arg": "list", "PY_write_helper_in_util": "true"},
          {"PY_array_arg": "numpy", "PY_write_helper_in_util": "true"}]


def pycore():
    for lang in ("c++", "c"):
        for opts in PYOPTS:
            decls = [d for d in PYDECLS if lang == "c++" or ("std::" not in d and "= " not in d)]
            o = dict(opts)
            o["wrap_python"] = "true"
            yield {"decls": decls, "language": lang, "options": o, "python": True}
    o = {"wrap_python": "true", "PY_write_helper_in_util": "true"}
    # (a class returned by value is not supported by the Python wrapper: upstream switches wrap_python off for it)
    yield {"pre": ["- decl: class Box\n  declarations:\n  - decl: Box()\n  - decl: ~Box()\n  - decl: int size() const\n"
                   "  - decl: Box *clone() +owner(caller)\n  - decl: void merge(const Box &other)\n"
                   "  - decl: Box &self()\n"],
           "decls": ["void takep(const Box *b)", "Box *givep()"], "language": "c++", "options": o, "python": True}


def candidates(seed, around=None):
    skip = [list(x) for x in ((around or {}).get("skip") or [])]
    for x in F.corpus():
        if [x["yaml"], "F_CFI=true" in x.get("args", [])] in skip:
            continue          # recorded known finding: replayed separately by the check
        yield x
    for x in core(skip):
        yield x
    for x in pycore():
        yield x
