"""Build and run the bounded C harness against the helper texts of the tree under check.
usage (module): run(tabs) -> list of {"variant", "ok", "output"}"""
import os
import shutil
import subprocess
import tempfile

HERE = os.path.dirname(os.path.abspath(__file__))
ORDER = ["ShroudLenTrim", "ShroudStrCopy", "ShroudStrBlankFill", "ShroudStrAlloc", "ShroudStrFree",
         "ShroudStrArrayAlloc", "ShroudStrArrayFree", "capsule_data_helper", "array_context", "@destructor", "copy_string", "copy_array"]
# stand-in for the generated {C_memory_dtor_function}: counts the releases
DTOR = """
static int n_released = 0; static void *last_released = 0;
#ifdef __cplusplus
extern "C"
#endif
void LIB_SHROUD_memory_destructor(LIB_SHROUD_capsule_data *cap) { n_released++; last_released = (void *) cap; }
"""


def clean(src):
    import re
    src = src.replace("\t", " ")
    src = re.sub(r'\{\+', '{', src)
    src = re.sub(r'(^|\n)\s*-\}', r'\1}', src)
    return src


def run(tabs, timeout=300):
    results = []
    for lang, t in sorted(tabs.items()):
        d = tempfile.mkdtemp(prefix="charness_")
        try:
            parts, have = [], []
            for name in ORDER:
                if name == "@destructor":
                    parts.append(DTOR)
                    continue
                h = t["CHelpers"].get(name)
                if not h:
                    continue
                src = h.get(lang + "_source") or h.get("source") or h.get("c_source")
                if isinstance(src, str):
                    parts.append(clean(src))
                    have.append(name)
            open(os.path.join(d, "helpers_extracted.h"), "w").write("\n".join(parts) + "\n")
            shutil.copy(os.path.join(HERE, "c_harness", "driver.c"), os.path.join(d, "driver.c"))
            cc = ["gcc", "-x", "c", "-std=c99"] if lang == "c" else ["g++", "-x", "c++"]
            cmd = cc + ["-g", "-O0", "-fsanitize=address,undefined", "-fno-sanitize-recover=all", "-Wno-unused-function"] + \
                ["-DHAVE_%s" % n for n in have] + ["driver.c", "-o", "driver"]
            p = subprocess.run(cmd, cwd=d, capture_output=True, text=True, timeout=timeout)
            if p.returncode != 0:
                results.append({"variant": lang, "ok": False, "output": "compile error: " + p.stderr[-1500:]})
                continue
            env = dict(os.environ)
            env["ASAN_OPTIONS"] = "detect_leaks=1:abort_on_error=0"
            p = subprocess.run(["./driver"], cwd=d, capture_output=True, text=True, timeout=timeout, env=env)
            out = (p.stdout + p.stderr)[-2500:]
            results.append({"variant": lang, "ok": p.returncode == 0 and "OK" in p.stdout, "output": out})
        finally:
            shutil.rmtree(d, ignore_errors=True)
    return results
