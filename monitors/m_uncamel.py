"""util.un_camel executable contract (C08/U1)."""
import itertools


def check(inp):
    from shroud import util
    t = inp["text"]
    r = util.un_camel(t)
    if any(c.isupper() for c in r):
        return "upper-case character left in %r -> %r" % (t, r)
    if r.replace("_", "") != t.lower().replace("_", ""):
        return "characters lost, duplicated or reordered: %r -> %r" % (t, r)
    if not (len(t) <= len(r) <= 2 * len(t)):
        return "length out of range: %r -> %r" % (t, r)
    if not any(c.isupper() for c in t) and r != t:
        return "a name without capitals was changed: %r -> %r" % (t, r)
    want = ""
    for i, c in enumerate(t):
        sep = c.isupper() and i >= 2 and (t[i - 1].islower() or (i + 1 < len(t) and t[i + 1].islower()))
        want += ("_" + c.lower()) if sep else c.lower()
    if r != want:
        return "documented mapping changed: %r -> %r, documented form is %r" % (t, r, want)
    return None


def candidates(seed, around=None):
    if around and around.get("text"):
        yield {"text": around["text"]}
    for n in range(1, 7):
        for tup in itertools.product("aZbQ_9", repeat=n):
            yield {"text": "".join(tup)}
