"""C12 executable statement, end to end (bounded stand-in): run the REAL generator once to learn which splicer blocks
its output files have; write splicer files that put one unique line into every one of those blocks (C, Fortran; given on
the command line or listed under `splicer:` in the YAML by language key); run again; every unique line must be found in
the block it was written for, in the file it came from, exactly once -- and nowhere else.

inputs: {"yaml": "<library text>", "how": "cmdline" | "yaml-key"}
"""
import contextlib
import io
import os
import re
import shutil
import sys
import tempfile

BEGIN = re.compile(r'^\s*(//|!)\s*splicer begin\s+(\S+)')
END = re.compile(r'^\s*(//|!)\s*splicer end\s+(\S+)')


def run(yaml_text, d, extra_files=(), splicer_yaml=None):
    from shroud import main as M
    text = yaml_text
    if splicer_yaml:
        text += "splicer:\n" + "".join("  %s:\n%s" % (k, "".join("  - %s\n" % f for f in fs)) for k, fs in sorted(splicer_yaml.items()))
    p = os.path.join(d, "lib.yaml")
    open(p, "w").write(text)
    out = os.path.join(d, "out")
    shutil.rmtree(out, ignore_errors=True)
    os.makedirs(out)
    saved = sys.argv
    sys.argv = ["shroud", "--outdir", out, "--logdir", out, "--path", d, p] + list(extra_files)
    try:
        with contextlib.redirect_stdout(io.StringIO()), contextlib.redirect_stderr(io.StringIO()):
            M.main()
    except SystemExit as e:
        if e.code not in (0, None):
            raise RuntimeError("exit %r" % e.code)
    finally:
        sys.argv = saved
    return out


def blocks_of(path):
    """tag -> list of body lines, for one generated file"""
    out, tag, body = {}, None, []
    for line in open(path).read().split("\n"):
        if tag is None:
            m = BEGIN.match(line)
            if m:
                tag, body = m.group(2), []
        else:
            m = END.match(line)
            if m and m.group(2) == tag:
                out.setdefault(tag, []).append(body)
                tag = None
            else:
                body.append(line)
    return out


def check(inp):
    d = tempfile.mkdtemp(prefix="mspl_")
    try:
        try:
            out = run(inp["yaml"], d)
        except Exception:
            return None
        kinds = {"c": (("wrap", (".c", ".cpp", ".h")), "//"), "f": (("wrapf", (".f", ".f90")), "!")}
        files = {}
        for n in sorted(os.listdir(out)):
            if n.startswith("wrapf") and n.endswith((".f", ".f90")):
                files[n] = "f"
            elif n.startswith(("wrap", "util", "types")) and n.endswith((".c", ".cpp", ".h")):
                files[n] = "c"
        # a module file belongs to one namespace: all its namespace-level tags name the same scope
        for n, kind in files.items():
            scopes = set()
            for tag in blocks_of(os.path.join(out, n)):
                m = re.match(r'namespace\.([^.]+)\.', tag)
                if m:
                    scopes.add(m.group(1))
            if len(scopes) > 1:
                return "%s mixes splicer blocks of several namespace scopes %s: user code for one namespace ends up in another's module" % (
                    n, sorted(scopes))
        expect = {}       # unique line -> (kind, tag)
        sp = {"c": [], "f": []}
        counter = 0
        seen = {"c": set(), "f": set()}
        for n, kind in files.items():
            lead = "//" if kind == "c" else "!"
            for tag in blocks_of(os.path.join(out, n)):
                if tag in seen[kind]:
                    continue
                seen[kind].add(tag)
                counter += 1
                uniq = "%s USERLINE_%d_%s" % (lead, counter, kind)
                expect[uniq] = (kind, tag)
                sp[kind] += ["%s splicer begin %s" % (lead, tag), uniq, "%s splicer end %s" % (lead, tag), ""]
        if not expect:
            return None
        # a nested tag first, a file-level tag last, in both files: order of blocks in a splicer file is the user's choice
        names = {}
        for kind, ext in (("c", ".c"), ("f", ".f")):
            if inp.get("how") == "yaml-key":
                ext = "_%s.txt" % kind      # listed under its language key: the file name carries no information
            fn = os.path.join(d, "user_splicer" + ext)
            open(fn, "w").write("\n".join(sp[kind]) + "\n")
            names[kind] = fn
        try:
            if inp.get("how") == "yaml-key":
                # listed in the YAML under the language key; the Fortran file keeps its natural extension, the C one too
                out2 = run(inp["yaml"], d, splicer_yaml={"c": [os.path.basename(names["c"])], "f": [os.path.basename(names["f"])]})
            else:
                out2 = run(inp["yaml"], d, extra_files=[names["c"], names["f"]])
        except Exception as e:
            return "the generator rejects splicer files that repeat its own block names: %s" % str(e)[:200]
        found = {}
        for n in sorted(os.listdir(out2)):
            kind = "f" if (n.startswith("wrapf") and n.endswith((".f", ".f90"))) else "c" if n.endswith((".c", ".cpp", ".h")) else None
            if kind is None or n.startswith(("py", "lua")):
                continue
            for tag, bodies in blocks_of(os.path.join(out2, n)).items():
                for body in bodies:
                    for line in body:
                        s = line.strip()
                        if "USERLINE_" in s:
                            found.setdefault(s, []).append((kind, tag, n))
        for uniq, (kind, tag) in sorted(expect.items()):
            got = found.get(uniq, [])
            if not got:
                return "user code written for block %s (%s) is not in any generated file" % (tag, "C" if kind == "c" else "Fortran")
            bad = [g for g in got if g[0] != kind or g[1] != tag]
            if bad:
                return "user code written for block %s landed in block %s of %s" % (tag, bad[0][1], bad[0][2])
        for s, where in found.items():
            if s not in expect:
                return "unexpected user line %r in %r" % (s, where)
        return None
    finally:
        shutil.rmtree(d, ignore_errors=True)


LIBS = ["""library: demo
cxx_header: demo.hpp
options:
  wrap_python: false
  wrap_lua: false
declarations:
- decl: void top_func(int a)
- decl: namespace solo
  declarations:
  - decl: void solo_func(int a)
- decl: namespace outer
  declarations:
  - decl: void outer_func(int a)
  - decl: class Thing
    declarations:
    - decl: Thing()
    - decl: void poke()
  - decl: namespace inner
    declarations:
    - decl: void inner_func(int a)
    - decl: namespace core
      declarations:
      - decl: void core_func()
""", """library: plain
cxx_header: plain.hpp
options:
  wrap_python: false
  wrap_lua: false
declarations:
- decl: void set_name(const char *name)
- decl: int count()
- decl: int count(int a)
- decl: class Box
  declarations:
  - decl: Box()
  - decl: ~Box()
  - decl: int size()
  - decl: void grow(int n, int m = 1)
- decl: enum Color { RED, BLUE }
""", """library: cl
cxx_header: cl.h
language: c
options:
  wrap_python: false
  wrap_lua: false
declarations:
- decl: void f(const char *s)
- decl: int *g() +dimension(3)
- decl: struct Pt
  declarations:
  - decl: int x
  - decl: double y
"""]


def candidates(seed, around=None):
    for y in LIBS:
        for how in ("cmdline", "yaml-key"):
            yield {"yaml": y, "how": how}
