"""C12 executable statement, end to end (bounded stand-in): run the REAL generator once to learn which splicer blocks
its output files have; write splicer files that put one unique line into every one of those blocks (C, Fortran; given on
the command line or listed under `splicer:` in the YAML by language key); run again; every unique line must be found in
the block it was written for, in the file it came from, exactly once -- and nowhere else.

inputs: {"yaml": "<library text>", "how": "cmdline" | "yaml-key"}
"""
import contextlib
import io
import os
import re
import shutil
import sys
import tempfile

BEGIN = re.compile(r'^\s*(//|!)\s*splicer begin\s+(\S+)')
END = re.compile(r'^\s*(//|!)\s*splicer end\s+(\S+)')


def nest(tags_to_lines):
    """{'a.b.c': [lines]} -> {'a': {'b': {'c': [lines]}}}"""
    root = {}
    for tag, lines in tags_to_lines.items():
        cur = root
        parts = tag.split(".")
        for p_ in parts[:-1]:
            cur = cur.setdefault(p_, {})
            if not isinstance(cur, dict):
                return None
        if isinstance(cur.get(parts[-1]), dict):
            return None
        cur[parts[-1]] = list(lines)
    return root


def run(yaml_text, d, extra_files=(), splicer_yaml=None, splicer_code=None):
    from shroud import main as M
    text = yaml_text
    if splicer_code:
        import yaml
        text += yaml.safe_dump({"splicer_code": splicer_code}, default_flow_style=False)
    if splicer_yaml:
        text += "splicer:\n" + "".join("  %s:\n%s" % (k, "".join("  - %s\n" % f for f in fs)) for k, fs in sorted(splicer_yaml.items()))
    p = os.path.join(d, "lib.yaml")
    open(p, "w").write(text)
    out = os.path.join(d, "out")
    shutil.rmtree(out, ignore_errors=True)
    os.makedirs(out)
    saved = sys.argv
    sys.argv = ["shroud", "--outdir", out, "--logdir", out, "--path", d, p] + list(extra_files)
    try:
        with contextlib.redirect_stdout(io.StringIO()), contextlib.redirect_stderr(io.StringIO()):
            M.main()
    except SystemExit as e:
        if e.code not in (0, None):
            raise RuntimeError("exit %r" % e.code)
    finally:
        sys.argv = saved
    return out


def blocks_of(path):
    """tag -> list of body lines, for one generated file"""
    out, tag, body = {}, None, []
    for line in open(path).read().split("\n"):
        if tag is None:
            m = BEGIN.match(line)
            if m:
                tag, body = m.group(2), []
        else:
            m = END.match(line)
            if m and m.group(2) == tag:
                out.setdefault(tag, []).append(body)
                tag = None
            else:
                body.append(line)
    return out


EMPTY_LIB = """library: holder
cxx_header: holder.hpp
options:
  wrap_python: false
  wrap_lua: false
declarations:
- decl: int add(int a, int b)
- decl: class Holder
- decl: namespace detail
  declarations:
  - decl: class Impl
    declarations:
    - decl: int value()
"""


def check_unwritten(inp):
    """file-level blocks of a scope whose implementation file would otherwise be empty (a class without methods, a
    namespace that only holds classes): the user's code makes the file, it does not vanish"""
    d = tempfile.mkdtemp(prefix="mspl_")
    try:
        tags = {"class.Holder.C_definitions": "// USERLINE_holder_cdef", "class.Holder.CXX_definitions": "// USERLINE_holder_cxxdef",
                "namespace.detail.C_definitions": "// USERLINE_detail_cdef", "namespace.detail.CXX_definitions": "// USERLINE_detail_cxxdef"}
        for tag in inp["tags"]:
            uniq = tags[tag]
            try:
                if inp["via"] == "code":
                    out = run(EMPTY_LIB, d, splicer_code={"c": nest({tag: [uniq]})})
                else:
                    fn = os.path.join(d, "user_splicer.c")
                    open(fn, "w").write("// splicer begin %s\n%s\n// splicer end %s\n" % (tag, uniq, tag))
                    out = run(EMPTY_LIB, d, extra_files=[fn])
            except Exception:
                return None
            found = user_lines(out)
            if uniq not in found:
                return "user code supplied for block %s (%s) is in no generated file: %s" % (tag, inp["via"], sorted(
                    n for n in os.listdir(out) if n.endswith((".cpp", ".h"))))
            bad = [g for g in found[uniq] if g[1] != tag]
            if bad:
                return "user code supplied for block %s landed in block %s of %s" % (tag, bad[0][1], bad[0][2])
        return None
    finally:
        shutil.rmtree(d, ignore_errors=True)


DECL_C_LIB = """library: dclc
language: c
c_header: dclc.h
options:
  wrap_python: false
  wrap_lua: false
%s
declarations:
- decl: int add(int a, int b)
  splicer:
    c:
    - // USERLINE_add_c
    - return a + b + 1;
- decl: void noop(void)
- decl: double half(double x)
  splicer:
    c:
    - // USERLINE_half_c
"""


def check_decl_c(inp):
    """a C library whose functions need no wrapper code of their own: the splicer given on a declaration is user code
    for the C wrapper of that declaration, so the wrapper (and its block) is written and holds the text"""
    d = tempfile.mkdtemp(prefix="mspl_")
    try:
        try:
            out = run(DECL_C_LIB % inp.get("options", ""), d)
        except Exception:
            return None
        found = user_lines(out)
        for uniq, tag in (("// USERLINE_add_c", "function.add"), ("// USERLINE_half_c", "function.half")):
            got = found.get(uniq, [])
            if not got:
                return "the c splicer given on the declaration of %s (language: c%s) is in no generated file: the user's wrapper " \
                       "body is dropped" % (tag.split(".")[1], ", " + inp["options"].strip() if inp.get("options") else "")
            bad = [g for g in got if g[1] != tag]
            if bad:
                return "the c splicer of %s landed in block %s of %s" % (tag, bad[0][1], bad[0][2])
        return None
    finally:
        shutil.rmtree(d, ignore_errors=True)


def check(inp):
    if inp.get("how") == "decl":
        return check_decl(inp)
    if inp.get("how") == "decl_c":
        return check_decl_c(inp)
    if inp.get("how") == "unwritten":
        return check_unwritten(inp)
    d = tempfile.mkdtemp(prefix="mspl_")
    try:
        try:
            out = run(inp["yaml"], d)
        except Exception:
            return None
        kinds = {"c": (("wrap", (".c", ".cpp", ".h")), "//"), "f": (("wrapf", (".f", ".f90")), "!")}
        files = {}
        for n in sorted(os.listdir(out)):
            if n.startswith("wrapf") and n.endswith((".f", ".f90")):
                files[n] = "f"
            elif n.startswith(("wrap", "util", "types")) and n.endswith((".c", ".cpp", ".h")):
                files[n] = "c"
        # a module file belongs to one namespace: all its namespace-level tags name the same scope
        for n, kind in files.items():
            scopes = set()
            for tag in blocks_of(os.path.join(out, n)):
                m = re.match(r'namespace\.([^.]+)\.', tag)
                if m:
                    scopes.add(m.group(1))
            if len(scopes) > 1:
                return "%s mixes splicer blocks of several namespace scopes %s: user code for one namespace ends up in another's module" % (
                    n, sorted(scopes))
        expect = {}       # unique line -> (kind, tag)
        sp = {"c": [], "f": []}
        counter = 0
        seen = {"c": set(), "f": set()}
        for n, kind in files.items():
            lead = "//" if kind == "c" else "!"
            for tag in blocks_of(os.path.join(out, n)):
                if tag in seen[kind]:
                    continue
                seen[kind].add(tag)
                counter += 1
                uniq = "%s USERLINE_%d_%s" % (lead, counter, kind)
                expect[uniq] = (kind, tag)
                sp[kind] += ["%s splicer begin %s" % (lead, tag), uniq, "%s splicer end %s" % (lead, tag), ""]
        if not expect:
            return None
        how = inp.get("how", "cmdline")
        if how in ("code", "mixed", "collide", "twofiles", "twofiles-yaml"):
            return check_sources(inp, d, out, files, expect, how)
        # a nested tag first, a file-level tag last, in both files: order of blocks in a splicer file is the user's choice
        names = {}
        for kind, ext in (("c", ".c"), ("f", ".f")):
            if inp.get("how") == "yaml-key":
                ext = "_%s.txt" % kind      # listed under its language key: the file name carries no information
            fn = os.path.join(d, "user_splicer" + ext)
            open(fn, "w").write("\n".join(sp[kind]) + "\n")
            names[kind] = fn
        try:
            if inp.get("how") == "yaml-key":
                # listed in the YAML under the language key; the Fortran file keeps its natural extension, the C one too
                out2 = run(inp["yaml"], d, splicer_yaml={"c": [os.path.basename(names["c"])], "f": [os.path.basename(names["f"])]})
            else:
                out2 = run(inp["yaml"], d, extra_files=[names["c"], names["f"]])
        except Exception as e:
            return "the generator rejects splicer files that repeat its own block names: %s" % str(e)[:200]
        found = {}
        for n in sorted(os.listdir(out2)):
            kind = "f" if (n.startswith("wrapf") and n.endswith((".f", ".f90"))) else "c" if n.endswith((".c", ".cpp", ".h")) else None
            if kind is None or n.startswith(("py", "lua")):
                continue
            for tag, bodies in blocks_of(os.path.join(out2, n)).items():
                for body in bodies:
                    for line in body:
                        s = line.strip()
                        if "USERLINE_" in s:
                            found.setdefault(s, []).append((kind, tag, n))
        for uniq, (kind, tag) in sorted(expect.items()):
            got = found.get(uniq, [])
            if not got:
                return "user code written for block %s (%s) is not in any generated file" % (tag, "C" if kind == "c" else "Fortran")
            bad = [g for g in got if g[0] != kind or g[1] != tag]
            if bad:
                return "user code written for block %s landed in block %s of %s" % (tag, bad[0][1], bad[0][2])
        for s, where in found.items():
            if s not in expect:
                return "unexpected user line %r in %r" % (s, where)
        return None
    finally:
        shutil.rmtree(d, ignore_errors=True)


def user_lines(outdir):
    found = {}
    for n in sorted(os.listdir(outdir)):
        kind = "f" if (n.startswith("wrapf") and n.endswith((".f", ".f90"))) else "c" if n.endswith((".c", ".cpp", ".h")) else None
        if kind is None or n.startswith(("py", "lua")):
            continue
        for tag, bodies in blocks_of(os.path.join(outdir, n)).items():
            for body in bodies:
                for line in body:
                    s = line.strip()
                    if "USERLINE_" in s:
                        found.setdefault(s, []).append((kind, tag, n))
    return found


def check_sources(inp, d, out, files, expect, how):
    """the three ways of supplying a block and their precedence: splicer_code in the YAML, splicer files, both.
    code     every block through splicer_code
    mixed    blocks alternate between a splicer file and splicer_code (disjoint names): every one of them arrives
    collide  every block in BOTH, with different text: the splicer_code text is emitted (it is applied after the files),
             the file's text nowhere"""
    by_kind = {"c": {}, "f": {}}
    for uniq, (kind, tag) in expect.items():
        by_kind[kind][tag] = uniq
    if how.startswith("twofiles"):
        # the blocks of a language alternate between TWO splicer files (neighbouring tags share their name prefixes)
        parts = {("c", 0): [], ("c", 1): [], ("f", 0): [], ("f", 1): []}
        want = {}
        for kind in ("c", "f"):
            lead = "//" if kind == "c" else "!"
            for i, (tag, uniq) in enumerate(sorted(by_kind[kind].items())):
                parts[(kind, i % 2)] += ["%s splicer begin %s" % (lead, tag), uniq, "%s splicer end %s" % (lead, tag), ""]
                want[uniq] = (kind, tag)
        names = {}
        for (kind, k), lines in parts.items():
            fn = os.path.join(d, "user%d_splicer.%s" % (k, kind))
            open(fn, "w").write("\n".join(lines) + "\n")
            names[(kind, k)] = fn
        try:
            if how == "twofiles-yaml":
                out2 = run(inp["yaml"], d, splicer_yaml={"c": [os.path.basename(names[("c", 0)]), os.path.basename(names[("c", 1)])],
                                                          "f": [os.path.basename(names[("f", 0)]), os.path.basename(names[("f", 1)])]})
            else:
                out2 = run(inp["yaml"], d, extra_files=[names[("c", 0)], names[("c", 1)], names[("f", 0)], names[("f", 1)]])
        except Exception as e:
            return "the generator rejects two splicer files per language: %s" % str(e)[:200]
        found = user_lines(out2)
        for uniq, (kind, tag) in sorted(want.items()):
            got = found.get(uniq, [])
            if not got:
                return "[%s] user code supplied for block %s (%s) is not in any generated file" % (how, tag, "C" if kind == "c" else "Fortran")
            bad = [g for g in got if g[0] != kind or g[1] != tag]
            if bad:
                return "[%s] user code supplied for block %s landed in block %s of %s" % (how, tag, bad[0][1], bad[0][2])
        return None
    code, filetext, want = {}, {"c": [], "f": []}, {}
    for kind in ("c", "f"):
        lead = "//" if kind == "c" else "!"
        in_code = {}
        for i, (tag, uniq) in enumerate(sorted(by_kind[kind].items())):
            to_code = how in ("code", "collide") or (how == "mixed" and i % 2 == 0)
            to_file = how == "collide" or (how == "mixed" and i % 2 == 1)
            if to_code:
                in_code[tag] = [uniq]
                want[uniq] = (kind, tag)
            if to_file:
                line = uniq + ("_FROMFILE" if how == "collide" else "")
                filetext[kind] += ["%s splicer begin %s" % (lead, tag), line, "%s splicer end %s" % (lead, tag), ""]
                if how != "collide":
                    want[uniq] = (kind, tag)
        n_ = nest(in_code)
        if n_ is None:
            return None         # a tag that is both a leaf and a prefix cannot be written as a mapping
        if n_:
            code[kind] = n_
    extra = []
    for kind, ext in (("c", ".c"), ("f", ".f")):
        if filetext[kind]:
            fn = os.path.join(d, "user_splicer" + ext)
            open(fn, "w").write("\n".join(filetext[kind]) + "\n")
            extra.append(fn)
    try:
        out2 = run(inp["yaml"], d, extra_files=extra, splicer_code=code)
    except Exception as e:
        return "the generator rejects user blocks that repeat its own block names (%s): %s" % (how, str(e)[:200])
    found = user_lines(out2)
    for uniq, (kind, tag) in sorted(want.items()):
        got = found.get(uniq, [])
        if not got:
            return "[%s] user code supplied for block %s (%s) is not in any generated file" % (how, tag, "C" if kind == "c" else "Fortran")
        bad = [g for g in got if g[0] != kind or g[1] != tag]
        if bad:
            return "[%s] user code supplied for block %s landed in block %s of %s" % (how, tag, bad[0][1], bad[0][2])
    for s_, where in found.items():
        if s_ not in want:
            return "[%s] unexpected user line %r in %r%s" % (how, s_, where[:2], " (splicer_code is applied after the splicer files: "
                                                              "its text is the one to emit)" if s_.endswith("_FROMFILE") else "")
    return None


DECL_LIB = """library: dcl
cxx_header: dcl.hpp
options:
  wrap_python: false
  wrap_lua: false
declarations:
- decl: void pass_name(const std::string &name)
%s
- decl: int plain(int a)
- decl: class Widget
  declarations:
  - decl: void rename(const char *name)
%s
"""


def check_decl(inp):
    """a splicer given on a declaration replaces the body of THAT wrapper's block; every other block -- the generated
    variants of the same function included (bufferify) -- keeps the default it has without the declaration-level splicer"""
    d = tempfile.mkdtemp(prefix="mspl_")
    try:
        keys = inp["keys"]
        def sp(ind, who):
            pad = " " * ind
            return pad + "splicer:\n" + "".join("%s  %s:\n%s  - %s USERLINE_%s_%s\n" % (
                pad, k, pad, "!" if k == "f" else "//", who, k) for k in keys)
        try:
            base = run(DECL_LIB % ("", ""), d)
            b0 = dict((n, blocks_of(os.path.join(base, n))) for n in sorted(os.listdir(base)) if n.endswith((".cpp", ".h", ".f")))
            out2 = run(DECL_LIB % (sp(2, "func"), sp(4, "meth")), d)
        except Exception:
            return None
        target = {"c": "", "c_buf": "_bufferify", "f": ""}
        for n in sorted(b0):
            b1 = blocks_of(os.path.join(out2, n))
            if sorted(b1) != sorted(b0[n]):
                return "the declaration-level splicers %s change the set of blocks of %s" % (keys, n)
            for tag in b0[n]:
                leaf = tag.split(".")[-1]
                lang = "f" if n.endswith(".f") else "c"
                mine = [k for k in keys if (k == "f") == (lang == "f") and leaf in ("pass_name" + target[k], "rename" + target[k])
                        and ("function." in tag or "method." in tag)]
                user = [l.strip() for body in b1[tag] for l in body if "USERLINE_" in l]
                if mine:
                    if not user:
                        return "the %s splicer of the declaration is not in block %s of %s" % (mine[0], tag, n)
                    k = mine[0]
                    if any(not u.endswith("_" + k) for u in user):
                        return "block %s of %s holds %r: not the text given for %r" % (tag, n, user, k)
                elif user:
                    return "block %s of %s was not supplied by the user (declaration-level keys %s) but holds %r instead of its default" % (
                        tag, n, keys, user)
                elif b1[tag] != b0[n][tag]:
                    return "block %s of %s was not supplied by the user but its default body changed" % (tag, n)
        return None
    finally:
        shutil.rmtree(d, ignore_errors=True)


LIBS = ["""library: demo
cxx_header: demo.hpp
options:
  wrap_python: false
  wrap_lua: false
declarations:
- decl: void top_func(int a)
- decl: namespace solo
  declarations:
  - decl: void solo_func(int a)
- decl: namespace outer
  declarations:
  - decl: void outer_func(int a)
  - decl: class Thing
    declarations:
    - decl: Thing()
    - decl: void poke()
  - decl: namespace inner
    declarations:
    - decl: void inner_func(int a)
    - decl: namespace core
      declarations:
      - decl: void core_func()
""", """library: plain
cxx_header: plain.hpp
options:
  wrap_python: false
  wrap_lua: false
declarations:
- decl: void set_name(const char *name)
- decl: int count()
- decl: int count(int a)
- decl: class Box
  declarations:
  - decl: Box()
  - decl: ~Box()
  - decl: int size()
  - decl: void grow(int n, int m = 1)
- decl: enum Color { RED, BLUE }
""", """library: cl
cxx_header: cl.h
language: c
options:
  wrap_python: false
  wrap_lua: false
declarations:
- decl: void f(const char *s)
- decl: int *g() +dimension(3)
- decl: struct Pt
  declarations:
  - decl: int x
  - decl: double y
"""]


def candidates(seed, around=None):
    for y in LIBS:
        for how in ("cmdline", "yaml-key"):
            yield {"yaml": y, "how": how}
    for keys in (["c"], ["f"], ["c", "f"], ["c", "c_buf"], ["c_buf"], ["c", "c_buf", "f"]):
        yield {"how": "decl", "keys": keys}
    for o in ("", "format:\n  C_prefix: d_\n"):
        yield {"how": "decl_c", "options": o}
    for y in LIBS:
        for how in ("code", "mixed", "collide", "twofiles", "twofiles-yaml"):
            yield {"yaml": y, "how": how}
    for via in ("code", "file"):
        yield {"how": "unwritten", "via": via, "tags": ["class.Holder.C_definitions", "namespace.detail.C_definitions"]}
        yield {"how": "unwritten", "via": via, "tags": ["class.Holder.CXX_definitions", "namespace.detail.CXX_definitions"]}
