"""C11 executable statement: every enumerator's C_value / F_value, read with C respectively Fortran semantics,
equals the value a C++ compiler assigns (independent evaluator below)."""
import itertools
import random
import re


def c_eval(expr, env):
    """C/C++ integer constant expression over + - * ( ), decimal and octal literals, earlier enumerators"""
    def lit(m):
        t = m.group(0)
        if t[0].isdigit():
            return str(int(t, 8)) if len(t) > 1 and t[0] == "0" else t
        return "(%d)" % env[t]
    return int(eval(re.sub(r'[A-Za-z_]\w*|\d+', lit, expr).replace("/", "//"), {"__builtins__": {}}, {}))


def f_eval(expr, env):
    """Fortran integer constant expression: literals are decimal whatever their leading zeros"""
    def lit(m):
        t = m.group(0)
        if t[0].isdigit():
            return str(int(t, 10))
        return "(%d)" % env[t.lower()]
    if re.search(r'[-+*/]\s*[-+]', expr):
        raise ValueError("two consecutive operators are not Fortran: %r" % expr)
    return int(eval(re.sub(r'[A-Za-z_]\w*|\d+', lit, expr).replace("/", "//"), {"__builtins__": {}}, {}))


def check(inp):
    from shroud import ast, typemap
    members = inp["members"]          # list of (name, expr or None)
    kw = "enum class" if inp.get("scoped") else "enum"
    decl = "%s Color { %s }" % (kw, ", ".join(n if e is None else "%s = %s" % (n, e) for n, e in members))
    typemap.initialize()
    lib = ast.LibraryNode()
    try:
        if inp.get("outer"):
            # an earlier unscoped enum in the same scope that shares enumerator names: they must not leak in
            lib.add_enum("enum Outer { %s }" % ", ".join("%s = %d" % (n, 100 + i) for i, (n, e) in enumerate(members)))
        node = lib.add_enum(decl)
    except RuntimeError:
        return None
    # expected C++ values
    want, env, prev = [], {}, -1
    for n, e in members:
        v = prev + 1 if e is None else c_eval(e, env)
        env[n] = v
        want.append(v)
        prev = v
    cenv, fenv = {}, {}
    for (n, e), w, m in zip(members, want, node.ast.members):
        fmt = node._fmtmembers[m.name] if hasattr(node, "_fmtmembers") else None
    # read back what the generator recorded
    fm = node._fmtmembers
    for (n, e), w in zip(members, want):
        f = fm[n]
        cname, fname = f.C_enum_member, f.F_enum_member
        try:
            fv = f.F_value if isinstance(f.F_value, int) else f_eval(str(f.F_value), fenv)
        except Exception as ex:
            return "Fortran value of %s is not a valid constant expression: %r (%s) in %s" % (n, f.F_value, ex, decl)
        if fv != w:
            return "Fortran parameter %s = %r evaluates to %d, C++ value is %d in %s" % (fname, f.F_value, fv, w, decl)
        fenv[fname.lower()] = fv
        if f.inlocal("C_value"):
            if e is None:
                return "C_value set for implicit member %s" % n
            cv = f.C_value if isinstance(f.C_value, int) else c_eval(str(f.C_value), cenv)
            if "--" in str(f.C_value) or "++" in str(f.C_value):
                return "C value text %r contains an increment/decrement token in %s" % (f.C_value, decl)
            if cv != w:
                return "C enumerator %s = %r evaluates to %d, C++ value is %d in %s" % (cname, f.C_value, cv, w, decl)
        elif e is not None:
            return "explicit member %s has no C_value" % n
        cenv[cname] = w
    return None


EXPRS = [None, "1", "010", "-2", "A + 1", "A+B", "(1+2)*3", "2*A", "1 - -1", "0", "007", "A - 1", "10", "64/(4*2)", "3*(64/5)",
         "B*2"]


def candidates(seed, around=None):
    names = ["A", "B", "C", "D"]
    for n in range(1, 4):
        for tup in itertools.product(EXPRS, repeat=n):
            ms = []
            ok = True
            for i, e in enumerate(tup):
                if e and re.search(r'[A-D]', e):
                    used = set(re.findall(r'[A-D]', e))
                    if not used <= set(names[:i]):
                        ok = False
                ms.append([names[i], e])
            if ok:
                yield {"members": ms}
                if n == 2:
                    yield {"members": ms, "scoped": True, "outer": True}
    rnd = random.Random(seed)
    while True:
        k = rnd.randint(1, 4)
        ms = []
        for i in range(k):
            e = rnd.choice(EXPRS)
            if e and re.search(r'[A-D]', e) and not set(re.findall(r'[A-D]', e)) <= set(names[:i]):
                e = None
            ms.append([names[i], e])
        yield {"members": ms}
