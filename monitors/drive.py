"""Run-time side of the contracts: executes the REAL function from the repository under /venv/bin/python with
the executable form of its contract as monitor.  Used for (a) replaying solver counterexamples, (b) bounded
search for a failing input around a refutation, (c) the bounded stand-ins / CPython cross-checks of the
thorough tier.  Never counted as proof.

usage: drive.py <monitor> replay '<json inputs>'      -> {"violation": str|null, "observed": ...}
       drive.py <monitor> search <max> <seed>          -> {"tried": n, "violation":..., "inputs":...}
"""
import importlib
import json
import os
import sys
import traceback

REPO = os.environ.get("VERIF_REPO", "/repo")
sys.path.insert(0, REPO)
sys.path.insert(0, os.path.dirname(os.path.abspath(__file__)))


def run_one(mod, inputs):
    try:
        return mod.check(inputs)
    except Exception:
        return "monitor raised: " + traceback.format_exc()[-1500:]


def main():
    name, mode = sys.argv[1], sys.argv[2]
    mod = importlib.import_module(name)
    if mode == "replay":
        inputs = json.loads(sys.argv[3])
        v = run_one(mod, inputs)
        print(json.dumps({"violation": v, "inputs": inputs}))
    elif mode == "search":
        mx, seed = int(sys.argv[3]), int(sys.argv[4])
        around = json.loads(sys.argv[5]) if len(sys.argv) > 5 else None
        n = 0
        distinct = set()
        for inputs in mod.candidates(seed, around):
            n += 1
            distinct.add(json.dumps(inputs, sort_keys=True))
            v = run_one(mod, inputs)
            must = (around or {}).get("must_contain") if isinstance(around, dict) else None
            if v and must and not any(m in v for m in must):
                v = None     # a different failure: keep looking for one that matches the refuted obligation
            if v:
                print(json.dumps({"tried": n, "violation": v, "inputs": inputs, "distinct": len(distinct)}))
                return
            if n >= mx:
                break
        print(json.dumps({"tried": n, "violation": None, "inputs": None, "distinct": len(distinct)}))


def _pworker(args):
    name, inputs = args
    mod = importlib.import_module(name)
    return run_one(mod, inputs)


def psearch():
    """drive.py <monitor> psearch <max> <seed> <nproc>: like search, candidates checked by a process pool (for monitors
    whose single check is expensive: generator + compiler runs); the first violation in candidate order is reported"""
    import multiprocessing
    name = sys.argv[1]
    mx, seed, nproc = int(sys.argv[3]), int(sys.argv[4]), int(sys.argv[5])
    around = json.loads(sys.argv[6]) if len(sys.argv) > 6 else None
    mod = importlib.import_module(name)
    cands = []
    for inputs in mod.candidates(seed, around):
        cands.append(inputs)
        if len(cands) >= mx:
            break
    with multiprocessing.Pool(nproc) as pool:
        res = pool.map(_pworker, [(name, c) for c in cands], chunksize=4)
    distinct = len(set(json.dumps(c, sort_keys=True) for c in cands))
    for i, v in enumerate(res):
        if v:
            print(json.dumps({"tried": len(cands), "violation": v, "inputs": cands[i], "distinct": distinct}))
            return
    print(json.dumps({"tried": len(cands), "violation": None, "inputs": None, "distinct": distinct}))


if __name__ == "__main__":
    if len(sys.argv) > 2 and sys.argv[2] == "psearch":
        psearch()
        sys.exit(0)
    main()
