"""Run-time side of the contracts: executes the REAL function from the repository under /venv/bin/python with
the executable form of its contract as monitor.  Used for (a) replaying solver counterexamples, (b) bounded
search for a failing input around a refutation, (c) the bounded stand-ins / CPython cross-checks of the
thorough tier.  Never counted as proof.

usage: drive.py <monitor> replay '<json inputs>'      -> {"violation": str|null, "observed": ...}
       drive.py <monitor> search <max> <seed>          -> {"tried": n, "violation":..., "inputs":...}
"""
import importlib
import json
import os
import sys
import traceback

REPO = os.environ.get("VERIF_REPO", "/repo")
sys.path.insert(0, REPO)
sys.path.insert(0, os.path.dirname(os.path.abspath(__file__)))


def run_one(mod, inputs):
    try:
        return mod.check(inputs)
    except Exception:
        return "monitor raised: " + traceback.format_exc()[-1500:]


def main():
    name, mode = sys.argv[1], sys.argv[2]
    mod = importlib.import_module(name)
    if mode == "replay":
        inputs = json.loads(sys.argv[3])
        v = run_one(mod, inputs)
        print(json.dumps({"violation": v, "inputs": inputs}))
    elif mode == "search":
        mx, seed = int(sys.argv[3]), int(sys.argv[4])
        around = json.loads(sys.argv[5]) if len(sys.argv) > 5 else None
        n = 0
        distinct = set()
        for inputs in mod.candidates(seed, around):
            n += 1
            distinct.add(json.dumps(inputs, sort_keys=True))
            v = run_one(mod, inputs)
            must = (around or {}).get("must_contain") if isinstance(around, dict) else None
            if v and must and not any(m in v for m in must):
                v = None     # a different failure: keep looking for one that matches the refuted obligation
            if v:
                print(json.dumps({"tried": n, "violation": v, "inputs": inputs, "distinct": len(distinct)}))
                return
            if n >= mx:
                break
        print(json.dumps({"tried": n, "violation": None, "inputs": None, "distinct": len(distinct)}))


if __name__ == "__main__":
    main()
