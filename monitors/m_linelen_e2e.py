"""C13 at the driver: the Fortran files respect F_line_length and the C/C++ files C_line_length, each on its own (the two
options are set to different values); only lines without any possible break point may be longer.  Bounded, never proof."""
import argparse
import contextlib
import io
import os
import shutil
import tempfile

YAML = """library: ll
cxx_header: ll.hpp
options:
  F_line_length: %d
  C_line_length: %d
  wrap_python: false
  wrap_lua: false
declarations:
- decl: int combine(int first_value, int second_value, double third_value, double fourth_value, int fifth_value, int sixth_value)
- decl: void fill(int *out +intent(out)+rank(1), int nout +implied(size(out)), double *work +intent(inout)+rank(1), int nwork +implied(size(work)))
- decl: class Accumulator
  declarations:
  - decl: Accumulator()
  - decl: double add_all(double first_value, double second_value, double third_value, double fourth_value, double fifth_value)
  - decl: void accumulate_value(int v)
  - decl: void accumulate_value(long v)
  - decl: void accumulate_value(float v)
  - decl: void accumulate_value(double v)
  - decl: void accumulate_value(const char *v)
  - decl: void accumulate_value(int v, int w)
  - decl: void accumulate_value(double v, double w)
  - decl: void accumulate_value(int v, double w)
- decl: void process_sample(int v)
- decl: void process_sample(long v)
- decl: void process_sample(float v)
- decl: void process_sample(double v)
- decl: void process_sample(int v, int w)
- decl: void process_sample(double v, double w)
"""


def check(inp):
    from shroud import main as M
    d = tempfile.mkdtemp(prefix="mll_")
    try:
        f = os.path.join(d, "ll.yaml")
        open(f, "w").write(YAML % (inp["F"], inp["C"]))
        a = argparse.Namespace()
        a.cmake = a.cfiles = a.ffiles = ""
        a.filename = [f]
        a.outdir = a.logdir = d
        a.outdir_c_fortran = a.outdir_lua = a.outdir_python = a.outdir_yaml = ""
        a.path = []
        a.write_helpers = a.write_statements = a.yaml_types = ""
        a.write_version = False
        a.option = []
        a.language = None
        try:
            with contextlib.redirect_stdout(io.StringIO()):
                M.main_with_args(a)
        except (RuntimeError, SystemExit):
            return None
        for n in sorted(os.listdir(d)):
            limit = inp["F"] if n.endswith((".f", ".f90")) else inp["C"] if n.endswith((".c", ".cpp", ".h")) else None
            if limit is None:
                continue
            for k, line in enumerate(open(os.path.join(d, n)).read().split("\n")):
                # the limit of write_continue's contract is on the text before the continuation marker
                if len(line[:-2] if line.endswith(" &") else line) <= limit:
                    continue
                # only the argument lists written by this monitor are known to carry break points after every comma
                if sum(1 for m_ in ("first_value", "second_value", "third_value", "fourth_value", "fifth_value", "sixth_value", "nwork",
                                    "nout") if m_ in line) < 2 and not ("," in line and (
                                        line.count("accumulate_value_") >= 2 or line.count("process_sample_") >= 2)):
                    continue
                body = line.strip()
                # a line that offers no place to break it (one long token, a comment, a preprocessor line) may be longer
                if body.startswith(("!", "//", "/*", "*", "#")) or ("," not in body and " " not in body.rstrip(" &")):
                    continue
                return "%s line %d has %d columns, the limit for this language is %d: %r" % (n, k + 1, len(line), limit, line[:100])
        return None
    finally:
        shutil.rmtree(d, ignore_errors=True)


def candidates(seed, around=None):
    for F, C in ((72, 150), (150, 72), (60, 200), (200, 60), (80, 80), (40, 120)):
        yield {"F": F, "C": C}
