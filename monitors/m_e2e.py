"""Bounded end-to-end stand-in (C05 / C06 / C10 / C04): upstream's own compiled regression (regression/run/<test>),
but with the wrappers GENERATED NOW by the tree under check instead of the stored reference files: generate, compile
the library, the wrappers and the Fortran test program (C/C++ parts with AddressSanitizer + UBSan, Fortran with
-fbounds-check), link, run.  A compiler error, a link error, a failed FRUIT assertion, a sanitizer report or a
non-zero exit is a violation.

inputs: {"test": "<name under regression/run>"}
"""
import contextlib
import io
import os
import re
import shutil
import subprocess
import sys
import tempfile

REPO = os.environ.get("VERIF_REPO", "/repo")
RUN = os.path.join(REPO, "regression", "run")
INPUTS = os.path.join(REPO, "regression", "input")

# test -> (yaml, extra command line)  [transcribed from regression/do-test.py; the Fortran tests of regression/run/Makefile]
TESTS = {
    "tutorial": ("tutorial", []), "types": ("types", []), "classes": ("classes", []),
    "enum-c": ("enum", ["--language", "c"]), "namespace": ("namespace", []),
    "pointers-c": ("pointers", ["--language", "c", "--option", "wrap_python=false"]),
    "pointers-cxx": ("pointers", ["--option", "wrap_python=false", "--option", "literalinclude2=true"]),
    "arrayclass": ("arrayclass", []),
    "struct-c": ("struct", ["--language", "c", "--option", "literalinclude2=true", "--option", "wrap_fortran=true",
                            "--option", "wrap_c=true", "--option", "wrap_python=false"]),
    "struct-cxx": ("struct", ["--language", "c++", "--option", "wrap_fortran=true", "--option", "wrap_c=true",
                              "--option", "wrap_python=false"]),
    "vectors": ("vectors", []), "cdesc": ("cdesc", []), "strings": ("strings", []),
    "ccomplex": ("ccomplex", []), "clibrary": ("clibrary", []), "cxxlibrary": ("cxxlibrary", []),
    "ownership": ("ownership", []), "generic": ("generic", []), "statement": ("statement", []), "templates": ("templates", []),
    # "preprocess" is left out: its test program calls a method on an object it never constructs (null this)
    "strings-cfi": ("strings", ["--option", "F_CFI=true"]), "generic-cfi": ("generic", ["--option", "F_CFI=true"]),
}
LAST = {}
SAN = ["-fsanitize=address,undefined", "-fno-omit-frame-pointer"]


def make_objects(test):
    """object list of the test program, from the test's Makefile (variables expanded)"""
    text = open(os.path.join(RUN, test, "Makefile")).read().replace("\\\n", " ")
    var = {}
    for m in re.finditer(r'^(\w+)\s*[+:]?=\s*(.*)$', text, re.M):
        var.setdefault(m.group(1), "")
        var[m.group(1)] += " " + m.group(2)
    m = re.search(r'^%s\s*:\s*(.*)$' % re.escape(test), text, re.M)
    if not m:
        return None
    deps = m.group(1)
    for _ in range(5):
        deps = re.sub(r'\$\((\w+)\)', lambda k: var.get(k.group(1), ""), deps)
    out = []
    for w in deps.split():
        if w.endswith(".o"):
            out.append(w[:-2])
        elif w.endswith((".f", ".f90", ".c", ".cpp")):
            out.append(os.path.splitext(w)[0])
    seen = []
    for o in out:
        if o not in seen:
            seen.append(o)
    return seen


def generate(yaml, args, out):
    from shroud import main as M
    argv = ["shroud", os.path.join(INPUTS, yaml + ".yaml"), "--outdir", out, "--logdir", out, "--path", INPUTS] + list(args)
    saved = sys.argv
    sys.argv = argv
    try:
        with contextlib.redirect_stdout(io.StringIO()), contextlib.redirect_stderr(io.StringIO()):
            M.main()
    except SystemExit as e:
        if e.code not in (0, None):
            raise RuntimeError("shroud exited with %r" % e.code)
    finally:
        sys.argv = saved


def sh(cmd, cwd, timeout=600, env=None):
    p = subprocess.run(cmd, cwd=cwd, stdout=subprocess.PIPE, stderr=subprocess.STDOUT, universal_newlines=True, timeout=timeout, env=env)
    return p.returncode, p.stdout


def check(inp):
    test = inp["test"]
    yaml, args = TESTS[test]
    objs = make_objects(test)
    if not objs:
        return None
    d = tempfile.mkdtemp(prefix="me2e_")
    try:
        gen = os.path.join(d, "gen")
        os.makedirs(gen)
        try:
            generate(yaml, args, gen)
        except Exception as e:
            return "generator failed on the upstream test input %s: %s" % (test, str(e)[:200])
        dirs = [gen, os.path.join(RUN, test), os.path.join(RUN, "fruit")]
        # upstream tests that share the sources of another directory (pointers-c -> pointers, ...)
        base = yaml
        if os.path.isdir(os.path.join(RUN, base)) and os.path.join(RUN, base) not in dirs:
            dirs.insert(2, os.path.join(RUN, base))
        inc = []
        for x in dirs:
            inc += ["-I", x]
        srcs = []
        for o in objs:
            found = None
            for x in dirs:
                for ext in (".c", ".cpp", ".f", ".f90"):
                    p = os.path.join(x, o + ext)
                    if os.path.exists(p):
                        found = p
                        break
                if found:
                    break
            if not found:
                LAST["missing"] = o
                return None        # a file the Makefile expects is not produced/available in this configuration: no verdict
            srcs.append(found)
        build = os.path.join(d, "build")
        os.makedirs(build)
        fort = [s for s in srcs if s.endswith((".f", ".f90"))]
        for s in srcs:
            if s.endswith(".c") and test.endswith("-cxx") and not s.startswith(gen):
                # upstream builds the C test library as C++ for the -cxx variants (cp pointers.c pointers.cpp)
                rc, out = sh(["g++", "-x", "c++", "-g", "-O0", "-std=c++11"] + SAN + inc + ["-c", s, "-o", os.path.join(build, os.path.basename(s) + ".o")], build)
            elif s.endswith(".c"):
                rc, out = sh(["gcc", "-g", "-O0", "-std=c99"] + SAN + inc + ["-c", s, "-o", os.path.join(build, os.path.basename(s) + ".o")], build)
            elif s.endswith(".cpp"):
                rc, out = sh(["g++", "-g", "-O0", "-std=c++11"] + SAN + inc + ["-c", s, "-o", os.path.join(build, os.path.basename(s) + ".o")], build)
            else:
                continue
            if rc != 0:
                err = [l for l in out.split("\n") if "error" in l][:3]
                where = "generated" if s.startswith(gen) else "upstream test"
                if where != "generated":
                    return None
                return "%s: the compiler rejects the generated file %s: %s" % (test, os.path.basename(s), " | ".join(err))
        pending = list(fort)
        last = {}
        for _round in range(len(fort) + 1):
            left = []
            for s in pending:
                rc, out = sh(["gfortran", "-g", "-cpp", "-ffree-form", "-fbounds-check", "-J", build] + inc +
                             ["-c", s, "-o", os.path.join(build, os.path.basename(s) + ".o")], build)
                if rc != 0:
                    left.append(s)
                    last[s] = out
            if not left or len(left) == len(pending):
                pending = left
                break
            pending = left
        if pending:
            s = pending[0]
            err = [l for l in last[s].split("\n") if "Error" in l][:3]
            if s.startswith(gen):
                return "%s: gfortran rejects the generated module %s: %s" % (test, os.path.basename(s), " | ".join(err))
            # the upstream test program does not compile against the generated module: the module's public interface
            # is not the documented one
            return "%s: the upstream Fortran test %s does not compile against the generated module: %s" % (
                test, os.path.basename(s), " | ".join(err))
        objsf = [os.path.join(build, os.path.basename(s) + ".o") for s in srcs]
        rc, out = sh(["gfortran", "-g"] + SAN + objsf + ["-o", "prog", "-lstdc++"], build)
        if rc != 0:
            err = [l for l in out.split("\n") if "undefined reference" in l or "multiple definition" in l or "error" in l][:3]
            return "%s: link error: %s" % (test, " | ".join(err) or out[-300:])
        env = dict(os.environ)
        # alloc_dealloc_mismatch off: upstream's ownership test library allocates with new[] while its YAML leaves the
        # matching C_free_pattern commented out (the default release is free()): a property of that input, not of shroud
        # leaks: most upstream test programs construct objects and never delete them (the caller's job), so leak
        # reports are only looked at on request, and then only stacks through the wrapper functions named in the input
        leaks = bool(inp.get("leak_frames"))
        env["ASAN_OPTIONS"] = "detect_leaks=%d:abort_on_error=0:alloc_dealloc_mismatch=0" % (1 if leaks else 0)
        env["UBSAN_OPTIONS"] = "print_stacktrace=0:halt_on_error=1"
        rc, out = sh(["./prog"], build, timeout=300, env=env)
        bad = [l for l in out.split("\n") if "ERROR: AddressSanitizer" in l or "runtime error:" in l or "Failed assert" in l
               or "Some tests failed" in l or "FAILED" in l]
        if leaks:
            hits = []
            for blk in out.split("\n\n"):
                if "leak of" in blk:
                    for fr in inp["leak_frames"]:
                        if re.search(r'\b%s\b' % re.escape(fr), blk):
                            hits.append(fr)
            if hits:
                return "%s: memory handed out by the library as caller-owned is never released: allocated under %s and still live at exit (LeakSanitizer)" % (
                    test, ", ".join(sorted(set(hits))))
            if "ERROR: AddressSanitizer" not in out and not [b for b in bad if "runtime error" in b or "Failed" in b or "FAILED" in b]:
                return None
        if rc != 0 or bad:
            return "%s: the test program built from the generated wrappers fails (exit %d): %s" % (
                test, rc, " | ".join(bad[:3]) or out[-300:])
        return None
    finally:
        shutil.rmtree(d, ignore_errors=True)


def candidates(seed, around=None):
    first = ["strings", "vectors", "ownership", "classes", "pointers-cxx", "pointers-c", "struct-c", "tutorial"]
    for t in first + sorted(x for x in TESTS if x not in first):
        yield {"test": t}
