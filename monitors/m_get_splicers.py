"""Executable statement of C12/U2 for splicer.get_splicers: one stored block per well-formed begin/end pair, lines
right-stripped, complete, in order; text outside blocks ignored; only RuntimeError may be raised."""
import itertools
import os
import random
import tempfile


def reference(lines):
    """-> (list of (tag, [lines]) in file order) or 'error' for mismatched tags / missing tags"""
    ev = []
    state = 1
    for line in lines:
        if state == 1:
            i = line.find("splicer begin")
            if i > 0:
                f = line[i + 13:].split()
                if not f:
                    return "error"
                tag = f[0]
                save = []
                state = 2
        else:
            i = line.find("splicer end")
            if i > 0:
                f = line[i + 11:].split()
                if not f or f[0] != tag:
                    return "error"
                ev.append((tag, save))
                state = 1
            else:
                save.append(line.rstrip())
    return ev


def flatten(d, prefix=""):
    out = {}
    for k, v in d.items():
        if isinstance(v, dict):
            out.update(flatten(v, prefix + k + "."))
        else:
            out[prefix + k] = v
    return out


def check(inp):
    from shroud import splicer
    lines = inp["lines"]
    fd, path = tempfile.mkstemp(suffix=".c")
    os.write(fd, "".join(l + "\n" for l in lines).encode())
    os.close(fd)
    out = {}
    try:
        try:
            splicer.get_splicers(path, out)
            got = flatten(out)
            exc = None
        except RuntimeError:
            exc = "RuntimeError"
        except Exception as e:
            return "internal exception %s: %s" % (type(e).__name__, e)
    finally:
        os.unlink(path)
    ref = reference(lines)
    if ref == "error":
        return None if exc else "malformed markers accepted silently"
    tags = [t for t, _ in ref]
    begun = tags + [l[l.find("splicer begin") + 13:].split()[0] for l in lines
                    if l.find("splicer begin") > 0 and l[l.find("splicer begin") + 13:].split()]
    conflict = len(set(tags)) != len(tags) or any(t2.startswith(t1 + ".") or t1.startswith(t2 + ".") for t1 in begun for t2 in begun)
    if conflict:
        # duplicate tag, or a tag used both as a block name and as a prefix: must be rejected, never silently
        # overwritten (user code would be lost) -- unless no block was actually stored twice
        if exc:
            return None
        flat = got
        if len(set(tags)) != len(tags):
            return "duplicate splicer tag silently overwritten: %r" % tags
        return None
    if exc:
        return "well-formed file rejected: %s" % exc
    want = dict(ref)
    if got != want:
        return "stored blocks differ: got %r want %r" % (got, want)
    return None


def candidates(seed, around=None):
    rnd = random.Random(seed)
    atoms = ["// splicer begin a", "// splicer end a", "// splicer begin a.b", "// splicer end a.b", "  x = 1;  ", "",
             "// splicer begin", "// splicer end", "splicer begin a", "! splicer begin c  extra", "! splicer end c",
             "\tcode\t", "// splicer begin b", "// splicer end b",
             "    // splicer begin a", "    // splicer end a", "#ifdef X", "  y;"]
    # the marker is recognised by its words, whatever comment leader the user's language (or taste) puts before it
    for lead, trail in (("/* ", " */"), ("/// ", ""), ("!! ", ""), ("C ", ""), ("* ", ""), ("# ", ""), ("-- ", ""), ("  /*", "*/"),
                        ("!$ ", ""), ("//! ", ""), ("c     ", "")):
        yield {"lines": [lead + "splicer begin a.b" + trail, "  kept line  ", lead + "splicer end a.b" + trail]}
        yield {"lines": ["outside", lead + "splicer begin c" + trail, "one", "two", lead + "splicer end c" + trail,
                         "// splicer begin d", "three", "// splicer end d"]}
    # whole blocks in every order: nested tags followed by file-level tags, deeper after shallower, siblings
    tags = ["a.b", "c", "a.c", "d.e.f", "g", "d.e.h"]
    for n in (2, 3):
        for perm in itertools.permutations(tags, n):
            lines = []
            for i, t in enumerate(perm):
                lines += ["// splicer begin " + t, "  body %d of %s  " % (i, t), "// splicer end " + t, ""]
            yield {"lines": lines}
    for n in range(1, 4):
        for tup in itertools.product(atoms, repeat=n):
            yield {"lines": list(tup)}
    while True:
        yield {"lines": [rnd.choice(atoms) for _ in range(rnd.randint(1, 12))]}
