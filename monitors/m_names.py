"""C08 bounded stand-in (never counted as proof): the real generate_functions on small overload sets x trailing
default arguments x fortran_generic x explicit/defaulted function_suffix; every callable signature gets exactly one C
name and one Fortran specific name, and no two coincide."""
import contextlib
import io
import itertools
import random


def carve_out(inp):
    """known finding C08-auto-vs-explicit-suffix: an explicit function_suffix equal to an automatic one ('_<i>' for an
    index i inside the overload group or its default-argument expansion)"""
    import re
    n = 0
    for decl, kw in inp["functions"]:
        n += 1 + decl.count("=")
    for decl, kw in inp["functions"]:
        x = (kw.get("format") or {}).get("function_suffix")
        if x and re.match(r'^_\d+$', x) and int(x[1:]) < n + 1:
            return True
    return False


def check(inp):
    if inp.get("kind") == "generic":
        return check_generic(inp)
    explicit = [(kw.get("format") or {}).get("function_suffix") for _, kw in inp["functions"]]
    explicit = [x for x in explicit if x]
    if len(set(explicit)) != len(explicit):
        return None      # the user gave the same suffix twice: outside the property's domain
    if inp.get("skip_known") and carve_out(inp):
        return None
    from shroud import ast, generate, typemap, declast
    typemap.initialize()
    lib = ast.LibraryNode()
    try:
        with contextlib.redirect_stdout(io.StringIO()):
            for decl, kw in inp["functions"]:
                lib.add_function(decl, **kw)
            generate.generate_functions(lib, None)
    except (RuntimeError, NotImplementedError, SystemExit):
        return None
    cnames, fnames = {}, {}
    for f in lib.wrap_namespace.functions:
        fmt = f.fmtdict
        if f.wrap.c:
            cnames.setdefault(fmt.C_name, []).append(f.declgen or f.decl)
        if f.wrap.fortran:
            fnames.setdefault(fmt.F_name_impl, []).append(f.declgen or f.decl)
    for table, what in ((cnames, "C entry point"), (fnames, "Fortran specific procedure")):
        for name, users in table.items():
            if len(users) > 1:
                return "%s %s is generated for %d signatures: %s  (input %r)" % (what, name, len(users), users[:3], inp["functions"])
    return None


SIGS = ["void f(int a)", "void f(double a)", "void f(int a, int b)", "void f(int a, double b = 1.0)", "void f(long a, int b = 1, int c = 2)",
        "void f()", "void g(int a)", "void f(const char *s)"]
SUFFIXES = [None, "_1", "_0", "_int", "_2"]


GEN_YAML = """library: gen
cxx_header: gen.hpp
declarations:
- decl: void scale(double *x +rank(1), int n +implied(size(x)))
  fortran_generic:
%s
- decl: void other(int a)
"""


def check_generic(inp):
    """every fortran_generic entry is reachable under the documented generic name, even when there is only one"""
    import argparse, contextlib, io, os, re, shutil, tempfile
    from shroud import main as M
    d = tempfile.mkdtemp(prefix="mgen_")
    try:
        f = os.path.join(d, "gen.yaml")
        ents = "\n".join("  - decl: (%s *x +rank(1))\n    function_suffix: %s" % (t, sfx) for t, sfx in inp["entries"])
        open(f, "w").write(GEN_YAML % ents)
        a = argparse.Namespace(cmake="", cfiles="", ffiles="", filename=[f], outdir=d, logdir=d, outdir_c_fortran="", outdir_lua="",
                               outdir_python="", outdir_yaml="", path=[], write_helpers="", write_statements="", yaml_types="",
                               write_version=False, option=[], language=None)
        try:
            with contextlib.redirect_stdout(io.StringIO()):
                M.main_with_args(a)
        except (RuntimeError, SystemExit):
            return None
        text = open(os.path.join(d, "wrapfgen.f")).read().lower()
        m = re.search(r'interface scale\b(.*?)end interface scale', text, re.S)
        if not m:
            return "no generic interface 'scale' in the Fortran module for fortran_generic %r" % (inp["entries"],)
        procs = re.findall(r'module procedure (\w+)', m.group(1))
        want = sorted("scale" + sfx for _, sfx in inp["entries"])
        if sorted(procs) != want:
            return "generic interface scale lists %r, expected exactly %r" % (sorted(procs), want)
        return None
    finally:
        shutil.rmtree(d, ignore_errors=True)


def candidates(seed, around=None):
    yield {"kind": "generic", "entries": [["float", "_float"]]}
    yield {"kind": "generic", "entries": [["float", "_float"], ["double", "_double"]]}
    # default_arg_suffix lists: complete, one short, absent
    for sfx in ([], ["_a"], ["_a", "_b"], ["_a", "_b", "_c"]):
        yield {"functions": [["void step(int num, int offset = 0, int stride = 1)", {"default_arg_suffix": sfx}]],
               "skip_known": bool(around and around.get("skip_known"))}
        yield {"functions": [["void step(int num, int offset = 0)", {"default_arg_suffix": sfx}], ["void step(double x)", {}]],
               "skip_known": bool(around and around.get("skip_known"))}
    for n in (2, 3):
        for sigs in itertools.combinations(SIGS, n):
            for sfx in itertools.product(SUFFIXES[:3], repeat=n):
                fns = []
                for s, x in zip(sigs, sfx):
                    kw = {"format": {"function_suffix": x}} if x is not None else {}
                    fns.append([s, kw])
                yield {"functions": fns, "skip_known": bool(around and around.get("skip_known"))}
    rnd = random.Random(seed)
    while True:
        n = rnd.randint(2, 4)
        fns = []
        for s in rnd.sample(SIGS, n):
            x = rnd.choice(SUFFIXES)
            fns.append([s, {"format": {"function_suffix": x}} if x else {}])
        yield {"functions": fns, "skip_known": bool(around and around.get("skip_known"))}
