/* Bounded run-time contract for the C string helpers (replay / bounded stand-in; never counted as proof).
   Compiled together with the helper texts extracted from the REAL whelpers.CHelpers (helpers_extracted.h),
   as C (c_source variants) or C++ (cxx_source variants), with AddressSanitizer + UBSan.
   Every buffer is an exact-size heap block, so any out-of-bounds access is reported by ASan.
   Prints "FAIL <helper> <description>" and exits 1 on the first contract violation; "OK <n>" otherwise. */
#include <stdio.h>
#include <stdlib.h>
#include <string.h>
#ifdef __cplusplus
#include <cstring>
#include <cstdlib>
#include <string>
#endif
#include "helpers_extracted.h"

static long ncases = 0;
static const char ALPHA[] = {'a', ' ', 'b'};
#define NA 3

static void fail(const char *h, const char *msg, int a, int b, int c)
{
    printf("FAIL %s %s (%d, %d, %d)\n", h, msg, a, b, c);
    exit(1);
}

static char *mk(int n, long code)
{   /* exact-size block of n chars decoded from code (base NA) */
    char *p = (char *) malloc(n > 0 ? n : 1);
    if (n == 0) { free(p); p = (char *) malloc(1); }
    for (int i = 0; i < n; i++) { p[i] = ALPHA[code % NA]; code /= NA; }
    return p;
}

static long ipow(int b, int e) { long r = 1; while (e-- > 0) r *= b; return r; }

static int ref_lentrim(const char *s, int n) { while (n > 0 && s[n - 1] == ' ') n--; return n; }

int main(void)
{
#ifdef HAVE_ShroudLenTrim
    for (int n = 0; n <= 6; n++)
        for (long code = 0; code < ipow(NA, n); code++) {
            char *s = (char *) malloc(n ? n : 1);
            long c = code; for (int i = 0; i < n; i++) { s[i] = ALPHA[c % NA]; c /= NA; }
            int r = ShroudLenTrim(s, n);
            if (r != ref_lentrim(s, n)) fail("ShroudLenTrim", "wrong trimmed length", n, r, (int) code);
            free(s); ncases++;
        }
#endif
#ifdef HAVE_ShroudStrCopy
    for (int nd = 0; nd <= 5; nd++)
        for (int ns = 0; ns <= 5; ns++)
            for (long code = 0; code < ipow(NA, ns); code++)
                for (int mode = 0; mode < 3; mode++) {   /* 0: explicit length, 1: NUL-terminated with nsrc=-1, 2: NULL source */
                    char *dest = (char *) malloc(nd ? nd : 1);
                    memset(dest, 'x', nd ? nd : 1);
                    char *src = (char *) malloc(ns + 1);
                    long c = code; for (int i = 0; i < ns; i++) { src[i] = ALPHA[c % NA]; c /= NA; }
                    src[ns] = '\0';
                    char *srcx = NULL;
                    if (mode == 0) { srcx = (char *) malloc(ns ? ns : 1); memcpy(srcx, src, ns); }
                    if (mode == 0) ShroudStrCopy(dest, nd, srcx, ns);
                    else if (mode == 1) ShroudStrCopy(dest, nd, src, -1);
                    else ShroudStrCopy(dest, nd, NULL, (code % 2) ? 0 : -1);
                    int n = mode == 2 ? 0 : ns;
                    int m = n < nd ? n : nd;
                    for (int k = 0; k < nd; k++) {
                        char want = k < m ? src[k] : ' ';
                        if (dest[k] != want) fail("ShroudStrCopy", "destination byte differs", nd, ns, mode);
                        if (dest[k] == '\0') fail("ShroudStrCopy", "NUL inside fixed-length result", nd, ns, mode);
                    }
                    free(dest); free(src); free(srcx); ncases++;
                    if (mode == 2 && code > 1) break;
                }
#endif
#ifdef HAVE_ShroudStrBlankFill
    for (int cap = 1; cap <= 6; cap++)
        for (int nm = 0; nm < cap; nm++)
            for (int nd = 0; nd <= cap; nd++) {
                char *d = (char *) malloc(cap);
                for (int i = 0; i < cap; i++) d[i] = 'z';
                for (int i = 0; i < nm; i++) d[i] = (i % 2) ? ' ' : 'a';
                d[nm] = '\0';
                ShroudStrBlankFill(d, nd);
                for (int k = 0; k < cap; k++) {
                    char want = k < nm ? ((k % 2) ? ' ' : 'a') : (k < nd ? ' ' : (k == nm ? '\0' : 'z'));
                    if (d[k] != want) fail("ShroudStrBlankFill", "byte differs", cap, nm, nd);
                }
                free(d); ncases++;
            }
#endif
#ifdef HAVE_ShroudStrAlloc
    for (int ns = 0; ns <= 5; ns++)
        for (long code = 0; code < ipow(NA, ns); code++)
            for (int nt = -1; nt <= ns; nt++) {
                char *s = (char *) malloc(ns ? ns : 1);
                long c = code; for (int i = 0; i < ns; i++) { s[i] = ALPHA[c % NA]; c /= NA; }
                char *r = ShroudStrAlloc(s, ns, nt);
                int t = nt == -1 ? ref_lentrim(s, ns) : nt;
                if ((int) strlen(r) != t) fail("ShroudStrAlloc", "result is not NUL-terminated at the trimmed length", ns, nt, t);
                if (memcmp(r, s, t) != 0) fail("ShroudStrAlloc", "copy differs", ns, nt, t);
                ShroudStrFree(r);
                free(s); ncases++;
            }
    ShroudStrFree(NULL);
#endif
#ifdef HAVE_ShroudStrArrayAlloc
    for (int n = 0; n <= 3; n++)
        for (int len = 0; len <= 3; len++)
            for (long code = 0; code < ipow(NA, n * len); code++) {
                char *s = (char *) malloc(n * len ? n * len : 1);
                long c = code; for (int i = 0; i < n * len; i++) { s[i] = ALPHA[c % NA]; c /= NA; }
                char **rv = ShroudStrArrayAlloc(s, n, len);
                for (int i = 0; i < n; i++) {
                    int t = ref_lentrim(s + i * len, len);
                    if ((int) strlen(rv[i]) != t || memcmp(rv[i], s + i * len, t) != 0)
                        fail("ShroudStrArrayAlloc", "element is not the trimmed, NUL-terminated copy", n, len, i);
                }
                ShroudStrArrayFree(rv, n);
                free(s); ncases++;
            }
#endif
#ifdef HAVE_copy_string
    /* payload lengths 0..4 (NULL address for the empty one, as ShroudStrToArray builds it), destination lengths 0..4,
       exact-fit heap buffers on both sides: the capsule is released exactly once on every path */
    for (int el = 0; el <= 4; el++)
        for (int cl = 0; cl <= 4; cl++) {
            LIB_SHROUD_array data; memset(&data, 0, sizeof data);
            char *src = el ? (char *) malloc(el) : NULL;
            for (int i = 0; i < el; i++) src[i] = (char) ('a' + i);
            char *dst = (char *) malloc(cl ? cl : 1);
            memset(dst, '#', cl ? cl : 1);
            data.addr.ccharp = src; data.elem_len = el; data.size = 1;
            n_released = 0; last_released = NULL;
            LIB_ShroudCopyStringAndFree(&data, dst, cl);
            if (n_released != 1) fail("copy_string", "capsule released this many times (must be exactly once)", el, cl, n_released);
            if (last_released != (void *) &data.cxx) fail("copy_string", "released something other than the capsule of the descriptor", el, cl, 0);
            int m = el < cl ? el : cl;
            if (m && memcmp(dst, src, m) != 0) fail("copy_string", "copied bytes differ", el, cl, m);
            for (int i = m; i < cl; i++) if (dst[i] != '#' && dst[i] != 0) fail("copy_string", "byte beyond the copy changed", el, cl, i);
            free(dst); free(src); ncases++;
        }
#endif
#ifdef HAVE_copy_array
    for (int sz = 0; sz <= 3; sz++)
        for (int cs = 0; cs <= 3; cs++)
            for (int el = 1; el <= 8; el *= 2) {
                LIB_SHROUD_array data; memset(&data, 0, sizeof data);
                char *src = sz ? (char *) malloc(sz * el) : NULL;      /* empty std::vector: NULL base, size 0 */
                for (int i = 0; i < sz * el; i++) src[i] = (char) (i + 1);
                char *dst = (char *) malloc(cs * el ? cs * el : 1);
                memset(dst, '#', cs * el ? cs * el : 1);
                data.addr.base = src; data.elem_len = el; data.size = sz;
                n_released = 0; last_released = NULL;
                LIB_ShroudCopyArray(&data, dst, cs);
                if (n_released != 1) fail("copy_array", "capsule released this many times (must be exactly once)", sz, cs, n_released);
                int m = (sz < cs ? sz : cs) * el;
                if (m && memcmp(dst, src, m) != 0) fail("copy_array", "copied bytes differ", sz, cs, el);
                for (int i = m; i < cs * el; i++) if (dst[i] != '#') fail("copy_array", "byte beyond the copy changed", sz, cs, i);
                free(dst); free(src); ncases++;
            }
#endif
    printf("OK %ld\n", ncases);
    return 0;
}
