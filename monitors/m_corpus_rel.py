"""Two-run relations of several properties on the UPSTREAM regression inputs (regression/input/*.yaml): the inputs are far
richer than the small libraries of the other monitors (templates, namespaces, structs as classes, ownership, cdesc,
generic functions, MPI, preprocess guards ...).  One candidate = (relation, input file).  Bounded, never proof.

 docopt    C16  --option debug=true / doxygen=false / show_splicer_comments=false changes comments only (token streams of the
                C, C++ and Fortran files after comment removal, same file set)
 pylua     C15  --option wrap_python=<flipped> / wrap_lua=<flipped> leaves every C and Fortran file byte-identical
 feedback  C12  the generated C and Fortran files, fed back as splicer files, reproduce every C and Fortran file
 names     C08  no C wrapper function defined twice, no Fortran procedure declared twice in a module
 option    C14  an option given as --option equals the same option written into the YAML file's top-level options
"""
import contextlib
import io
import os
import re
import shutil
import sys
import tempfile

import yaml

REPO = os.environ.get("VERIF_REPO", "/repo")
INPUTS = os.path.join(REPO, "regression", "input")
# inputs that are not self-contained library descriptions or are error tests
SKIP = {"wrap.yaml", "none.yaml"}


def generate(path, args, out):
    from shroud import main as M
    saved = sys.argv
    opts, files, k = [], [], 0
    while k < len(args):
        if args[k].startswith("--"):
            opts += args[k:k + 2]
            k += 2
        else:
            files.append(args[k])
            k += 1
    sys.argv = ["shroud", "--outdir", out, "--logdir", out, "--path", INPUTS] + opts + [path] + files
    try:
        with contextlib.redirect_stdout(io.StringIO()), contextlib.redirect_stderr(io.StringIO()):
            M.main()
    except SystemExit as e:
        if e.code not in (0, None):
            raise RuntimeError("exit %r" % (e.code,))
    finally:
        sys.argv = saved


def files_of(out, exts):
    return dict((n, open(os.path.join(out, n)).read().replace(out, "<OUT>")) for n in sorted(os.listdir(out)) if n.endswith(exts))


CF = (".c", ".cpp", ".h", ".hpp", ".f", ".f90")


def is_py_lua(n):
    return n.startswith(("py", "lua")) or n == "setup.py"


def strip_comments(name, text):
    if name.endswith((".f", ".f90")):
        out = []
        for line in text.split("\n"):
            line = re.sub(r'!.*$', '', line).rstrip()
            if line.strip():
                out.append(" ".join(line.split()))
        return out
    text = re.sub(r'/\*.*?\*/', ' ', text, flags=re.S)
    out = []
    for line in text.split("\n"):
        line = re.sub(r'//.*$', '', line).rstrip()
        if line.strip():
            out.append(" ".join(line.split()))
    return out


def library_options(path):
    try:
        d = yaml.safe_load(open(path))
        return (d or {}).get("options") or {}
    except Exception:
        return {}


def check(inp):
    rel, name = inp["rel"], inp["yaml"]
    path = os.path.join(INPUTS, name)
    base = tempfile.mkdtemp(prefix="mcr_")
    try:
        a, b = os.path.join(base, "a"), os.path.join(base, "b")
        os.makedirs(a)
        os.makedirs(b)
        try:
            generate(path, [], a)
        except Exception:
            return None             # the input itself is not accepted with default arguments: no verdict
        if rel == "docopt":
            opt, val = inp["opt"], inp["val"]
            try:
                generate(path, ["--option", "%s=%s" % (opt, val)], b)
            except Exception as e:
                return "%s is accepted, with --option %s=%s it fails: %s" % (name, opt, val, str(e)[:100])
            fa, fb = files_of(a, CF), files_of(b, CF)
            if sorted(fa) != sorted(fb):
                return "%s: --option %s=%s changes the set of files: %s" % (name, opt, val, sorted(set(fa) ^ set(fb)))
            for n in sorted(fa):
                if n.startswith("py") and opt == "doxygen":
                    continue        # Python docstrings are strings, produced from the doxygen section by design
                ta, tb = strip_comments(n, fa[n]), strip_comments(n, fb[n])
                if ta != tb:
                    k = next((i for i in range(min(len(ta), len(tb))) if ta[i] != tb[i]), min(len(ta), len(tb)))
                    return "%s: --option %s=%s changes code in %s: %r / %r" % (name, opt, val, n, (ta + [""])[k][:80], (tb + [""])[k][:80])
            return None
        if rel == "pylua":
            opts = library_options(path)
            args = []
            for lang in ("python", "lua"):
                args += ["--option", "wrap_%s=%s" % (lang, "false" if opts.get("wrap_" + lang) else "true")]
            try:
                generate(path, args, b)
            except Exception:
                return None         # the other emitter does not support this input: its own matter (C03 / C18)
            fa = dict((n, t) for n, t in files_of(a, CF).items() if not is_py_lua(n))
            fb = dict((n, t) for n, t in files_of(b, CF).items() if not is_py_lua(n))
            for n in sorted(set(fa) | set(fb)):
                if fa.get(n) != fb.get(n):
                    return "%s: flipping wrap_python / wrap_lua changes the C/Fortran file %s" % (name, n)
            return None
        if rel == "feedback":
            norm = lambda t: [l.strip() for l in t.split("\n")]     # identical up to leading indentation and trailing blanks
            fa = dict((n, t) for n, t in files_of(a, CF).items() if not is_py_lua(n))
            targets = [n for n in sorted(fa) if n.endswith((".c", ".cpp", ".f")) and "splicer begin" in fa[n]]
            for n in targets[:inp.get("max_files", 3)]:
                shutil.rmtree(b, ignore_errors=True)
                os.makedirs(b)
                try:
                    generate(path, [os.path.join(a, n)], b)
                except Exception as e:
                    if "Tag already exists" in str(e):
                        continue      # the input lists splicer files of its own: two sources for one block is another relation
                    return "%s: the generator rejects its own output file %s as a splicer file: %s" % (name, n, str(e)[:150])
                fb = files_of(b, CF)
                if norm(fa[n]) != norm(fb.get(n) or ""):
                    la, lb = norm(fa[n]), norm(fb.get(n) or "")
                    k = next((i_ for i_ in range(min(len(la), len(lb))) if la[i_] != lb[i_]), min(len(la), len(lb)))
                    return "%s: feeding %s back as a splicer file changes it at line %d: %r / %r" % (
                        name, n, k + 1, (la + [""])[k][:80], (lb + [""])[k][:80])
            return None
        if rel == "history":
            # B generated after A in the same process equals B generated by a fresh interpreter
            import subprocess
            first = os.path.join(INPUTS, inp["first"])
            try:
                generate(first, [], b)
            except Exception:
                return None
            c = os.path.join(base, "c")
            os.makedirs(c)
            try:
                generate(path, [], c)
            except Exception as e:
                return "%s is accepted on its own but fails after %s in the same process: %s" % (name, inp["first"], str(e)[:120])
            code = ("import sys; sys.path.insert(0, %r); sys.path.insert(0, %r); import m_corpus_rel as M; M.generate(%r, [], %r)"
                    % (REPO, os.path.dirname(os.path.abspath(__file__)), path, a))
            shutil.rmtree(a)
            os.makedirs(a)
            p_ = subprocess.run([sys.executable, "-c", code], capture_output=True, text=True, timeout=300)
            if p_.returncode != 0:
                return None
            fa, fc = files_of(a, CF + (".py",)), files_of(c, CF + (".py",))
            for n in sorted(set(fa) | set(fc)):
                if fa.get(n, "").replace(a, "<D>") != fc.get(n, "").replace(c, "<D>"):
                    return "%s generated after %s in one process differs from a fresh run in %s" % (name, inp["first"], n)
            return None
        if rel == "linelen":
            # C13: other line-length limits move line breaks only: the text with all whitespace and Fortran continuation
            # markers removed is the same, and no breakable line exceeds the limit by more than the marker
            try:
                generate(path, ["--option", "F_line_length=%d" % inp["F"], "--option", "C_line_length=%d" % inp["C"]], b)
            except Exception as e:
                return "%s fails with F_line_length=%d C_line_length=%d: %s" % (name, inp["F"], inp["C"], str(e)[:100])

            def squash(n, t):
                if n.endswith((".f", ".f90")):
                    t = re.sub(r'&\s*\n\s*&?', '', t)
                return re.sub(r'\s+', '', t)
            fa, fb = files_of(a, CF), files_of(b, CF)
            if sorted(fa) != sorted(fb):
                return "%s: line length options change the set of files" % name
            for n in sorted(fa):
                if squash(n, fa[n]) != squash(n, fb[n]):
                    x, y = squash(n, fa[n]), squash(n, fb[n])
                    k = next((i for i in range(min(len(x), len(y))) if x[i] != y[i]), min(len(x), len(y)))
                    return "%s: with F_line_length=%d C_line_length=%d the text of %s changes (not only its line breaks): ...%r / ...%r" % (
                        name, inp["F"], inp["C"], n, x[max(0, k - 30):k + 30], y[max(0, k - 30):k + 30])
            return None
        if rel == "block":
            # C14: an empty block around all top-level declarations is transparent
            try:
                d = yaml.safe_load(open(path))
                if not isinstance(d, dict) or not isinstance(d.get("declarations"), list) or not d["declarations"]:
                    return None
                d["declarations"] = [{"block": True, "declarations": d["declarations"]}]
                p2 = os.path.join(base, name)
                open(p2, "w").write(yaml.safe_dump(d, sort_keys=False, default_flow_style=False))
                p1 = os.path.join(base, "plain_" + name)
                d1 = yaml.safe_load(open(path))
                os.makedirs(os.path.join(base, "p1"))
                open(os.path.join(base, "p1", name), "w").write(yaml.safe_dump(d1, sort_keys=False, default_flow_style=False))
            except Exception:
                return None
            c = os.path.join(base, "c")
            os.makedirs(c)
            try:
                generate(os.path.join(base, "p1", name), [], c)      # the same description re-dumped, without the block
            except Exception:
                return None
            try:
                generate(p2, [], b)
            except Exception as e:
                return "%s is accepted, wrapped in an empty block it fails: %s" % (name, str(e)[:120])
            fb, fc = files_of(b, CF), files_of(c, CF)
            for n in sorted(set(fb) | set(fc)):
                if fb.get(n) != fc.get(n):
                    la, lb = (fc.get(n) or "").split("\n"), (fb.get(n) or "").split("\n")
                    k = next((i for i in range(min(len(la), len(lb))) if la[i] != lb[i]), min(len(la), len(lb)))
                    return "%s: an empty block around the top-level declarations changes %s at line %d: %r / %r" % (
                        name, n, k + 1, (la + [""])[k][:70], (lb + [""])[k][:70])
            return None
        if rel == "lists":
            # C15: with separate output directories every file lands in the directory of its kind and --cfiles / --ffiles
            # name exactly the C/C++ and Fortran files written
            dcf, dpy, dlua = os.path.join(b, "cf"), os.path.join(b, "py"), os.path.join(b, "lua")
            for d_ in (dcf, dpy, dlua):
                os.makedirs(d_)
            cl, fl = os.path.join(base, "c.lst"), os.path.join(base, "f.lst")
            try:
                generate(path, ["--outdir-c-fortran", dcf, "--outdir-python", dpy, "--outdir-lua", dlua, "--cfiles", cl, "--ffiles", fl], b)
            except Exception:
                return None
            listed_c = sorted(open(cl).read().split()) if os.path.exists(cl) else []
            listed_f = sorted(open(fl).read().split()) if os.path.exists(fl) else []
            written_c = sorted(os.path.join(dcf, n) for n in os.listdir(dcf) if n.endswith((".c", ".cc", ".cpp", ".cxx", ".h", ".hh", ".hpp", ".hxx")))
            written_f = sorted(os.path.join(dcf, n) for n in os.listdir(dcf) if n.endswith((".f", ".f90", ".F", ".F90")))
            if listed_c != written_c:
                return "%s: --cfiles lists %s, C/C++ files written: %s" % (name, [os.path.basename(x) for x in listed_c], [os.path.basename(x) for x in written_c])
            if listed_f != written_f:
                return "%s: --ffiles lists %s, Fortran files written: %s" % (name, [os.path.basename(x) for x in listed_f], [os.path.basename(x) for x in written_f])
            for n in os.listdir(b):
                if n.endswith(CF) and os.path.isfile(os.path.join(b, n)) and n != "setup.py":
                    return "%s: %s is written to the top-level output directory although every kind has its own" % (name, n)
            for n in os.listdir(dcf):
                if is_py_lua(n):
                    return "%s: the Python/Lua file %s is written into the C/Fortran directory" % (name, n)
            for d_, pre in ((dpy, "py"), (dlua, "lua")):
                for n in os.listdir(d_):
                    if n.endswith(CF) and not n.startswith(pre) and n != "setup.py":
                        return "%s: %s is written into the %s directory" % (name, n, pre)
            return None
        if rel == "names":
            import collections
            for n, text in files_of(a, (".c", ".cpp")).items():
                if is_py_lua(n):
                    continue
                defs = collections.Counter(m.group(1) for m in re.finditer(
                    r'^[A-Za-z_][\w\s\*:<>,]*?[\s\*]([A-Za-z_]\w*)\s*\([^;{)]*\)\s*\n\{', text, re.M))
                dup = sorted(k for k, v in defs.items() if v > 1)
                if dup:
                    return "%s: %s defines %s %d times" % (name, n, dup[0], defs[dup[0]])
            for n, text in files_of(a, (".f", ".f90")).items():
                ents = collections.Counter(m.group(1) for m in re.finditer(
                    r'^\s*(?:pure\s+|elemental\s+)*(?:subroutine|function)\s+(\w+)', text.lower(), re.M))
                dup = sorted(k for k, v in ents.items() if v > 1)
                if dup:
                    return "%s: %s declares the procedure %s %d times" % (name, n, dup[0], ents[dup[0]])
            return None
        if rel == "option":
            opt, val = inp["opt"], inp["val"]
            try:
                d = yaml.safe_load(open(path))
                if not isinstance(d, dict):
                    return None
                d.setdefault("options", {})
                if not isinstance(d["options"], dict):
                    return None
                d["options"][opt] = yaml.safe_load(val)
                p2 = os.path.join(base, name)
                open(p2, "w").write(yaml.safe_dump(d, sort_keys=False, default_flow_style=False))
            except Exception:
                return None
            c = os.path.join(base, "c")
            os.makedirs(c)
            try:
                generate(path, ["--option", "%s=%s" % (opt, val)], b)
                generate(p2, [], c)
            except Exception:
                return None
            fb, fc = files_of(b, CF), files_of(c, CF)
            for n in sorted(set(fb) | set(fc)):
                if fb.get(n) != fc.get(n):
                    return "%s: --option %s=%s differs from the same option in the file: %s" % (name, opt, val, n)
            return None
        return None
    finally:
        shutil.rmtree(base, ignore_errors=True)


def inputs():
    return [n for n in sorted(os.listdir(INPUTS)) if n.endswith(".yaml") and n not in SKIP]


def candidates(seed, around=None):
    only = (around or {}).get("rel")
    names = inputs()
    fam = []
    for n in names:
        fam.append({"rel": "docopt", "yaml": n, "opt": "debug", "val": "true"})
        fam.append({"rel": "docopt", "yaml": n, "opt": "show_splicer_comments", "val": "false"})
        fam.append({"rel": "docopt", "yaml": n, "opt": "doxygen", "val": "false"})
        fam.append({"rel": "pylua", "yaml": n})
        fam.append({"rel": "feedback", "yaml": n})
        fam.append({"rel": "names", "yaml": n})
        fam.append({"rel": "option", "yaml": n, "opt": "F_force_wrapper", "val": "true"})
        fam.append({"rel": "option", "yaml": n, "opt": "C_line_length", "val": "60"})
    for n in names:
        fam.append({"rel": "linelen", "yaml": n, "F": 60, "C": 60})
        fam.append({"rel": "linelen", "yaml": n, "F": 100, "C": 50})
    for n in names:
        fam.append({"rel": "block", "yaml": n})
        fam.append({"rel": "lists", "yaml": n})
    for first in ("classes.yaml", "struct.yaml", "templates.yaml", "strings.yaml"):
        for n in names:
            if n != first:
                fam.append({"rel": "history", "yaml": n, "first": first})
    for c in fam:
        if only is None or c["rel"] in only:
            yield c
