"""Run units: generate obligations from /repo's current source, discharge them, summarise."""
import os
import time
import traceback
from .unit import Executor
from .state import OutOfSubset, ContractError
from .solve import build_query, solve_all
from . import solve as _solve
import z3


class UnitResult(object):
    def __init__(self, unit):
        self.unit = unit
        self.status = "ok"          # ok | refuted | undecided | error
        self.obligations = 0
        self.discharged = 0
        self.trivial = 0
        self.refuted = []           # (name, model, note, solver)
        self.unknown = []
        self.by_solver = {}
        self.solver_time = 0.0
        self.samples = []
        self.msg = ""
        self.src_sha = ""
        self.paths = {}
        self.assumptions = []
        self.queries = {}


def run_units(units, repo=None, nproc=None, keep_queries=False):
    """-> list of UnitResult. All units' queries are solved in one pool."""
    results = []
    allq = []
    meta = {}
    # every unit another unit relies on through its contract must have its frame checked
    used = set()
    for u in units:
        for cu in getattr(u, "callee_units", {}).values():
            used.add(id(cu))
    for u in units:
        if id(u) in used or u.modifies:
            u.check_frame = True
    for u in units:
        r = UnitResult(u)
        results.append(r)
        try:
            ex = Executor(u, repo)
            obs = ex.generate()
            r.src_sha = ex.src_sha
            r.trivial = ex.trivial
            r.paths = dict(ex.exits)
            r.assumptions = sorted(ex.assumptions)
            names = set()
            for ob in obs:
                nm = ob.name
                k = 1
                while nm in names:
                    k += 1
                    nm = "%s~%d" % (ob.name, k)
                names.add(nm)
                ob.name = nm
                allq.append(ob)
                meta[nm] = (r, ob)
            r.obligations = len(obs)
            # vacuity guards
            r.vac = []
            for vn, hyps in ex.vacuity:
                r.vac.append((vn, _solve.quick_check(hyps, 3000)))
            if r.obligations == 0 and r.trivial == 0:
                r.status = "error"
                r.msg = "zero obligations generated (vacuity guard)"
            if any(v == "unsat" for n, v in r.vac if n == "cover-requires"):
                r.status = "error"
                r.msg = "precondition unsatisfiable (vacuity guard)"
            if r.vac and all(v == "unsat" for n, v in r.vac if n != "cover-requires") and len(r.vac) > 1:
                r.status = "error"
                r.msg = "no exit reachable (vacuity guard)"
        except (OutOfSubset, ContractError) as e:
            r.status = "undecided"
            node = getattr(e, "node", None)
            r.msg = "%s: %s%s" % (type(e).__name__, e, " (line %s)" % node.lineno if node is not None and hasattr(node, "lineno") else "")
        except Exception:
            r.status = "error"
            r.msg = traceback.format_exc()
    t0 = time.time()
    solved = _solve.solve_obligations(allq, nproc or _solve.NPROC)
    for ob, (res, solver, secs, model, text) in zip(allq, solved):
        nm = ob.name
        r, ob = meta[nm]
        r.solver_time += secs
        if res == "unsat":
            r.discharged += 1
            r.by_solver[solver] = r.by_solver.get(solver, 0) + 1
            if len(r.samples) < 2:
                r.samples.append({"obligation": nm, "solver": solver, "secs": round(secs, 3), "smt2_head": text[:600]})
        elif res == "sat":
            r.refuted.append((nm, model, ob.note, solver, text))
        else:
            r.unknown.append((nm, model))
        if keep_queries:
            r.queries[nm] = (text, res, solver)
    for r in results:
        if r.status != "ok":
            continue
        if r.refuted:
            r.status = "refuted"
        elif r.unknown:
            r.status = "undecided"
            r.msg = "%d obligations unknown: %s" % (len(r.unknown), ", ".join(n for n, _ in r.unknown[:5]))
    return results


def print_results(results, verbose=True):
    for r in results:
        print("[%s] %s/%s  obligations=%d discharged=%d trivial=%d exits=%s solver=%s time=%.1fs sha=%s %s" % (
            r.status.upper(), r.unit.prop, r.unit.name, r.obligations, r.discharged, r.trivial, r.paths,
            r.by_solver, r.solver_time, r.src_sha, ("\n    " + r.msg) if r.msg else ""))
        if verbose:
            for nm, model, note, solver, text in r.refuted:
                print("   REFUTED %s (%s) %s" % (nm, solver, note))
                for line in model.split("\n")[:40]:
                    print("      " + line)
            for nm, m in r.unknown[:10]:
                print("   UNKNOWN %s %s" % (nm, m[:200]))
