"""Units under contract: extraction of the real function text from /repo, contract binding,
obligation generation."""
import ast
import hashlib
import os
import textwrap
import z3
from .values import *  # noqa
from .state import *   # noqa
from .evalexpr import EvalMixin, VQconj
from .methods import MethodsMixin
from .execstmt import ExecMixin, NORMAL, RET, RAISE, BREAK, CONT

REPO = os.environ.get("VERIF_REPO", "/repo")


def parse_code(text):
    return ast.parse(textwrap.dedent(text)).body


def parse_expr(text):
    return ast.parse(text.strip(), mode="eval").body


class Unit(object):
    """Sidecar contract for one function (or slice) of the repository.

    target   "shroud/util.py::WrapperMixin.write_continue"
    params   name -> type spec: "int" | "str" | "bool" | "py" | "list[str]" | "file" |
             ("obj", cls, {field: spec}) | ("opt", spec) | ("const", value)
    requires / ensures : list of expression texts (Python syntax + spec forms)
    raises   set of exception class names the function may raise (explicitly or implicitly)
    loops    ordinal -> {index, inv: [...], head: code, end: code, decreases: expr}
    ghost    list of (where, pattern, code) with where in before/after; pattern = unparsed statement text
    init     ghost code run at entry (after requires are assumed)
    """

    def __init__(self, prop, name, target, params, requires=(), ensures=(), raises=(), loops=None, ghost=(),
                 init="", folds=None, list_kinds=None, exits=None, slice=None, defaults=None, note="",
                 ensures_raise=(), uses_join=False, callees=None, prebind=None, defs=None,
                 modifies=(), result=None, callee_units=None):
        self.modifies = list(modifies)       # expressions over the parameters naming heap cells the unit may change
        self.result = result                 # value spec of the result (for call-by-contract)
        self.callee_units = callee_units or {}   # (class, method) -> Unit : call sites use that unit's contract
        self.defaults = {}
        self.properties = {}                     # (class, attribute) -> fn(executor, ref, state) -> value  (Python properties)
        self.special_factories = []              # [executor -> {name: special form}] (lemma instantiation forms)
        self.exit_ghost = ""                     # ghost code run at every normal exit (with `result`) before the ensures
        self.var_kinds = {}                      # program variables whose dynamic type changes (int <-> str): kept as PyVal
        self.append_hooks = {}                   # list variable name -> ghost code run per appended element (`appended_`)
        self.merge_ifs = False                   # join the two arms of an `if` into one state (ite) when both fall through
        self.spec_funcs = {}                     # name -> z3 function usable in contract expressions
        self.ghost_params = []                   # params that are ghost state: bound from the caller's like-named ghost
        self.global_callees = {}                 # bare-name callees (module functions): name -> VFun
        self.builtin_overrides = {}              # built-in name -> VFun (e.g. getattr/setattr/hasattr on a modelled class)
        self.defs = defs or {}
        self.prebind = prebind or {}
        self.uses_join = uses_join
        self.callees = callees or {}
        self.prop, self.name, self.target = prop, name, target
        self.params = params
        self.requires = list(requires)
        self.ensures = list(ensures)
        self.ensures_raise = list(ensures_raise)
        self.raises = set(raises)
        self.loops = loops or {}
        self.ghost = list(ghost)
        self.init = init
        self.folds = folds or {}
        self.list_kinds = list_kinds or {}
        self.slice = slice
        self.note = note


def find_function(tree, qual):
    cur = tree.body
    node = None
    for part in qual.split("."):
        node = None
        for n in cur:
            if isinstance(n, (ast.FunctionDef, ast.ClassDef)) and n.name == part:
                node = n
                break
        if node is None:
            raise ContractError("function %s not found" % qual)
        cur = node.body
    return node


def norm(stmt_or_text):
    if isinstance(stmt_or_text, str):
        return ast.unparse(ast.parse(textwrap.dedent(stmt_or_text)).body[0])
    return ast.unparse(stmt_or_text)


class Fold(object):
    """Recursive spec function over strings given by nil/snoc equations; only instantiated explicitly."""

    def __init__(self, name, res, nil, snoc):
        self.name, self.res, self.nil, self.snoc = name, res, nil, snoc
        self.f = z3.Function("fold_" + name, StrS, SORTS[res])


class Executor(EvalMixin, MethodsMixin, ExecMixin):
    max_paths = 4000

    def __init__(self, unit, repo=None):
        self.unit = unit
        self.prop = unit.prop
        self.uname = unit.name
        self.repo = repo or REPO
        self.obligs = []
        self.trivial = 0
        self.prune_calls = 0
        self.in_contract = False
        self.cur_line = 0
        self.ctag = ""
        self.line_offset = 0
        self.raises_ok = set(unit.raises)
        self.try_depth = []
        self.known_chars = set()
        self.late_axioms = []
        self.method_contracts = dict(unit.callees)
        for key, cu in unit.callee_units.items():
            self.method_contracts[key] = self.callee_from_unit(cu)
        self.ghost_names = set()
        self.builtins = self.make_builtins()
        self.builtins.update(getattr(unit, "builtin_overrides", {}))
        self.special_forms = self.make_special_forms()
        self.install_folds()
        for dn, (dargs, dbody) in unit.defs.items():
            self.special_forms[dn] = self.make_macro(dn, dargs, parse_expr(dbody))
        for fname, zf in unit.spec_funcs.items():
            self.special_forms[fname] = self.make_specfun(zf)
        for fac in unit.special_factories:
            self.special_forms.update(fac(self))
        self.assumptions = set()
        self.uses_join = False
        self._mod_cache = {}

    # -- safety with try/except awareness
    def safety(self, st, exc, goal, node, note=""):
        if self.in_contract:
            return EvalMixin.safety(self, st, exc, goal, node, note)
        for handled, implicit in reversed(self.try_depth):
            if exc in handled or "*" in handled:
                g = z3.simplify(goal)
                if not z3.is_true(g) and self.branch_feasible(st, z3.Not(g)):
                    s3 = st.fork()
                    s3.guards = []
                    s3.assume(z3.And(*(st.guards + [z3.Not(g)])))
                    s3.trail.append("e")
                    implicit.append((exc if exc in handled else "*", s3))
                st.assume(goal)
                return
        EvalMixin.safety(self, st, exc, goal, node, note)

    def callee_from_unit(self, cu):
        """Call site semantics from the callee's CONTRACT only (never its body):
        obligations for its requires, havoc of its modifies, result and ensures assumed."""
        def factory(ref):
            def call(ex, st, args, kw, node):
                def ambient(spec):
                    return isinstance(spec, tuple) and spec[0] == "obj" and spec[1].startswith("module:")
                names = [p for p in cu.params if p != "self" and not ambient(cu.params[p]) and p not in cu.ghost_params]
                env2 = {}
                for gp in cu.ghost_params:
                    if gp not in st.env:
                        raise ContractError("caller of %s has no ghost %s" % (cu.name, gp))
                    env2[gp] = st.env[gp]
                for p_, sp_ in cu.params.items():
                    if ambient(sp_):
                        env2[p_] = self.make_value(sp_, st, p_)
                if "self" in cu.params:
                    env2["self"] = ref
                for i, nm in enumerate(names):
                    if i < len(args):
                        env2[nm] = args[i]
                    elif nm in kw:
                        env2[nm] = kw[nm]
                    elif nm in cu.defaults:
                        env2[nm] = self.make_value(("const", cu.defaults[nm]), st, nm)
                    elif self.real_default(cu, nm) is not None:
                        env2[nm] = self.make_value(("const", self.real_default(cu, nm)[0]), st, nm)
                    else:
                        raise OutOfSubset("call of %s lacks argument %s" % (cu.name, nm), node)
                saved_env = st.env
                st.env = dict(env2)
                for dn, (dargs, dbody) in cu.defs.items():
                    if dn not in self.special_forms:
                        self.special_forms[dn] = self.make_macro(dn, dargs, parse_expr(dbody))
                for fname, zf in cu.spec_funcs.items():
                    if fname not in self.special_forms:
                        self.special_forms[fname] = self.make_specfun(zf)
                was = (self.in_contract, self.cur_line, self.ctag)
                self.in_contract = True
                self.cur_line = getattr(node, "lineno", 0) + self.line_offset
                try:
                    for i, r in enumerate(cu.requires):
                        self.ctag = "%s.requires%d" % (cu.name, i)
                        self.check_clause(st, "call-requires", parse_expr(r), node, assume_after=True)
                    self.ctag = was[2]
                    for nm, v in list(st.env.items()):
                        if isinstance(v, VRef) and isinstance(st.heap[v.oid], (HList, HCList, HDict, HObj)):
                            st.env["old$" + nm] = self.snapshot(v, st)
                        else:
                            st.env["old$" + nm] = v
                    if cu.init:
                        # ghost values the callee's contract captures at entry (e.g. n0 = len(decl))
                        self.run_ghost(parse_code(cu.init), st, node)
                    for m in cu.modifies:
                        v = self.ev(parse_expr(m), st)
                        if isinstance(v, VOpt):
                            v = v.val          # an optional object: havocked when present
                        if isinstance(v, VNone):
                            continue
                        if isinstance(v, VRef):
                            st.heap[v.oid] = self.fresh_cell(st.heap[v.oid], st, cu.name + "_" + m.replace(".", "_"))
                        else:
                            raise ContractError("modifies %s of %s is not a heap cell" % (m, cu.name))
                    if not cu.result and any(isinstance(n_, ast.Name) and n_.id == "result"
                                             for e_ in cu.ensures for n_ in ast.walk(parse_expr(e_))):
                        # a contract that speaks about `result` must say what kind of value it is: assuming
                        # `None == <spec>` would silently end the caller's path
                        raise ContractError("callee %s: ensures mention `result` but the unit declares no result kind" % cu.name)
                    res = self.make_value(cu.result, st, cu.name + "_result") if cu.result else VNone()
                    st.env["result"] = res
                    for cls in sorted(cu.raises):
                        # the call may raise: handled by an enclosing try, or it ends the caller with that class
                        self.in_contract = False
                        if cls not in self.raises_ok:
                            self.oblige(st, "raises-only", z3.BoolVal(False), node, "callee %s may raise %s" % (cu.name, cls))
                        noraise = z3.Bool(fresh_name("noraise_" + cls))
                        self.safety(st, cls, noraise, node, "callee may raise")
                        self.in_contract = True
                    for e in cu.ensures:
                        self.assume_clause(st, parse_expr(e))
                finally:
                    self.in_contract, self.cur_line, self.ctag = was
                    st.env = saved_env
                return res
            return VFun("%s[contract]" % cu.name, call)
        return factory

    def snapshot(self, v, st, depth=0):
        """deep-enough copy of a heap value for old(): lists, dicts; objects three levels deep (old(self).fmtdict.__dict__:
        with one level only, old(self).fmtdict was the LIVE scope object and `old` clauses about it held trivially --
        found by a mutant of eval_template that verified)"""
        cell = st.heap[v.oid]
        if isinstance(cell, HObj):
            f = {}
            for k, x in cell.f.items():
                inner = x.val if isinstance(x, VOpt) else x
                if isinstance(inner, VRef) and isinstance(st.heap[inner.oid], (HList, HCList, HDict)):
                    c = self.snapshot(inner, st, depth + 1)
                    f[k] = VOpt(x.isnone, c) if isinstance(x, VOpt) else c
                elif isinstance(x, VRef) and isinstance(st.heap[x.oid], HObj) and depth < 2:
                    f[k] = self.snapshot(x, st, depth + 1)
                else:
                    f[k] = x
            return st.alloc(HObj(cell.cls, f))
        return st.alloc(cell)

    def real_default(self, cu, nm):
        """(value,) of the literal default of parameter `nm` in the callee's real signature, read from the source"""
        path, qual = cu.target.split("::")
        try:
            fn = find_function(ast.parse(open(os.path.join(self.repo, path)).read()), qual)
            a = fn.args
            pos = a.posonlyargs + a.args
            for arg, dflt in zip(pos[len(pos) - len(a.defaults):], a.defaults):
                if arg.arg == nm:
                    return (ast.literal_eval(dflt),)
            for arg, dflt in zip(a.kwonlyargs, a.kw_defaults):
                if arg.arg == nm and dflt is not None:
                    return (ast.literal_eval(dflt),)
        except (OSError, ValueError, ContractError, SyntaxError):
            return None
        return None

    def make_specfun(self, zf):
        def sf(node, st):
            args = [getattr(v_, "val", v_).e for v_ in (self.ev(a, st) for a in node.args)]
            for i_, a_ in enumerate(args):
                if a_.sort() == PyVal and zf.domain(i_) == StrS:
                    args[i_] = PyVal.ps(a_)
                elif a_.sort() == PyVal and zf.domain(i_) == IntS:
                    args[i_] = PyVal.pi(a_)
            r = zf(*args) if args else zf
            if z3.is_expr(r):
                srt = r.sort()
                if srt == StrS:
                    return VStr(r)
                if srt == IntS:
                    return VInt(r)
                if srt == BoolS:
                    return VBool(r)
                if srt == PyVal:
                    return VPy(r)
            raise OutOfSubset("spec function result sort")
        return sf

    def make_macro(self, name, argnames, body):
        def macro(node, st):
            vals = [self.ev(a, st) for a in node.args]
            saved = dict((a, st.env.get(a)) for a in argnames)
            for a, v in zip(argnames, vals):
                st.env[a] = v
            try:
                return self.ev(body, st)
            finally:
                for a in argnames:
                    if saved[a] is None:
                        st.env.pop(a, None)
                    else:
                        st.env[a] = saved[a]
        return macro

    def install_folds(self):
        for nm, fd in self.unit.folds.items():
            fold = Fold(nm, *fd)
            self.builtins[nm] = VFun(nm, (lambda fold: lambda ex, st, args, kw, node: wrap(fold.res, fold.f(args[0].e)))(fold))
            self.builtins[nm + "_snoc"] = VFun(nm + "_snoc", self.make_snoc(fold))
            self.builtins[nm + "_nil"] = VFun(nm + "_nil", self.make_nil(fold))

    def make_snoc(self, fold):
        def snoc(ex, st, args, kw, node):
            s, c = args[0].e, args[1].e
            # definitional unfolding: FOLD(s + c) == snoc(FOLD(s), c) for a single character c
            st2 = st.fork()
            st2.env = dict(st.env)
            st2.env["acc"] = wrap(fold.res, fold.f(s))
            st2.env["ch"] = VStr(c)
            self.known_chars.add(c)
            r = self.ev(parse_expr(fold.snoc), st2)
            st.assume(z3.Implies(z3.Length(c) == 1, fold.f(z3.Concat(s, c)) == r.e))
            return VNone()
        return snoc

    def make_nil(self, fold):
        def nil(ex, st, args, kw, node):
            r = self.ev(parse_expr(fold.nil), st)
            st.assume(fold.f(z3.StringVal("")) == r.e)
            return VNone()
        return nil

    # -- source
    def load(self):
        path, qual = self.unit.target.split("::")
        full = os.path.join(self.repo, path)
        src = open(full).read()
        tree = ast.parse(src)
        fn = find_function(tree, qual)
        self.fn = fn
        self.src_sha = hashlib.sha256(ast.get_source_segment(src, fn).encode()).hexdigest()[:16]
        self.path = path
        body = fn.body
        if self.unit.slice:
            body = self.take_slice(body, self.unit.slice)
        self.body = body
        self.uses_join = self.unit.uses_join or ".join(" in ast.get_source_segment(src, fn)
        # loop ordinals (pre-order over the function, not the slice)
        self.loop_ord = {}
        k = 0
        for n in ast.walk(fn):
            pass
        for n in self.preorder(fn):
            if isinstance(n, (ast.For, ast.While)):
                self.loop_ord[id(n)] = k
                k += 1
        # bind ghost anchors
        self.ghost_at = {}
        stmts = [n for n in self.preorder(fn) if isinstance(n, ast.stmt)]
        for where, pattern, code in self.unit.ghost:
            if "$" in pattern:
                import re
                rx = re.compile("^" + re.escape(norm(pattern.replace("$X", "WILDCARD__"))).replace("WILDCARD__", ".+") + "$", re.S)
                hits = [s for s in stmts if rx.match(self.head_text(s))]
            else:
                pat = norm(pattern)
                hits = [s for s in stmts if self.head_text(s) == pat]
            if len(hits) < 1:
                raise ContractError("ghost anchor %r matches no statement in %s" % (pattern, qual))
            for hnode in hits:
                self.ghost_at.setdefault(id(hnode), {}).setdefault(where, []).extend(parse_code(code))
        # parse loop specs
        for ordn, spec in self.unit.loops.items():
            spec["inv"] = [parse_expr(e) if isinstance(e, str) else e for e in spec.get("inv", [])]
            spec["_head"] = parse_code(spec["head"]) if spec.get("head") else []
            spec["_end"] = parse_code(spec["end"]) if spec.get("end") else []
            if isinstance(spec.get("decreases"), str):
                spec["decreases"] = parse_expr(spec["decreases"])
        for ordn in self.unit.loops:
            if ordn not in self.loop_ord.values():
                raise ContractError("contract names loop %d but %s has %d loops" % (ordn, qual, k))
        # ghost names: assigned in ghost code
        gcode = parse_code(self.unit.init) if self.unit.init else []
        for g in self.ghost_at.values():
            gcode += g.get("before", []) + g.get("after", [])
        for spec in self.unit.loops.values():
            gcode += spec["_head"] + spec["_end"]
        from .execstmt import assigned_names
        gn, _, _ = assigned_names(gcode)
        pn, _, _ = assigned_names(fn.body)
        pn |= set(a.arg for a in fn.args.args)
        gn -= {"tree_key", "tree_val"}
        clash = gn & pn
        if clash:
            raise ContractError("ghost names clash with program names: %s" % sorted(clash))
        self.ghost_names = gn

    def head_text(self, s):
        """statement text; compound statements are matched by their header line only."""
        if isinstance(s, (ast.If, ast.While)):
            return ast.unparse(ast.If(test=s.test, body=[ast.Pass()], orelse=[])) if isinstance(s, ast.If) else \
                ast.unparse(ast.While(test=s.test, body=[ast.Pass()], orelse=[]))
        if isinstance(s, ast.For):
            return ast.unparse(ast.For(target=s.target, iter=s.iter, body=[ast.Pass()], orelse=[], lineno=0))
        if isinstance(s, (ast.FunctionDef, ast.ClassDef, ast.Try, ast.With)):
            return "<compound>"
        return ast.unparse(s)

    def preorder(self, node):
        yield node
        for c in ast.iter_child_nodes(node):
            for x in self.preorder(c):
                yield x

    def take_slice(self, body, sl):
        """sl = (first_pattern, last_pattern): consecutive top-level statements of `body` (or of a nested
        block found by searching) from the first statement matching first_pattern to the one matching last."""
        import re

        def matcher(pattern):
            if "$" in pattern:
                rx = re.compile("^" + re.escape(norm(pattern.replace("$X", "WILDCARD__"))).replace("WILDCARD__", ".+") + "$", re.S)
                return lambda t: bool(rx.match(t))
            p_ = norm(pattern)
            return lambda t: t == p_
        mfirst = matcher(sl[0])
        mlast = (lambda t: False) if sl[1] == "$END" else matcher(sl[1])

        def search(block):
            texts = [self.head_text(s) for s in block]
            starts = [i for i, t in enumerate(texts) if mfirst(t)]
            if starts:
                i = starts[0]
                js = [j for j in range(i, len(block)) if mlast(texts[j])]
                if sl[1] == "$END":
                    js = [len(block) - 1]
                if js:
                    return block[i:js[0] + 1]
            for s in block:
                for fld in ("body", "orelse", "finalbody"):
                    sub = getattr(s, fld, None)
                    if isinstance(sub, list) and sub and isinstance(sub[0], ast.stmt):
                        r = search(sub)
                        if r:
                            return r
            return None
        r = search(body)
        if not r:
            raise ContractError("slice %r .. %r not found" % sl)
        return r

    # -- parameters
    def make_value(self, spec, st, nm):
        if isinstance(spec, str):
            if spec in ("int", "str", "bool", "py"):
                return fresh(spec, nm)
            if spec == "none":
                return VNone()
            if spec.startswith("list["):
                ek = spec[5:-1]
                n = z3.Int(fresh_name(nm + "_len"))
                st.assume(n >= 0)
                return st.alloc(HList(ek, n, z3.Array(fresh_name(nm + "_arr"), IntS, SORTS[ek])))
            if spec.startswith("dict["):
                ek = spec[5:-1]
                if "," in ek:
                    ek = ("tuple",) + tuple(x.strip() for x in ek.split(","))
                return st.alloc(self.fresh_dict(ek, nm, st, sized=True))
            if spec.startswith("ddict["):
                ek = spec[6:-1]
                return st.alloc(HDict(ek, z3.Array(fresh_name(nm + "_keys"), StrS, BoolS),
                                      z3.Array(fresh_name(nm + "_vals"), StrS, SORTS[ek]), default=True))
            if spec == "file":
                out = st.alloc(HList("str", z3.IntVal(0), z3.K(IntS, z3.StringVal(""))))
                return st.alloc(HObj("file", {"out": out}))
            if spec == "objdict":
                return st.alloc(HObj("ObjDict", {}))
            if spec == "opaque":
                return st.alloc(HOpaque())
            if spec == "emptylist":
                return st.alloc(HCList([]))
            raise ContractError("param spec %r" % spec)
        if spec[0] == "same":
            # alias: the very object another (earlier) parameter path denotes, e.g. ("same", "self.fmtdict")
            parts = spec[1].split(".")
            v = st.env[parts[0]]
            for fld in parts[1:]:
                v = st.heap[v.oid].f[fld]
            return v
        if spec[0] == "reclist":
            n = z3.Int(fresh_name(nm + "_len"))
            st.assume(n >= 0)
            cols = {}
            for fld, k in spec[1].items():
                if k.startswith("opt:"):
                    cols[fld] = ("opt", k[4:], z3.Array(fresh_name("%s_%s_none" % (nm, fld)), IntS, BoolS),
                                 z3.Array(fresh_name("%s_%s" % (nm, fld)), IntS, SORTS[k[4:]]))
                else:
                    cols[fld] = ("val", k, None, z3.Array(fresh_name("%s_%s" % (nm, fld)), IntS, SORTS[k]))
            return st.alloc(HRecList(n, cols))
        if spec[0] == "keyed":
            return st.alloc(HObj("KeyedObjs", dict((fld, VNone()) for fld in spec[1])))
        if spec[0] == "clistdict":
            return st.alloc(HDict(items=dict((k, self.make_value(v, st, nm + "_" + k)) for k, v in spec[1].items())))
        if spec[0] == "obj":
            f = dict((k, self.make_value(v, st, nm + "_" + k)) for k, v in spec[2].items())
            if spec[1] == "Tree" and "path" not in f:
                f["path"] = VStr("")          # ghost: dotted path from the root of the nested dict ("" = root)
            return st.alloc(HObj(spec[1], f))
        if spec[0] == "opt":
            return VOpt(z3.Bool(fresh_name(nm + "_isnone")), self.make_value(spec[1], st, nm))
        if spec[0] == "const":
            c = spec[1]
            return VNone() if c is None else VBool(c) if isinstance(c, bool) else VInt(c) if isinstance(c, int) else VStr(c)
        if spec[0] == "tuple":
            return VTuple([self.make_value(s, st, nm + str(i)) for i, s in enumerate(spec[1:])])
        if spec[0] == "clist":
            return st.alloc(HCList([self.make_value(s, st, nm + str(i)) for i, s in enumerate(spec[1:])]))
        raise ContractError("param spec %r" % (spec,))

    # -- driver
    def generate(self):
        """Symbolically execute the unit; returns list of Obligation."""
        reset_names()
        self.load()
        u = self.unit
        st = State()
        self.line_offset = 0
        for nm, spec in u.params.items():
            st.env[nm] = self.make_value(spec, st, nm)
        # default values of parameters not listed are not modelled: every read must be declared
        for nm in list(st.env):
            v = st.env[nm]
            if isinstance(v, VRef) and isinstance(st.heap[v.oid], (HList, HCList, HDict, HObj)):
                v = self.snapshot(v, st)     # snapshot of the contents at entry
            st.env["old$" + nm] = v
        self.in_contract = True
        self.cur_line = self.fn.lineno
        for r in u.requires:
            self.assume_clause(st, parse_expr(r))
        self.n_requires = len(u.requires)
        self.entry_state = st.fork()
        self.entry_cells = {}
        for nm in u.params:
            v = st.env.get(nm)
            acc = []

            def walk(path, val, depth):
                if isinstance(val, VOpt):
                    val = val.val
                if isinstance(val, VRef) and depth < 3:
                    cell = st.heap[val.oid]
                    acc.append((path, val.oid, cell))
                    if isinstance(cell, HObj):
                        for k, x in cell.f.items():
                            if not k.endswith("()"):
                                walk(path + "." + k, x, depth + 1)
            walk(nm, v, 0)
            self.entry_cells[nm] = acc
        if u.init:
            self.run_ghost(parse_code(u.init), st, self.fn)
        self.in_contract = False
        outs = self.run_block(self.body, st)
        self.exits = {"return": 0, "raise": 0}
        for kind, s2, val in outs:
            if kind in (BREAK, CONT):
                raise OutOfSubset("break/continue outside loop")
            if kind == RAISE:
                cls = val[0]
                self.exits["raise"] += 1
                self.in_contract = True
                self.cur_line = self.fn.end_lineno
                if cls not in u.raises:
                    self.oblige(s2, "raises-only", z3.BoolVal(False), None, "raises %s" % cls)
                else:
                    s2.env["exc_class"] = VStr(cls)
                    s2.env["exc_args"] = VTuple(val[1])
                    if val[1]:
                        s2.env["exc_msg"] = val[1][0]
                    for i, e in enumerate(u.ensures_raise):
                        self.ctag = "R%d" % i
                        s3 = s2.fork()
                        self.check_clause(s3, "ensures-raise", parse_expr(e), None, assume_after=False)
                    self.ctag = ""
                self.in_contract = False
                continue
            self.exits["return"] += 1
            s2.env["result"] = val if kind == RET else VNone()
            if getattr(u, "check_frame", False):
                # frame: a heap cell reachable from a parameter and not named in `modifies` is the cell it was at entry
                self.in_contract = True
                self.cur_line = self.fn.end_lineno
                for pn, cells in self.entry_cells.items():
                    for path, oid, cell in cells:
                        if any(path == m or path.startswith(m + ".") for m in u.modifies):
                            continue
                        same = s2.heap.get(oid) is cell or self.same_cell(s2.heap.get(oid), cell)
                        self.ctag = "frame:" + path
                        self.oblige(s2.fork(), "frame", z3.BoolVal(bool(same)), None,
                                    "%s is changed but is not in the modifies clause %r" % (path, u.modifies))
                self.ctag = ""
                self.in_contract = False
            if u.exit_ghost:
                self.run_ghost(parse_code(u.exit_ghost), s2, self.fn)
            self.in_contract = True
            self.cur_line = self.fn.end_lineno
            for i, e in enumerate(u.ensures):
                self.ctag = "E%d" % i
                s3 = s2.fork()
                self.check_clause(s3, "ensures", parse_expr(e), None, assume_after=False)
            self.ctag = ""
            self.in_contract = False
        # vacuity guards: the precondition must be satisfiable and an `assert False` at every exit refutable
        self.vacuity = []
        self.vacuity.append(("cover-requires", self.entry_state.hyps()))
        for kind, s2, val in outs:
            self.vacuity.append(("reach-%s#%s" % (kind, s2.pathid()), s2.hyps()))
        return self.obligs
