"""Built-in functions, string/list/dict methods, spec-only forms."""
import ast
import z3
from .values import *  # noqa
from .state import *   # noqa
from .evalexpr import is_lit_str, VQconj

S = z3.StringVal

# per-character case functions, ASCII only (precondition wherever used)
def _code(c):
    return z3.StrToCode(c)


def isupper1(c):
    return z3.And(_code(c) >= 65, _code(c) <= 90)


def islower1(c):
    return z3.And(_code(c) >= 97, _code(c) <= 122)


def lower1(c):
    return z3.If(isupper1(c), z3.StrFromCode(_code(c) + 32), c)


def upper1(c):
    return z3.If(islower1(c), z3.StrFromCode(_code(c) - 32), c)


LOWER = z3.Function("py_lower", StrS, StrS)   # whole-string lower(), axiomatised on use
UPPER = z3.Function("py_upper", StrS, StrS)
STRIP = z3.Function("py_strip", StrS, StrS)
VALIDFMT = z3.Function("py_validfmt", StrS, IntS, BoolS)
VALIDFMTKW = z3.Function("py_validfmtkw", StrS, StrS, BoolS)
FMTRES = z3.Function("py_format_result", StrS, IntS, StrS)
FIRSTFIELD = z3.Function("py_firstfield", StrS, StrS)
LASTPIECE = z3.Function("py_lastpiece", StrS, StrS, StrS)
JOINSEP = z3.Function("py_join_sep", z3.ArraySort(IntS, StrS), IntS, StrS, StrS)
# prefix function of a split: SPLITPRE(pieces, i, sep) = pieces[0] + sep + ... + pieces[i-1] + sep
SPLITPRE = z3.Function("py_splitpre", z3.ArraySort(IntS, StrS), IntS, StrS, StrS)
WC = z3.Function("spec_write_continue_output", StrS, IntS, StrS, StrS)
JOINPRE = z3.Function("py_joinpre", z3.ArraySort(IntS, StrS), IntS, StrS)
ISDIGIT = z3.Function("py_isdigit", StrS, BoolS)
TOINT = z3.Function("py_int_of_str", StrS, IntS)
TOINTB = z3.Function("py_int_of_str_base", StrS, IntS, IntS)
INTOKB = z3.Function("py_int_parses_base", StrS, IntS, BoolS)
INTOK = z3.Function("py_int_parses", StrS, BoolS)


class MethodsMixin(object):

    def fun(self, name, f):
        return VFun(name, f)

    # ---------------------------------------------------------------- strings
    def str_method(self, base, name, st, node):
        s = base.e

        def m_lstrip(ex, st, args, kw, node):
            if args:
                raise OutOfSubset("lstrip(chars)", node)
            return VStr(LSTRIP(s))   # axioms are added per application when the query is built

        def m_rstrip(ex, st, args, kw, node):
            if args:
                raise OutOfSubset("rstrip(chars)", node)
            return VStr(RSTRIP(s))

        def m_strip(ex, st, args, kw, node):
            if args:
                raise OutOfSubset("strip(chars)", node)
            r = STRIP(s)
            st.assume(z3.Contains(s, r))
            st.assume(z3.Length(r) <= z3.Length(s))
            return VStr(r)

        def m_lower(ex, st, args, kw, node):
            if z3.is_string_value(s):
                return VStr(s.as_string().lower())
            ln = z3.simplify(z3.Length(s))
            if z3.is_int_value(ln) and ln.as_long() == 1 or self.is_char(s):
                return VStr(lower1(s))
            r = LOWER(s)
            st.assume(z3.Length(r) == z3.Length(s))
            return VStr(r)

        def m_upper(ex, st, args, kw, node):
            if z3.is_string_value(s):
                return VStr(s.as_string().upper())
            if self.is_char(s):
                return VStr(upper1(s))
            r = UPPER(s)
            st.assume(z3.Length(r) == z3.Length(s))
            return VStr(r)

        def m_isupper(ex, st, args, kw, node):
            if not self.is_char(s):
                raise OutOfSubset("isupper() on a multi-character string", node)
            return VBool(isupper1(s))

        def m_islower(ex, st, args, kw, node):
            if not self.is_char(s):
                raise OutOfSubset("islower() on a multi-character string", node)
            return VBool(islower1(s))

        def m_startswith(ex, st, args, kw, node):
            return VBool(z3.PrefixOf(self.want_str(args[0], st, node), s))

        def m_endswith(ex, st, args, kw, node):
            return VBool(z3.SuffixOf(self.want_str(args[0], st, node), s))

        def m_find(ex, st, args, kw, node):
            start = args[1].e if len(args) > 1 else z3.IntVal(0)
            return VInt(z3.IndexOf(s, self.want_str(args[0], st, node), start))

        def m_replace(ex, st, args, kw, node):
            a, b = self.want_str(args[0], st, node), self.want_str(args[1], st, node)
            return VStr(self.replace_all(s, a, b))

        def m_join(ex, st, args, kw, node):
            lst = args[0]
            if isinstance(lst, VRef):
                cell = st.heap[lst.oid]
                if isinstance(cell, HCList):
                    out = []
                    for i, x in enumerate(cell.items):
                        if i:
                            out.append(s)
                        out.append(self.want_str(x, st, node))
                    if not out:
                        return VStr("")
                    return VStr(z3.Concat(*out) if len(out) > 1 else out[0])
                if isinstance(cell, HList) and cell.ek == "str":
                    return VStr(self.join_fold(s, cell, st))
            raise OutOfSubset("join of %r" % (lst,), node)

        def m_format(ex, st, args, kw, node):
            if not z3.is_string_value(s):
                if args or not kw:
                    raise OutOfSubset(".format on non-constant template", node)
                # template.format(k1=.., k2=..) on a non-constant template: defined only if every replacement field of
                # the template is one of the given keywords (else KeyError/ValueError/IndexError); result abstract
                self.safety(st, "KeyError", VALIDFMTKW(s, S(",".join(sorted(kw)))), node,
                            "template may use a replacement field that is not among the keywords given")
                self.assumptions.add("str.format(**kw) on a non-constant template: result is an unspecified string; "
                                     "defined iff validfmtkw(template, names)")
                return VStr(z3.String(fresh_name("fmtkw_result")))
            return VStr(self.brace_format(s.as_string(), args, kw, st, node))

        def m_split(ex, st, args, kw, node):
            return self.str_split(s, args, st, node)

        def m_isdigit(ex, st, args, kw, node):
            # abstract: a non-empty all-digit string is exactly what int() accepts without sign/space (ASCII digits)
            r = ISDIGIT(s)
            st.assume(z3.Implies(r, z3.And(INTOK(s), z3.Length(s) >= 1, TOINT(s) >= 0)))
            return VBool(r)

        def m_rfind(ex, st, args, kw, node):
            raise OutOfSubset("rfind", node)

        table = dict(lstrip=m_lstrip, rstrip=m_rstrip, strip=m_strip, lower=m_lower, upper=m_upper,
                     isupper=m_isupper, islower=m_islower, startswith=m_startswith, endswith=m_endswith,
                     find=m_find, replace=m_replace, join=m_join, format=m_format, split=m_split, isdigit=m_isdigit)
        if name not in table:
            raise OutOfSubset("str method %s" % name, node)
        return VFun("str." + name, table[name])

    def is_char(self, s):
        """syntactically a single character: str.at / substr(_,_,1) / 1-char literal."""
        if s in self.known_chars:
            return True
        if z3.is_string_value(s):
            return len(s.as_string()) == 1
        if z3.is_app(s) and s.decl().kind() == z3.Z3_OP_SEQ_AT:
            return True
        if z3.is_app(s) and s.decl().kind() == z3.Z3_OP_SEQ_EXTRACT:
            ln = z3.simplify(s.arg(2))
            return z3.is_int_value(ln) and ln.as_long() == 1
        return s in self.known_chars

    def want_str(self, v, st, node):
        if isinstance(v, VStr):
            return v.e
        if isinstance(v, VPy):
            self.safety(st, "TypeError", PyVal.is_pstr(v.e), node, "expected str")
            return PyVal.ps(v.e)
        if isinstance(v, VOpt):
            self.safety(st, "TypeError", z3.Not(v.isnone), node, "expected str, got None")
            return self.want_str(v.val, st, node)
        self.safety(st, "TypeError", z3.BoolVal(False), node, "expected str, got %s" % v.kind)
        raise PathEnd()

    def join_fold(self, sep, cell, st):
        if z3.is_string_value(sep) and sep.as_string() == "":
            self.assumptions.add("JOINPRE(arr,0)=='' ; JOINPRE(arr,i+1)==JOINPRE(arr,i)++arr[i] (definition) and its "
                                 "frame lemma JOINPRE(store(arr,n,x),i)==JOINPRE(arr,i) for i<=n (induction on i)")
            st.assume(JOINPRE(cell.arr, 0) == S(""))
            return JOINPRE(cell.arr, cell.n)
        if z3.is_string_value(sep):
            # sep.join(list) with a non-empty constant separator: abstract, a function of (elements, length, sep)
            self.assumptions.add("sep.join(list) for a non-empty separator is an uninterpreted function of the list")
            return JOINSEP(cell.arr, cell.n, sep)
        raise OutOfSubset("join with a separator over a symbolic list")

    JOINF = {}

    def join_fold_old(self, sep, cell, st):
        """"sep".join(list): prefix function over the array; unfolded by quantified fact."""
        key = (sep.sexpr(), cell.arr.sexpr())
        if key not in self.JOINF:
            self.JOINF[key] = z3.Function(fresh_name("joinpre"), IntS, StrS)
        P = self.JOINF[key]
        st.assume(P(0) == S(""))
        if z3.is_string_value(sep) and sep.as_string() == "":
            st.qf.append(QFact(z3.IntVal(0), cell.n, lambda i, P=P, cell=cell: P(i + 1) == z3.Concat(P(i), z3.Select(cell.arr, i)), "join-step"))
        else:
            st.qf.append(QFact(z3.IntVal(0), cell.n, lambda i, P=P, cell=cell, sep=sep: P(i + 1) == z3.If(
                i == 0, z3.Select(cell.arr, i), z3.Concat(P(i), sep, z3.Select(cell.arr, i))), "join-step"))
        st.terms.append(cell.n - 1)
        return P(cell.n)

    def replace_all(self, s, a, b):
        try:
            return z3.ReplaceAll(s, a, b) if hasattr(z3, "ReplaceAll") else z3.Replace(s, a, b)
        except Exception:
            return z3.Replace(s, a, b)

    def brace_format(self, tmpl, args, kw, st, node):
        import string
        pieces = []
        auto = 0
        for lit, field, spec, conv in string.Formatter().parse(tmpl):
            if lit:
                pieces.append(S(lit))
            if field is None:
                continue
            if spec or conv:
                raise OutOfSubset("format spec/conversion", node)
            if field == "":
                v = args[auto]
                auto += 1
            elif field.isdigit():
                v = args[int(field)]
            elif field in kw:
                v = kw[field]
            else:
                raise OutOfSubset("format field %r" % field, node)
            pieces.append(self.strof(v, st, node))
        if not pieces:
            return S("")
        return z3.Concat(*pieces) if len(pieces) > 1 else pieces[0]

    def str_split(self, s, args, st, node):
        """s.split(sep): an uninterpreted list of pieces; only what callers need is axiomatised:
        at least one piece when a separator is given; no piece contains the separator (single-char sep)."""
        n = z3.Int(fresh_name("split_len"))
        arr = z3.Array(fresh_name("split_arr"), IntS, StrS)
        if len(args) == 2 and self.conc(args[1]) == 1:
            # s.split(sep, 1): split at the first occurrence only
            sep = self.want_str(args[0], st, node)
            has = z3.Contains(s, sep)
            a0, a1 = z3.Select(arr, 0), z3.Select(arr, 1)
            st.assume(n == z3.If(has, 2, 1))
            st.assume(z3.Implies(has, z3.And(s == z3.Concat(a0, sep, a1), z3.Not(z3.Contains(a0, sep)))))
            st.assume(z3.Implies(z3.Not(has), a0 == s))
            return st.alloc(HList("str", n, arr))
        if len(args) > 1:
            raise OutOfSubset("split with maxsplit", node)
        if args:
            sep = self.want_str(args[0], st, node)
            st.assume(n >= 1)
            st.qf.append(QFact(z3.IntVal(0), n, lambda i, arr=arr, sep=sep: z3.Not(z3.Contains(z3.Select(arr, i), sep)), "split-nosep"))
            st.assume(z3.Implies(z3.Not(z3.Contains(s, sep)), z3.And(n == 1, z3.Select(arr, 0) == s)))
            self.assumptions.add("str.split(sep): pieces are non-overlapping, >= 1 piece, none contains sep, and a string without sep is its own single piece (other properties of split left abstract)")
            st.assume(z3.Select(arr, n - 1) == LASTPIECE(s, sep))
            # reconstruction: s == pieces[0] + sep + ... + sep + pieces[n-1]
            st.assume(SPLITPRE(arr, 0, sep) == S(""))
            st.assume(s == z3.Concat(SPLITPRE(arr, n - 1, sep), z3.Select(arr, n - 1)))
            st.qf.append(QFact(z3.IntVal(0), n - 1, lambda i, arr=arr, sep=sep: SPLITPRE(arr, i + 1, sep) == z3.Concat(
                SPLITPRE(arr, i, sep), z3.Select(arr, i), sep), "split-prefix"))
            st.terms.append(n - 1)
        else:
            st.assume(n >= 0)
            st.assume((n == 0) == ALLWS(s))
            st.assume(z3.Implies(n > 0, z3.Select(arr, 0) == FIRSTFIELD(s)))
            self.assumptions.add("str.split(): no fields iff the string is all whitespace; first field = FIRSTFIELD(s) (uninterpreted); other fields abstract")
        return st.alloc(HList("str", n, arr))

    def py_method(self, base, name, st, node):
        """method on a dynamically typed value: only str has the str methods."""
        e = base.e
        strnames = ("lower", "upper", "strip", "lstrip", "rstrip", "startswith", "endswith", "find", "split",
                    "replace", "format", "join", "isupper", "islower")
        if name in strnames:
            self.safety(st, "AttributeError", PyVal.is_pstr(e), node,
                        "attribute value may not be a str: .%s() needs one" % name)
            return self.str_method(VStr(PyVal.ps(e)), name, st, node)
        raise OutOfSubset("method %s on dynamic value" % name, node)

    # ---------------------------------------------------------------- lists, dicts, objects
    def container_method(self, ref, cell, name, st, node):
        oid = ref.oid
        if isinstance(cell, HOpaque):
            if name in ("append", "extend"):
                return VFun("opaque." + name, lambda ex, st, args, kw, node: VNone())
            return None
        if isinstance(cell, (HList, HCList)):
            def run_hooks(st, values, node):
                for nm, code in self.unit.append_hooks.items():
                    v = st.env.get(nm)
                    if isinstance(v, VRef) and v.oid == oid and not self.in_contract:
                        from .unit import parse_code
                        for x in values:
                            st.env["appended_"] = x
                            self.run_ghost(parse_code(code), st, node)

            def m_append(ex, st, args, kw, node):
                run_hooks(st, [args[0]], node)
                c = st.heap[oid]
                x = args[0]
                if isinstance(c, HCList):
                    st.heap[oid] = HCList(c.items + [x])
                else:
                    if c.ek == "str" and isinstance(x, VOpt):
                        self.safety(st, "TypeError", z3.Not(x.isnone), node, "None appended to a list of strings")
                        x = x.val
                    if c.ek == "str" and isinstance(x, VPy):
                        # a list the contract treats as a list of strings: anything else put into it is a TypeError later
                        # (''.join); required here
                        self.safety(st, "TypeError", PyVal.is_pstr(x.e), node, "non-string appended to a list of strings")
                        x = VStr(PyVal.ps(x.e))
                    xe = self.coerce(x, c.ek, node)
                    arr2 = z3.Store(c.arr, c.n, xe)
                    st.heap[oid] = HList(c.ek, c.n + 1, arr2)
                    if c.ek == "str" and self.uses_join:
                        st.assume(JOINPRE(arr2, c.n) == JOINPRE(c.arr, c.n))
                        st.assume(JOINPRE(arr2, c.n + 1) == z3.Concat(JOINPRE(arr2, c.n), xe))
                return VNone()

            def m_extend(ex, st, args, kw, node):
                o_ = args[0]
                if isinstance(o_, VRef) and isinstance(st.heap[o_.oid], HCList):
                    run_hooks(st, list(st.heap[o_.oid].items), node)
                elif isinstance(o_, VTuple):
                    run_hooks(st, list(o_.items), node)
                c = st.heap[oid]
                o = args[0]
                if isinstance(o, VOpt):
                    self.safety(st, "TypeError", z3.Not(o.isnone), node, "extend(None)")
                    o = o.val
                if isinstance(o, VTuple):
                    oc = HCList(o.items)
                elif isinstance(o, VRef):
                    oc = st.heap[o.oid]
                else:
                    raise OutOfSubset("extend with %r" % (o,), node)
                if isinstance(c, HCList) and isinstance(oc, HCList):
                    st.heap[oid] = HCList(c.items + oc.items)
                else:
                    st.heap[oid] = self.list_concat(c, oc, st)
                return VNone()

            def m_pop(ex, st, args, kw, node):
                c = st.heap[oid]
                if args:
                    raise OutOfSubset("pop(i)", node)
                if isinstance(c, HCList):
                    if not c.items:
                        self.safety(st, "IndexError", z3.BoolVal(False), node, "pop from empty list")
                        raise PathEnd()
                    st.heap[oid] = HCList(c.items[:-1])
                    return c.items[-1]
                self.safety(st, "IndexError", c.n > 0, node, "pop from empty list")
                st.heap[oid] = HList(c.ek, c.n - 1, c.arr)
                return wrap(c.ek, z3.Select(c.arr, c.n - 1))

            def m_index(ex, st, args, kw, node):
                c = st.heap[oid]
                x = args[0]
                if isinstance(c, HCList):
                    c = self.as_hlist(c, ek=x.kind)
                xe = self.coerce(x, c.ek, node)
                j = z3.Int(fresh_name("index"))
                present = self.contains(ref, x, st, node)
                self.safety(st, "ValueError", present, node, "x not in list")
                st.assume(z3.And(0 <= j, j < c.n, z3.Select(c.arr, j) == xe))
                st.qf.append(QFact(z3.IntVal(0), j, lambda i, c=c, xe=xe: z3.Select(c.arr, i) != xe, "index-first"))
                return VInt(j)

            tab = dict(append=m_append, extend=m_extend, pop=m_pop, index=m_index)
            if name in tab:
                return VFun("list." + name, tab[name])
            return None
        if isinstance(cell, HDict):
            def m_get(ex, st, args, kw, node):
                c = st.heap[oid]
                default = args[1] if len(args) > 1 else VNone()
                if c.items is not None:
                    r = self.dict_get(c, args[0], st, node, strict=False)
                    return default if r is None else r
                key = args[0]
                if not isinstance(key, VStr):
                    raise OutOfSubset("dict.get key", node)
                has = z3.Select(c.keys, key.e)
                return self.ite(has, wrap(c.ek, z3.Select(c.vals, key.e)), default, st, node)
            def m_update(ex, st, args, kw, node):
                c = st.heap[oid]
                o = args[0]
                oc = st.heap[o.oid] if isinstance(o, VRef) else None
                if not isinstance(oc, HDict) or oc.items is not None or c.items is not None or isinstance(c.ek, tuple) \
                        or c.ek != oc.ek:
                    raise OutOfSubset("dict.update of this shape", node)
                k = z3.String(fresh_name("uk"))
                keys = z3.Lambda([k], z3.Or(z3.Select(c.keys, k), z3.Select(oc.keys, k)))
                vals = z3.Lambda([k], z3.If(z3.Select(oc.keys, k), z3.Select(oc.vals, k), z3.Select(c.vals, k)))
                size = None
                if c.size is not None:
                    size = z3.Int(fresh_name("size_after_update"))
                    st.assume(size >= c.size)
                st.heap[oid] = HDict(c.ek, keys, vals, default=c.default, size=size)
                return VNone()

            def m_keys(ex, st, args, kw, node):
                return ref          # iterating d.keys() is iterating d (an arbitrary list of its keys)

            tab = dict(get=m_get, update=m_update, keys=m_keys)
            if name in tab:
                return VFun("dict." + name, tab[name])
            return None
        return None

    def coerce(self, x, ek, node):
        if ek == "py":
            return self.to_py(x)
        if x.kind != ek:
            raise OutOfSubset("storing %s into list of %s" % (x.kind, ek), node)
        return x.e

    def obj_method(self, ref, cell, name, st, node):
        if cell.cls == "file" and name == "write":
            def m_write(ex, st, args, kw, node):
                s = self.want_str(args[0], st, node)
                out = st.heap[ref.oid].f["out"]
                c = st.heap[out.oid]
                if isinstance(c, HCList):
                    st.heap[out.oid] = HCList(c.items + [VStr(s)])
                else:
                    st.heap[out.oid] = HList(c.ek, c.n + 1, z3.Store(c.arr, c.n, s))
                return VNone()
            return VFun("file.write", m_write)
        if name + "()" in cell.f:
            val = cell.f[name + "()"]
            return VFun("%s.%s" % (cell.cls, name), lambda ex, st, args, kw, node, val=val: val)
        if cell.cls == "file" and name == "readlines":
            return VFun("file.readlines", lambda ex, st, args, kw, node: st.heap[ref.oid].f["lines"])
        if cell.cls == "Tree" and name == "update":
            return VFun("Tree.update", lambda ex, st, args, kw, node: VNone())
        if cell.cls == "Tree" and name == "setdefault":
            # abstract nested-dict navigation: a child node; its ghost `path` is the parent's path + key + "."
            def m_tsd(ex, st, args, kw, node, cell=cell):
                key = self.want_str(args[0], st, node)
                ppath = cell.f["path"].e if "path" in cell.f else S("")
                return st.alloc(HObj("Tree", {"path": VStr(z3.Concat(ppath, key, S(".")))}))
            return VFun("Tree.setdefault", m_tsd)
        key = (cell.cls, name)
        if key in self.method_contracts:
            return self.method_contracts[key](ref)
        return None

    # ---------------------------------------------------------------- builtins
    def make_builtins(self):
        b = {}

        def f_len(ex, st, args, kw, node):
            v = args[0]
            if isinstance(v, VOpt):
                self.safety(st, "TypeError", z3.Not(v.isnone), node, "len(None)")
                v = v.val
            if isinstance(v, VStr):
                return VInt(z3.Length(v.e))
            if isinstance(v, VTuple):
                return VInt(len(v.items))
            if isinstance(v, VRef):
                c = st.heap[v.oid]
                if isinstance(c, (HList, HRecList)):
                    return VInt(c.n)
                if isinstance(c, HCList):
                    return VInt(len(c.items))
                if isinstance(c, HDict) and c.items is not None:
                    return VInt(len(c.items))
                if isinstance(c, HDict) and c.size is not None:
                    return VInt(c.size)
            if isinstance(v, VPy):
                self.safety(st, "TypeError", PyVal.is_pstr(v.e), node, "len() of a value that may not be a string")
                return VInt(z3.Length(PyVal.ps(v.e)))
            if isinstance(v, (VBool, VInt, VNone)):
                self.safety(st, "TypeError", z3.BoolVal(False), node, "len() of %s" % v.kind)
                raise PathEnd()
            raise OutOfSubset("len of %r" % (v,), node)

        def f_sorted(ex, st, args, kw, node):
            v = args[0]
            if isinstance(v, VRef) and isinstance(st.heap[v.oid], HDict) and st.heap[v.oid].items is None and not kw:
                # sorted(d) / sorted(d.keys()) used only as an iteration order: the order is abstracted (the loop sees
                # an arbitrary list of the keys), sound for contracts that do not speak about order
                self.assumptions.add("sorted(dict) iterated: order abstracted to an arbitrary list of the keys")
                return v
            raise OutOfSubset("sorted() of %r" % (v,), node)
        b["sorted"] = VFun("sorted", f_sorted)

        def f_str(ex, st, args, kw, node):
            return VStr(self.strof(args[0], st, node))

        def f_int(ex, st, args, kw, node):
            v = args[0]
            if len(args) == 2:
                base = self.conc(args[1])
                if not isinstance(v, VStr) or base is None:
                    raise OutOfSubset("int(x, base)", node)
                self.safety(st, "ValueError", INTOKB(v.e, base), node, "int(s, %d) of a string that may not be a number" % base)
                return VInt(TOINTB(v.e, base))
            if isinstance(v, VInt):
                return v
            if isinstance(v, VBool):
                return VInt(z3.If(v.e, 1, 0))
            if isinstance(v, VStr):
                self.safety(st, "ValueError", INTOK(v.e), node, "int() of a string that may not be a number")
                return VInt(TOINT(v.e))
            if isinstance(v, VPy):
                e = v.e
                self.safety(st, "TypeError", z3.Not(PyVal.is_pnone(e)), node, "int(None)")
                self.safety(st, "ValueError", z3.Implies(PyVal.is_pstr(e), INTOK(PyVal.ps(e))), node, "int() of non-numeric string")
                return VInt(z3.If(PyVal.is_pint(e), PyVal.pi(e), z3.If(PyVal.is_pbool(e), z3.If(PyVal.pb(e), 1, 0),
                                  z3.If(PyVal.is_pstr(e), TOINT(PyVal.ps(e)), z3.Int(fresh_name("int_other"))))))
            raise OutOfSubset("int() of %r" % (v,), node)

        def f_bool(ex, st, args, kw, node):
            return VBool(self.truth(args[0], st))

        def f_isinstance(ex, st, args, kw, node):
            v, t = args
            names = [x.name for x in t.items] if isinstance(t, VTuple) else [t.name]
            res = []
            for nm in names:
                res.append(self.isinstance1(v, nm, st, node))
            return VBool(z3.Or(*res) if len(res) > 1 else res[0])

        def f_min(ex, st, args, kw, node):
            a, c = args
            return VInt(z3.If(a.e <= c.e, a.e, c.e))

        def f_max(ex, st, args, kw, node):
            a, c = args
            return VInt(z3.If(a.e >= c.e, a.e, c.e))

        def f_range(ex, st, args, kw, node):
            if len(args) == 1:
                return VTuple([VStr("$range"), VInt(0), args[0]])
            if len(args) == 2:
                return VTuple([VStr("$range"), args[0], args[1]])
            raise OutOfSubset("range with step", node)

        def f_list(ex, st, args, kw, node):
            if not args:
                return st.alloc(HCList([]))
            raise OutOfSubset("list(x)", node)

        def f_dict(ex, st, args, kw, node):
            if not args:
                return st.alloc(HDict(items=dict(kw)))
            raise OutOfSubset("dict(x)", node)

        def f_getattr(ex, st, args, kw, node):
            obj, name = args[0], args[1]
            if not (isinstance(name, VStr) and z3.is_string_value(name.e)):
                raise OutOfSubset("getattr with a computed name", node)
            nm_ = name.e.as_string()
            if len(args) < 3:
                return self.getattr(obj, nm_, st, node)
            default = args[2]
            if isinstance(obj, VNone):
                return default
            if isinstance(obj, VOpt):
                st.guards.append(z3.Not(obj.isnone))
                try:
                    val = self.getattr(obj.val, nm_, st, node)
                finally:
                    st.guards.pop()
                return self.ite(obj.isnone, default, val, st, node)
            if isinstance(obj, VRef) and isinstance(st.heap[obj.oid], HObj) and nm_ in st.heap[obj.oid].f:
                return st.heap[obj.oid].f[nm_]
            raise OutOfSubset("getattr(%r, %r, default)" % (obj, nm_), node)

        for nm, f in dict(getattr=f_getattr, len=f_len, str=f_str, int=f_int, bool=f_bool, isinstance=f_isinstance, min=f_min,
                          max=f_max, range=f_range, list=f_list, dict=f_dict).items():
            b[nm] = VFun(nm, f)
        for t in ("RuntimeError", "ValueError", "TypeError", "KeyError", "IndexError", "AttributeError",
                  "NotImplementedError", "SystemExit", "DeprecationWarning", "Exception"):
            b[t] = VFun(t, self.make_exc(t))
        b["True"], b["False"], b["None"] = VBool(True), VBool(False), VNone()
        return b

    def make_exc(self, cls):
        def ctor(ex, st, args, kw, node):
            return VTuple([VStr("$exc"), VStr(cls)] + list(args))
        return ctor

    def isinstance1(self, v, nm, st, node):
        if isinstance(v, VPy):
            e = v.e
            return {"int": z3.Or(PyVal.is_pint(e), PyVal.is_pbool(e)), "bool": PyVal.is_pbool(e),
                    "str": PyVal.is_pstr(e)}.get(nm, None) if nm in ("int", "bool", "str") else self._nope(nm, node)
        if isinstance(v, VOpt):
            return z3.And(z3.Not(v.isnone), self.isinstance1(v.val, nm, st, node))
        k = v.kind
        if nm == "int":
            return z3.BoolVal(k in ("int", "bool"))
        if nm == "bool":
            return z3.BoolVal(k == "bool")
        if nm == "str":
            return z3.BoolVal(k == "str")
        if nm in ("list", "dict"):
            if isinstance(v, VRef):
                c = st.heap[v.oid]
                if isinstance(c, HObj) and c.cls == "Tree":
                    return z3.Bool(fresh_name("tree_isdict"))   # abstract nested-dict node: leaf or dict unknown
                return z3.BoolVal(isinstance(c, (HList, HCList)) if nm == "list" else isinstance(c, HDict))
            return z3.BoolVal(False)
        return self._nope(nm, node)

    def _nope(self, nm, node):
        raise OutOfSubset("isinstance(_, %s)" % nm, node)

    # ---------------------------------------------------------------- spec-only forms
    def make_special_forms(self):
        def sf_all(node, st):
            arg = node.args[0]
            if isinstance(arg, ast.GeneratorExp) and len(arg.generators) == 1:
                g = arg.generators[0]
                it = self.ev(g.iter, st)
                if isinstance(it, VTuple) and it.items and is_lit_str(it.items[0]) and it.items[0].e.as_string() == "$range" \
                        and isinstance(g.target, ast.Name):
                    lo, hi = it.items[1].e, it.items[2].e
                    var = g.target.id
                    env = dict(st.env)
                    heap = dict(st.heap)

                    def body(i, self=self, st=st, env=env, heap=heap, var=var, g=g, arg=arg):
                        st2 = st.fork()
                        st2.env = dict(env)
                        st2.heap = dict(heap)
                        st2.env[var] = VInt(i)
                        st2.guards = []
                        save = (self.obligs, self.trivial)
                        self.obligs = []
                        was = self.in_contract
                        self.in_contract = True
                        try:
                            cond = [self.truth(self.ev(c, st2), st2) for c in g.ifs]
                            r = self.truth(self.ev(arg.elt, st2), st2)
                        finally:
                            dropped = self.obligs
                            self.obligs, self.trivial = save
                            self.in_contract = was
                        # safety conditions inside a quantified spec expression are folded into it
                        extra = [z3.Implies(z3.And(*o.hyps[len(st.pc):]) if o.hyps[len(st.pc):] else True, o.goal)
                                 for o in dropped if not isinstance(o.goal, V)]
                        r = z3.And(r, *extra) if extra else r
                        added = st2.pc[len(st.pc):]
                        if added:
                            # definitional facts introduced while evaluating (lstrip axioms...) are assumptions
                            r = z3.Implies(z3.And(*added), r) if False else r
                            for a in added:
                                self.late_axioms.append(a)
                        return z3.Implies(z3.And(*cond), r) if cond else r
                    return VQ(lo, hi, body)
                if isinstance(it, VRef) and isinstance(st.heap[it.oid], HDict) and st.heap[it.oid].items is None \
                        and isinstance(g.target, ast.Name):
                    d = st.heap[it.oid]
                    var = g.target.id
                    env = dict(st.env)
                    heap = dict(st.heap)

                    def sbody(x, self=self, st=st, env=env, heap=heap, var=var, g=g, arg=arg):
                        st2 = st.fork()
                        st2.env = dict(env)
                        st2.heap = dict(heap)
                        st2.env[var] = VStr(x)
                        st2.guards = []
                        save = (self.obligs, self.trivial)
                        self.obligs = []
                        was = self.in_contract
                        self.in_contract = True
                        try:
                            cond = [self.truth(self.ev(c, st2), st2) for c in g.ifs]
                            r = self.truth(self.ev(arg.elt, st2), st2)
                        finally:
                            dropped = self.obligs
                            self.obligs, self.trivial = save
                            self.in_contract = was
                        extra = [z3.Implies(z3.And(*o.hyps[len(st.pc):]) if o.hyps[len(st.pc):] else True, o.goal)
                                 for o in dropped if not isinstance(o.goal, V)]
                        r = z3.And(r, *extra) if extra else r
                        return z3.Implies(z3.And(*cond), r) if cond else r
                    return VQ(None, None, sbody, sort="str", guard=lambda x, d=d: z3.Select(d.keys, x))
                if isinstance(it, VRef) and isinstance(st.heap[it.oid], HCList):
                    res = []
                    for x in st.heap[it.oid].items:
                        st.env[g.target.id] = x
                        res.append(self.truth(self.ev(arg.elt, st), st))
                    return VBool(z3.And(*res) if res else True)
            raise OutOfSubset("all() over this iterable", node)

        def sf_old(node, st):
            nm = node.args[0]
            if isinstance(nm, ast.Name):
                return st.env["old$" + nm.id]
            raise OutOfSubset("old() of non-name", node)

        def sf_implies(node, st):
            a = self.truth(self.ev(node.args[0], st), st)
            if z3.is_false(z3.simplify(a)):
                return VBool(True)
            st.guards.append(a)
            try:
                bv = self.ev(node.args[1], st)
                if isinstance(bv, VQ):
                    return VQ(bv.lo, bv.hi, lambda i, a=a, bv=bv: z3.Implies(a, bv.body(i)), bv.sort, bv.guard)
                b = self.truth(bv, st)
            finally:
                st.guards.pop()
            return VBool(z3.Implies(a, b))

        def sf_iff(node, st):
            a = self.truth(self.ev(node.args[0], st), st)
            b = self.truth(self.ev(node.args[1], st), st)
            return VBool(a == b)

        def sf_allws(node, st):
            return VBool(ALLWS(self.ev(node.args[0], st).e))

        def sf_lstrip(node, st):
            v = self.ev(node.args[0], st)
            return self.str_method(v, "lstrip", st, node).fn(self, st, [], {}, node)

        def sf_rstrip(node, st):
            v = self.ev(node.args[0], st)
            return self.str_method(v, "rstrip", st, node).fn(self, st, [], {}, node)

        def sf_isint(node, st):
            v = self.ev(node.args[0], st)
            return VBool(self.isinstance1(v, "int", st, node))

        def sf_isstr(node, st):
            v = self.ev(node.args[0], st)
            return VBool(self.isinstance1(v, "str", st, node))

        def sf_asstr(node, st):
            v = self.ev(node.args[0], st)
            return VStr(PyVal.ps(v.e)) if isinstance(v, VPy) else v

        def sf_wc(node, st):
            a = [self.ev(x, st) for x in node.args]
            return VStr(WC(a[0].e, a[1].e, a[2].e))

        def sf_firstfield(node, st):
            return VStr(FIRSTFIELD(self.ev(node.args[0], st).e))

        def sf_lastpiece(node, st):
            return VStr(LASTPIECE(self.ev(node.args[0], st).e, self.ev(node.args[1], st).e))

        def sf_same_except(node, st):
            """same_except(d, old_d, 'k1', 'k2', ...): every key other than the listed ones is unchanged"""
            d = st.heap[self.ev(node.args[0], st).oid]
            o = st.heap[self.ev(node.args[1], st).oid]
            ks = [self.ev(a, st).e for a in node.args[2:]]
            keys, vals = o.keys, o.vals
            for k in ks:
                keys = z3.Store(keys, k, z3.Select(d.keys, k))
                vals = z3.Store(vals, k, z3.Select(d.vals, k))
            return VBool(z3.And(d.keys == keys, d.vals == vals))

        def sf_isnone(node, st):
            return VBool(self.compare(ast.Is(), self.ev(node.args[0], st), VNone(), st, node))

        def sf_isbool(node, st):
            v = self.ev(node.args[0], st)
            return VBool(self.isinstance1(v, "bool", st, node))

        def sf_wfmt(node, st):
            from contracts.wrapc_capsule import WFMT
            return VStr(WFMT(self.ev(node.args[0], st).e))

        def sf_validfmt(node, st):
            return VBool(VALIDFMT(self.ev(node.args[0], st).e, self.ev(node.args[1], st).e))

        def sf_splitpre(node, st):
            lst = self.ev(node.args[0], st)
            c = self.as_hlist(st.heap[lst.oid])
            return VStr(SPLITPRE(c.arr, self.ev(node.args[1], st).e, self.ev(node.args[2], st).e))

        def sf_validfmtkw(node, st):
            return VBool(VALIDFMTKW(self.ev(node.args[0], st).e, self.ev(node.args[1], st).e))

        def sf_evalv(node, st):
            from contracts.ast_enum import EVAL
            v = self.ev(node.args[0], st)
            e = self.to_py(v)
            return VInt(z3.If(PyVal.is_pint(e), PyVal.pi(e), EVAL(PyVal.ps(e))))

        def sf_eval_plus(node, st):
            # A2 instance: EVAL(e + "+" + str(k)) == EVAL(e) + k   for k >= 0
            from contracts.ast_enum import EVAL
            e = self.want_str(self.ev(node.args[0], st), st, node)
            k = self.ev(node.args[1], st).e
            st.assume(z3.Implies(k >= 0, EVAL(z3.Concat(e, z3.StringVal("+"), z3.IntToStr(k))) == EVAL(e) + k))
            return VNone()

        def sf_intok(node, st):
            return VBool(INTOK(self.want_str(self.ev(node.args[0], st), st, node)))

        def sf_toint(node, st):
            return VInt(TOINT(self.want_str(self.ev(node.args[0], st), st, node)))

        def sf_isdigit(node, st):
            return VBool(ISDIGIT(self.want_str(self.ev(node.args[0], st), st, node)))

        return dict(isdigit_=sf_isdigit, intok=sf_intok, toint=sf_toint, evalv=sf_evalv, eval_plus=sf_eval_plus, validfmt=sf_validfmt, validfmtkw=sf_validfmtkw, splitpre=sf_splitpre, wfmt=sf_wfmt, same_except=sf_same_except, isnone=sf_isnone, isbool=sf_isbool, firstfield=sf_firstfield, lastpiece=sf_lastpiece, isint=sf_isint, isstr=sf_isstr, asstr=sf_asstr, WC=sf_wc, code=_sf_code(self), all=sf_all, old=sf_old, implies=sf_implies, iff=sf_iff, allws=sf_allws,
                    lstrip=sf_lstrip, rstrip=sf_rstrip)


def _sf_code(self):
    def sf_code(node, st):
        v = self.ev(node.args[0], st)
        return VInt(z3.StrToCode(v.e))
    return sf_code
