"""Discharging obligations: z3 first, cvc5 on unknown. One query per obligation, 16-process pool."""
import multiprocessing
import os
import subprocess
import tempfile
import time
import z3
from .values import *  # noqa
from .state import *   # noqa

Z3_FAST_MS = int(os.environ.get("PYVC_Z3_FAST_MS", "2500"))
Z3_MS = int(os.environ.get("PYVC_Z3_MS", "30000"))
CVC5_MS = int(os.environ.get("PYVC_CVC5_MS", "20000"))
NPROC = int(os.environ.get("PYVC_NPROC", "16"))


def inst_terms(ob, skolems):
    base = list(ob.terms) + list(skolems)
    seen, out = set(), []
    for t in base:
        for u in (t, t + 1, t - 1):
            u = z3.simplify(u)
            key = u.sexpr()
            if key not in seen:
                seen.add(key)
                out.append(u)
    z = z3.IntVal(0)
    if z.sexpr() not in seen:
        out.append(z)
    return out


def select_indices(e, limit=12):
    """ground Int index terms of array reads in the (negated) goal: instantiation triggers"""
    out, seen, todo = [], set(), [e]
    while todo and len(out) < limit:
        x = todo.pop()
        if not z3.is_app(x) or x.get_id() in seen:
            continue
        seen.add(x.get_id())
        if x.decl().kind() == z3.Z3_OP_SELECT and x.arg(1).sort() == IntS:
            out.append(x.arg(1))
        todo.extend(x.children())
    return out


def string_keys(exprs, skolems, limit=16):
    """ground String terms used as keys of (String -> *) arrays: instantiation triggers for key quantifiers"""
    out, seen, ids = list(skolems), set(x.sexpr() for x in skolems), set()
    todo = list(exprs)
    while todo and len(out) < limit:
        x = todo.pop()
        if not z3.is_app(x) or x.get_id() in ids:
            continue
        ids.add(x.get_id())
        if x.decl().kind() in (z3.Z3_OP_SELECT, z3.Z3_OP_STORE) and x.arg(1).sort() == StrS:
            k = x.arg(1)
            if k.sexpr() not in seen:
                seen.add(k.sexpr())
                out.append(k)
        todo.extend(x.children())
    return out


def theory_axioms(exprs):
    """Defining facts of the uninterpreted string vocabulary, one instance per application that occurs.
    lstrip(s): s == wsprefix(s) ++ lstrip(s), wsprefix all whitespace, result does not start with whitespace,
    and a string that does not start with whitespace is its own lstrip.  Which characters are whitespace stays
    abstract, so results hold for Python's Unicode definition."""
    seen = set()
    out = []
    todo = list(exprs)
    S = z3.StringVal
    while todo:
        e = todo.pop()
        if not z3.is_expr(e):
            continue
        k = e.get_id()
        if k in seen:
            continue
        seen.add(k)
        if z3.is_quantifier(e):
            todo.append(e.body())
            continue
        if z3.is_app(e):
            d = e.decl()
            nm = d.name()
            if nm == "py_lstrip":
                s = e.arg(0)
                r, w = e, WSPRE(s)
                new = [s == z3.Concat(w, r), ALLWS(w),
                       z3.Implies(z3.Length(r) > 0, z3.Not(ISWS1(z3.SubString(r, 0, 1)))),
                       z3.Implies(z3.Length(s) == 0, r == S("")),
                       z3.Implies(z3.And(z3.Length(s) > 0, z3.Not(ISWS1(z3.SubString(s, 0, 1)))), r == s)]
                out += new
                todo += new
            elif nm == "py_rstrip":
                s = e.arg(0)
                r, w = e, WSSUF(s)
                new = [s == z3.Concat(r, w), ALLWS(w),
                       z3.Implies(z3.Length(r) > 0, z3.Not(ISWS1(z3.SubString(r, z3.Length(r) - 1, 1)))),
                       z3.Implies(z3.Length(s) == 0, r == S(""))]
                out += new
                todo += new
            elif nm == "py_allws":
                s = e.arg(0)
                new = [z3.Implies(z3.Length(s) == 0, e)]
                out += new
            todo.extend(e.children())
    return out


def build_query(ob, extra_axioms=()):
    """-> (smt2 text, names of skolem constants)"""
    s = z3.Solver()
    skolems = []
    goal = ob.goal
    sskolems = []
    if isinstance(goal, VQ) and goal.sort == "str":
        sk = z3.String(fresh_name("sks"))
        sskolems.append(sk)
        neg = z3.And(goal.guard(sk), z3.Not(goal.body(sk)))
    elif isinstance(goal, VQ):
        sk = z3.Int(fresh_name("sk"))
        skolems.append(sk)
        neg = z3.And(goal.lo <= sk, sk < goal.hi, z3.Not(goal.body(sk)))
    else:
        neg = z3.Not(goal)
    for h in ob.hyps:
        s.add(h)
    terms = inst_terms(ob, skolems + select_indices(neg))
    sterms = None
    for q in ob.qfacts:
        if q.sort == "str":
            if sterms is None:
                sterms = string_keys([neg] + list(ob.hyps), sskolems)
            for t in sterms:
                s.add(q.inst(t))
            continue
        for t in terms:
            s.add(q.inst(t))
    # second round: int-quantified facts at array reads whose index came out of the first round (order[pos[x]])
    if sterms is not None:
        more = []
        for a in s.assertions()[len(ob.hyps):]:
            more += select_indices(a, limit=8)
        seen = set(t.sexpr() for t in terms)
        more = [m for m in more if m.sexpr() not in seen][:12]
        for q in ob.qfacts:
            if q.sort != "str":
                for t in more:
                    s.add(q.inst(t))
    for a in extra_axioms:
        s.add(a)
    s.add(neg)
    for a in theory_axioms(s.assertions()):
        s.add(a)
    return s.to_smt2(), [str(x) for x in skolems]


def _run_cvc5(text, ms, models):
    with tempfile.NamedTemporaryFile("w", suffix=".smt2", delete=False) as f:
        f.write("(set-logic ALL)\n")
        if models:
            f.write("(set-option :produce-models true)\n")
        f.write(text.replace("(check-sat)", "(check-sat)\n(get-model)" if models else "(check-sat)"))
        path = f.name
    try:
        args = ["/usr/bin/cvc5", "--strings-exp", "--tlimit=%d" % ms, path]
        p = subprocess.run(args, capture_output=True, text=True, timeout=ms / 1000.0 + 5)
        out = p.stdout.strip().split("\n", 1)
        res = out[0].strip() if out else "unknown"
        model = out[1] if len(out) > 1 else ""
        if res not in ("sat", "unsat"):
            res = "unknown"
        return res, model
    except subprocess.TimeoutExpired:
        return "unknown", ""
    finally:
        os.unlink(path)


def solve_text(args):
    name, text = args
    t0 = time.time()
    res, model, solver = "unknown", "", "z3"
    def run_z3(ms):
        """z3 through its CLI so that a solver that ignores its own timeout can be killed (seq solver)"""
        with tempfile.NamedTemporaryFile("w", suffix=".smt2", delete=False) as f:
            f.write(text.replace("(check-sat)", "(check-sat)\n(get-model)"))
            path = f.name
        try:
            p = subprocess.run(["z3-new", "-smt2", "-T:%d" % max(1, ms // 1000), path], capture_output=True, text=True,
                               timeout=ms / 1000.0 + 3)
            out = p.stdout.strip().split("\n", 1)
            r = out[0].strip() if out else "unknown"
            if r not in ("sat", "unsat"):
                return "unknown", ""
            mdl = ""
            if r == "sat" and len(out) > 1:
                import re as _re
                mdl = "\n".join("%s = %s" % (m.group(1), m.group(2).strip()) for m in _re.finditer(
                    r'\(define-fun ([^ ]+) \(\) (?:String|Int|Bool)\s+(.*?)\)\s*(?=\(define-fun|\)\s*$)', out[1], _re.S))
            return r, mdl
        except subprocess.TimeoutExpired:
            return "unknown", ""
        except Exception as e:
            return "unknown", "z3-error: %s" % e
        finally:
            os.unlink(path)
    # z3 with a short budget first, cvc5 for what it leaves open, then z3 again with the long budget.
    # A `sat` from z3's sequence solver is only a CANDIDATE refutation (it has returned models that violate
    # congruence of uninterpreted functions over equal strings): it must be confirmed by cvc5; if cvc5 proves the
    # query unsat the obligation is discharged by cvc5 and the disagreement is recorded.
    res, model = run_z3(Z3_FAST_MS)
    if res == "sat":
        r2, m2 = _run_cvc5(text, CVC5_MS, models=False)
        if r2 == "unsat":
            res, model, solver = "unsat", "", "cvc5(z3-sat-not-confirmed)"
        elif r2 == "unknown":
            r3, m3 = run_z3(Z3_MS)
            if r3 == "unsat":
                res, model, solver = "unsat", "", "z3(retry)"
    elif res == "unknown" and not model.startswith("z3-error"):
        r2, m2 = _run_cvc5(text, CVC5_MS, models=False)
        if r2 == "sat":
            r2, m2 = _run_cvc5(text, CVC5_MS, models=True)
        if r2 != "unknown":
            res, model, solver = r2, m2, "cvc5"
        else:
            res, model = run_z3(Z3_MS)
    return name, res, solver, time.time() - t0, model


def cross_check(args):
    """thorough tier: a discharged query re-run on the other solver."""
    name, text, solver = args
    if solver == "z3":
        r, _ = _run_cvc5(text, CVC5_MS, models=False)
    else:
        s = z3.Solver()
        s.set("timeout", Z3_MS)
        s.from_string(text)
        r = str(s.check())
    return name, r


def solve_all(queries, nproc=NPROC):
    """queries: list of (name, text) -> dict name -> (res, solver, secs, model)"""
    out = {}
    if not queries:
        return out
    if nproc <= 1 or len(queries) == 1:
        for q in queries:
            n, r, s, t, m = solve_text(q)
            out[n] = (r, s, t, m)
        return out
    with multiprocessing.Pool(min(nproc, len(queries))) as pool:
        for n, r, s, t, m in pool.imap_unordered(solve_text, queries, chunksize=1):
            out[n] = (r, s, t, m)
    return out


_OBS = []


def _build_and_solve(i):
    ob = _OBS[i]
    t0 = time.time()
    try:
        text, _ = build_query(ob)
    except Exception as e:
        return i, "unknown", "build", 0.0, "build-error: %r" % (e,), ""
    name, res, solver, secs, model = solve_text((ob.name, text))
    return i, res, solver, time.time() - t0, model, text


def solve_obligations(obs, nproc=NPROC):
    """Build and solve every obligation in forked workers (z3 terms are inherited through fork, never pickled).
    -> list of (res, solver, secs, model, text) aligned with obs."""
    global _OBS
    out = [None] * len(obs)
    if not obs:
        return out
    _OBS = obs
    ctx = multiprocessing.get_context("fork")
    if nproc <= 1:
        for i in range(len(obs)):
            r = _build_and_solve(i)
            out[r[0]] = r[1:]
        return out
    with ctx.Pool(min(nproc, len(obs))) as pool:
        for r in pool.imap_unordered(_build_and_solve, range(len(obs)), chunksize=1):
            out[r[0]] = r[1:]
    _OBS = []
    return out


def quick_check(assertions, ms=1000):
    """satisfiability through the z3 CLI with a hard kill (the API's timeout is not always honoured by the
    sequence solver); -> "sat" | "unsat" | "unknown" """
    sol = z3.Solver()
    for a in assertions:
        sol.add(a)
    text = sol.to_smt2()
    with tempfile.NamedTemporaryFile("w", suffix=".smt2", delete=False) as f:
        f.write(text)
        path = f.name
    try:
        p = subprocess.run(["z3-new", "-smt2", "-T:%d" % max(1, (ms + 999) // 1000), path], capture_output=True, text=True,
                           timeout=ms / 1000.0 + 2)
        r = p.stdout.strip().split("\n")[0].strip()
        return r if r in ("sat", "unsat") else "unknown"
    except subprocess.TimeoutExpired:
        return "unknown"
    finally:
        os.unlink(path)
