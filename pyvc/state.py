"""Path state, obligations and errors for pyvc."""
import z3
from .values import *  # noqa


class OutOfSubset(Exception):
    """The unit uses a construct the front end does not model -> verdict UNDECIDED (exit 2)."""

    def __init__(self, msg, node=None):
        Exception.__init__(self, msg)
        self.node = node


class ContractError(Exception):
    """The sidecar contract no longer binds to the code (anchor missing, name gone) -> exit 2."""


class RaiseSignal(Exception):
    """A callee whose contract says it raises (always): turned into a `raise` outcome of the current statement."""

    def __init__(self, cls, args=()):
        Exception.__init__(self, cls)
        self.cls, self.args_ = cls, list(args)


class PathEnd(Exception):
    """Abort the current path (assumed false)."""


class QFact(object):
    """forall i. lo <= i < hi -> body(i), kept symbolic so it can be instantiated."""

    def __init__(self, lo, hi, body, label="", sort="int", guard=None):
        self.lo, self.hi, self.body, self.label = lo, hi, body, label
        self.sort, self.guard = sort, guard    # sort "str": forall x:String. guard(x) -> body(x)

    def inst(self, t):
        if self.sort == "str":
            return z3.Implies(self.guard(t), self.body(t))
        return z3.Implies(z3.And(self.lo <= t, t < self.hi), self.body(t))


class Obligation(object):
    def __init__(self, name, kind, hyps, qfacts, goal, lineno, terms, note=""):
        self.name = name          # <prop>/<unit>/<kind>@<line>#<path>
        self.kind = kind
        self.hyps = hyps          # list of z3 Bool
        self.qfacts = qfacts      # list of QFact
        self.goal = goal          # z3 Bool or VQ
        self.lineno = lineno
        self.terms = terms        # extra instantiation terms
        self.note = note


class State(object):
    def __init__(self):
        self.env = {}
        self.heap = {}
        self.pc = []
        self.qf = []
        self.guards = []       # short-circuit guards active while evaluating an expression
        self.trail = []        # branch decisions (for obligation names)
        self.terms = []        # instantiation terms (loop indices ...)
        self.next_oid = [0]

    def fork(self):
        s = State()
        s.env = dict(self.env)
        s.heap = dict(self.heap)
        s.pc = list(self.pc)
        s.qf = list(self.qf)
        s.guards = list(self.guards)
        s.trail = list(self.trail)
        s.terms = list(self.terms)
        s.next_oid = self.next_oid
        return s

    def alloc(self, cell):
        self.next_oid[0] += 1
        oid = self.next_oid[0]
        self.heap[oid] = cell
        return VRef(oid)

    def assume(self, e):
        if z3.is_true(e):
            return
        if self.guards:
            e = z3.Implies(z3.And(*self.guards), e)
        self.pc.append(e)

    def hyps(self):
        return list(self.pc) + ([z3.And(*self.guards)] if self.guards else [])

    def pathid(self):
        return "".join(self.trail) or "-"
