"""Statement execution: path-splitting symbolic execution with loop cut points."""
import ast
import z3
from .values import *  # noqa
from .state import *   # noqa
from .evalexpr import is_lit_str, VQconj

NORMAL, BREAK, CONT, RET, RAISE = "normal", "break", "continue", "return", "raise"


def assigned_names(stmts):
    """Names (re)bound and receivers mutated anywhere inside stmts (syntactic)."""
    names, muts, attrs = set(), set(), set()
    for s in stmts:
        for n in ast.walk(s):
            if isinstance(n, (ast.Assign, ast.AugAssign, ast.For, ast.AnnAssign)):
                tgts = n.targets if isinstance(n, ast.Assign) else [n.target]
                for t in tgts:
                    for x in ast.walk(t):
                        if isinstance(x, ast.Name) and isinstance(x.ctx, ast.Store):
                            names.add(x.id)
                        if isinstance(x, ast.Attribute) and isinstance(x.ctx, ast.Store):
                            attrs.add(ast.unparse(x))
                        if isinstance(x, ast.Subscript) and isinstance(x.ctx, ast.Store):
                            muts.add(ast.unparse(x.value))
                if isinstance(n, ast.AugAssign) and isinstance(n.target, ast.Name):
                    muts.add(n.target.id)  # list += ...
            if isinstance(n, ast.Call) and isinstance(n.func, ast.Attribute):
                if n.func.attr in ("append", "extend", "pop", "insert", "remove", "clear", "update", "setdefault",
                                   "write", "reverse", "sort"):
                    muts.add(ast.unparse(n.func.value))
            if isinstance(n, ast.Delete):
                for t in n.targets:
                    if isinstance(t, ast.Subscript):
                        muts.add(ast.unparse(t.value))
    return names, muts, attrs


class ExecMixin(object):

    def branch_feasible(self, st, cond):
        """Cheap pruning: drop a branch only if z3 proves the path condition inconsistent."""
        c = z3.simplify(cond)
        if z3.is_false(c):
            return False
        if z3.is_true(c):
            return True
        self.prune_calls += 1
        from .solve import quick_check
        return quick_check(st.hyps() + [c], 1000) != "unsat"

    def run_block(self, stmts, st):
        """-> list of (outcome, state, value)"""
        cur = [st]
        outs = []
        for stmt in stmts:
            nxt = []
            if len(cur) > 1 and isinstance(stmt, (ast.For, ast.While)) and self.loop_spec(stmt)[0] is not None \
                    and not self.ghost_at.get(id(stmt)):
                cur = [self.merge_at_loop(stmt, cur)]
            for s in cur:
                try:
                    res = self.run_stmt_with_ghost(stmt, s)
                except PathEnd:
                    continue
                except RaiseSignal as rs:
                    res = [(RAISE, s, (rs.cls, rs.args_))]
                for kind, s2, val in res:
                    if kind == NORMAL:
                        nxt.append(s2)
                    else:
                        outs.append((kind, s2, val))
            cur = nxt
            if len(cur) > self.max_paths:
                raise OutOfSubset("path explosion (> %d live paths)" % self.max_paths, stmt)
            if not cur:
                break
        outs.extend((NORMAL, s, None) for s in cur)
        return outs

    def run_stmt_with_ghost(self, stmt, st):
        g = self.ghost_at.get(id(stmt))
        if g and g.get("before"):
            self.run_ghost(g["before"], st, stmt)
        res = self.run_stmt(stmt, st)
        if g and g.get("after"):
            for kind, s2, val in res:
                if kind == NORMAL:
                    self.run_ghost(g["after"], s2, stmt)
        return res

    def run_ghost(self, code, st, anchor):
        """Ghost statements (straight-line, may assert); run in contract mode."""
        save = (self.in_contract, self.cur_line)
        self.in_contract = True
        self.cur_line = getattr(anchor, "lineno", 0) + self.line_offset if anchor is not None else self.cur_line
        try:
            res = self.run_block(code, st)
            if len(res) != 1 or res[0][0] != NORMAL:
                live = [r for r in res if r[0] == NORMAL]
                if len(live) != 1:
                    raise ContractError("ghost code must be straight-line (got %d outcomes)" % len(res))
                res = live
            s2 = res[0][1]
            if s2 is not st:
                st.env, st.heap, st.pc, st.qf, st.terms = s2.env, s2.heap, s2.pc, s2.qf, s2.terms
        finally:
            self.in_contract, self.cur_line = save

    def run_stmt(self, stmt, st):
        m = getattr(self, "st_" + type(stmt).__name__, None)
        if m is None:
            raise OutOfSubset("statement %s" % type(stmt).__name__, stmt)
        return m(stmt, st)

    # ------------------------------------------------------------------
    def st_Pass(self, stmt, st):
        return [(NORMAL, st, None)]

    def st_Expr(self, stmt, st):
        if isinstance(stmt.value, ast.Constant):
            return [(NORMAL, st, None)]   # docstring
        self.ev(stmt.value, st)
        return [(NORMAL, st, None)]

    def st_Assert(self, stmt, st):
        if self.in_contract:
            self.check_clause(st, "assert", stmt.test, stmt)
            return [(NORMAL, st, None)]
        c = self.truth(self.ev(stmt.test, st), st)
        self.safety(st, "AssertionError", c, stmt)
        return [(NORMAL, st, None)]

    def check_clause(self, st, kind, expr, node, assume_after=True):
        """Obligation for a contract clause (possibly quantified)."""
        v = self.ev(expr, st)
        self.check_value(st, kind, v, node, assume_after)

    def check_value(self, st, kind, v, node, assume_after=True):
        if isinstance(v, VQconj):
            self.check_value(st, kind, VBool(v.plain), node, assume_after)
            self.check_value(st, kind, v.q, node, assume_after)
            return
        if isinstance(v, VQ):
            self.oblige(st, kind, v, node)
            if assume_after:
                st.qf.append(QFact(v.lo, v.hi, v.body, kind, v.sort, v.guard))
            return
        g = self.truth(v, st)
        self.oblige(st, kind, g, node)
        if assume_after:
            st.assume(g)

    def assume_clause(self, st, expr):
        v = self.ev(expr, st)
        self.assume_value(st, v)

    def assume_value(self, st, v):
        if isinstance(v, VQconj):
            st.assume(v.plain)
            st.qf.append(QFact(v.q.lo, v.q.hi, v.q.body, "assumed", v.q.sort, v.q.guard))
        elif isinstance(v, VQ):
            st.qf.append(QFact(v.lo, v.hi, v.body, "assumed", v.sort, v.guard))
        else:
            st.assume(self.truth(v, st))

    def st_Assign(self, stmt, st):
        v = self.ev(stmt.value, st)
        for t in stmt.targets:
            self.assign(t, v, st, stmt)
        return [(NORMAL, st, None)]

    def assign(self, t, v, st, node):
        if isinstance(t, ast.Name):
            if not self.in_contract and t.id in self.ghost_names:
                raise ContractError("program assigns ghost name %s" % t.id)
            if t.id in self.unit.var_kinds and self.unit.var_kinds[t.id] == "py" and not isinstance(v, VPy):
                v = VPy(z3.simplify(self.to_py(v)))
            st.env[t.id] = v
            return
        if isinstance(t, (ast.Tuple, ast.List)):
            items = None
            if isinstance(v, VTuple):
                items = v.items
            elif isinstance(v, VRef) and isinstance(st.heap[v.oid], HCList):
                items = st.heap[v.oid].items
            if items is None and isinstance(v, VRef) and isinstance(st.heap[v.oid], HList):
                c = st.heap[v.oid]
                self.safety(st, "ValueError", c.n == len(t.elts), node,
                            "unpacking needs exactly %d values" % len(t.elts))
                items = [wrap(c.ek, z3.Select(c.arr, i)) for i in range(len(t.elts))]
            if items is None or len(items) != len(t.elts):
                raise OutOfSubset("tuple unpacking of %r" % (v,), node)
            for x, y in zip(t.elts, items):
                self.assign(x, y, st, node)
            return
        if isinstance(t, ast.Attribute):
            base = self.ev(t.value, st)
            if isinstance(base, VOpt):
                self.safety(st, "AttributeError", z3.Not(base.isnone), node, "attribute store on None")
                base = base.val
            if isinstance(base, VRef) and isinstance(st.heap[base.oid], HObj):
                cell = st.heap[base.oid]
                if cell.cls == "Scope":
                    return self.scope_setattr(base, cell, t.attr, v, st, node)
                f = dict(cell.f)
                f[t.attr] = v
                st.heap[base.oid] = HObj(cell.cls, f)
                return
            raise OutOfSubset("attribute store on %r" % (base,), node)
        if isinstance(t, ast.Subscript):
            base = self.ev(t.value, st)
            if isinstance(t.slice, ast.Slice):
                raise OutOfSubset("slice assignment", node)
            idx = self.ev(t.slice, st)
            if isinstance(base, VRef):
                cell = st.heap[base.oid]
                if isinstance(cell, HOpaque):
                    return     # container the contract does not speak about
                if isinstance(cell, HDict):
                    st.env["tree_key"], st.env["tree_val"] = idx, v
                    if cell.items is not None and not is_lit_str(idx):
                        keys = z3.K(StrS, z3.BoolVal(False))
                        vals = z3.K(StrS, PyVal.pnone)
                        for k_, v_ in cell.items.items():
                            keys = z3.Store(keys, z3.StringVal(k_), True)
                            vals = z3.Store(vals, z3.StringVal(k_), self.to_py(v_))
                        cell = HDict("py", keys, vals, size=z3.IntVal(len(cell.items)))
                    if cell.items is not None:
                        if not is_lit_str(idx):
                            raise OutOfSubset("static dict store with symbolic key", node)
                        items = dict(cell.items)
                        items[idx.e.as_string()] = v
                        st.heap[base.oid] = HDict(items=items)
                    else:
                        k = self.want_str(idx, st, node)
                        size = None
                        if cell.size is not None:
                            size = z3.If(z3.Select(cell.keys, k), cell.size, cell.size + 1)
                        if isinstance(cell.ek, tuple):
                            comps = self.tuple_components(v, cell.ek, st, node)
                            vals = [z3.Store(a, k, c) for a, c in zip(cell.vals, comps)]
                        else:
                            vals = z3.Store(cell.vals, k, self.coerce(v, cell.ek, node))
                        st.heap[base.oid] = HDict(cell.ek, z3.Store(cell.keys, k, True), vals,
                                                  default=cell.default, size=size)
                    return
                if isinstance(cell, HCList):
                    k = self.conc(idx)
                    if k is not None and -len(cell.items) <= k < len(cell.items):
                        items = list(cell.items)
                        items[k] = v
                        st.heap[base.oid] = HCList(items)
                        return
                    cell = self.as_hlist(cell)
                if isinstance(cell, HList):
                    j = self.norm_index(idx.e, cell.n)
                    self.safety(st, "IndexError", z3.And(0 <= j, j < cell.n), node, "list assignment index out of range")
                    st.heap[base.oid] = HList(cell.ek, cell.n, z3.Store(cell.arr, j, self.coerce(v, cell.ek, node)))
                    return
                if isinstance(cell, HObj) and cell.cls == "Scope":
                    raise OutOfSubset("Scope item assignment", node)
                if isinstance(cell, HObj) and cell.cls == "Tree":
                    st.env["tree_key"], st.env["tree_val"] = idx, v
                    st.env["tree_path"] = cell.f.get("path", VStr(""))
                    return    # abstract store; the contract attaches a ghost event to this statement
            raise OutOfSubset("subscript store on %r" % (base,), node)
        raise OutOfSubset("assignment target %s" % type(t).__name__, node)

    def st_AugAssign(self, stmt, st):
        t = stmt.target
        if isinstance(t, ast.Name):
            cur = self.ev(ast.Name(id=t.id, ctx=ast.Load()), st)
        elif isinstance(t, ast.Attribute):
            cur = self.ev(ast.Attribute(value=t.value, attr=t.attr, ctx=ast.Load()), st)
        elif isinstance(t, ast.Subscript):
            cur = self.ev(ast.Subscript(value=t.value, slice=t.slice, ctx=ast.Load()), st)
        else:
            raise OutOfSubset("augassign target", stmt)
        rhs = self.ev(stmt.value, st)
        if isinstance(cur, VRef) and isinstance(st.heap[cur.oid], (HList, HCList)) and isinstance(stmt.op, ast.Add):
            # list += other : in-place extend
            self.container_method(cur, st.heap[cur.oid], "extend", st, stmt).fn(self, st, [rhs], {}, stmt)
            return [(NORMAL, st, None)]
        v = self.binop(stmt.op, cur, rhs, st, stmt)
        self.assign(t, v, st, stmt)
        return [(NORMAL, st, None)]

    def st_If(self, stmt, st):
        c = z3.simplify(self.ev_truth(stmt.test, st))
        outs = []
        arms = []
        for taken, body, tag in ((c, stmt.body, "t"), (z3.Not(c), stmt.orelse, "f")):
            if not self.branch_feasible(st, taken):
                continue
            s2 = st.fork()
            s2.assume(taken)
            s2.trail.append(tag)
            res = self.run_block(body, s2)
            arms.append(res)
            outs.extend(res)
        if self.unit.merge_ifs and len(arms) == 2 and all(len(a) == 1 and a[0][0] == NORMAL for a in arms):
            try:
                return [(NORMAL, self.merge_two(st, c, arms[0][0][1], arms[1][0][1]), None)]
            except OutOfSubset:
                pass
        return outs

    def merge_two(self, base, c, a, b):
        """join of the two arms of an if: values that differ become If(c, va, vb); facts become implications"""
        m = base.fork()
        m.trail = list(base.trail) + ["j"]
        n0 = len(base.pc)
        m.pc = list(base.pc) + [z3.Implies(c, x) for x in a.pc[n0:] if not (x.eq(c))] + \
            [z3.Implies(z3.Not(c), x) for x in b.pc[n0:] if not x.eq(z3.Not(c))]
        qa = [q for q in a.qf if q not in base.qf]
        qb = [q for q in b.qf if q not in base.qf]
        m.qf = list(base.qf) + [QFact(q.lo, q.hi, (lambda i, q=q: z3.Implies(c, q.body(i))), q.label, q.sort, q.guard) for q in qa] + \
            [QFact(q.lo, q.hi, (lambda i, q=q: z3.Implies(z3.Not(c), q.body(i))), q.label, q.sort, q.guard) for q in qb]
        m.terms = list(a.terms) + [t for t in b.terms if all(not t.eq(u) for u in a.terms)]
        m.heap = dict(a.heap)
        for oid, cb in b.heap.items():
            ca = a.heap.get(oid)
            if ca is None:
                m.heap[oid] = cb
            elif not self.same_cell(ca, cb):
                m.heap[oid] = self.ite_cell(c, ca, cb, m)
        m.env = {}
        for nm in set(a.env) & set(b.env):
            va, vb = a.env[nm], b.env[nm]
            m.env[nm] = va if self.same_val(va, vb) else self.ite(c, va, vb, m, None)
        return m

    def ite_cell(self, c, ca, cb, st):
        if isinstance(ca, (HList, HCList)) and isinstance(cb, (HList, HCList)):
            if isinstance(ca, HCList) and isinstance(cb, HCList) and len(ca.items) == len(cb.items):
                return HCList([x if self.same_val(x, y) else self.ite(c, x, y, st, None) for x, y in zip(ca.items, cb.items)])
            la, lb = self.as_hlist(ca), self.as_hlist(cb)
            if isinstance(ca, HCList) and not ca.items:
                la = HList(lb.ek, la.n, lb.arr)
            if isinstance(cb, HCList) and not cb.items:
                lb = HList(la.ek, lb.n, la.arr)
            if la.ek != lb.ek:
                raise OutOfSubset("merge of lists of different kinds")
            return HList(la.ek, z3.If(c, la.n, lb.n), z3.If(c, la.arr, lb.arr))
        if isinstance(ca, HObj) and isinstance(cb, HObj) and ca.cls == cb.cls and set(ca.f) == set(cb.f):
            return HObj(ca.cls, dict((k, ca.f[k] if self.same_val(ca.f[k], cb.f[k]) else self.ite(c, ca.f[k], cb.f[k], st, None)) for k in ca.f))
        if isinstance(ca, HDict) and isinstance(cb, HDict) and ca.items is None and cb.items is None and ca.ek == cb.ek \
                and not isinstance(ca.ek, tuple):
            size = z3.If(c, ca.size, cb.size) if ca.size is not None and cb.size is not None else None
            return HDict(ca.ek, z3.If(c, ca.keys, cb.keys), z3.If(c, ca.vals, cb.vals), default=ca.default, size=size)
        raise OutOfSubset("cannot merge cells %r / %r" % (ca, cb))

    def st_Return(self, stmt, st):
        v = self.ev(stmt.value, st) if stmt.value is not None else VNone()
        return [(RET, st, v)]

    def st_Break(self, stmt, st):
        return [(BREAK, st, None)]

    def st_Continue(self, stmt, st):
        return [(CONT, st, None)]

    def st_Raise(self, stmt, st):
        cls = "?"
        args = []
        if stmt.exc is not None:
            e = stmt.exc
            if isinstance(e, ast.Call) and isinstance(e.func, ast.Name):
                cls = e.func.id
                # evaluate the message: its construction can itself fail (TypeError in formatting)
                try:
                    args = [self.ev(a, st) for a in e.args]
                except OutOfSubset:
                    args = []
            elif isinstance(e, ast.Name):
                cls = e.id
        return [(RAISE, st, (cls, args))]

    IMPLICIT_EXC = ("AttributeError", "TypeError", "KeyError", "IndexError", "ValueError", "ZeroDivisionError",
                    "LookupError", "ArithmeticError", "Exception", "BaseException")

    def st_Try(self, stmt, st):
        """try/except over EXPLICIT raises (raise statements, callee contracts that raise).  Implicit exceptions are
        obligations or assumptions in this engine, never control flow: a handler that could catch one is out of subset."""
        if stmt.finalbody:
            raise OutOfSubset("try/finally", stmt)
        names = []
        for h in stmt.handlers:
            if h.type is None:
                raise OutOfSubset("bare except", stmt)
            ts = h.type.elts if isinstance(h.type, ast.Tuple) else [h.type]
            for t in ts:
                if not isinstance(t, ast.Name):
                    raise OutOfSubset("except with a computed class", stmt)
                if t.id in self.IMPLICIT_EXC:
                    raise OutOfSubset("except %s: implicit exceptions are not control flow here" % t.id, stmt)
            names.append([t.id for t in ts])
        outs = []
        for kind, s2, val in self.run_block(stmt.body, st):
            if kind == RAISE:
                hit = next((h for h, ns in zip(stmt.handlers, names) if val[0] in ns), None)
                if hit is not None:
                    if hit.name:
                        s2.env[hit.name] = s2.alloc(HOpaque())
                    outs.extend(self.run_block(hit.body, s2))
                    continue
                outs.append((kind, s2, val))
            elif kind == NORMAL and stmt.orelse:
                outs.extend(self.run_block(stmt.orelse, s2))
            else:
                outs.append((kind, s2, val))
        return outs

    def st_With(self, stmt, st):
        if len(stmt.items) != 1:
            raise OutOfSubset("with (several items)", stmt)
        it = stmt.items[0]
        ce = it.context_expr
        if not (isinstance(ce, ast.Call) and isinstance(ce.func, ast.Name) and ce.func.id == "open"):
            raise OutOfSubset("with on something other than open()", stmt)
        for a in ce.args:
            self.ev(a, st)
        if "filelines" not in st.env:
            raise ContractError("unit opens a file: declare the param 'filelines'")
        out = st.alloc(HList("str", z3.IntVal(0), z3.K(IntS, z3.StringVal(""))))
        fobj = st.alloc(HObj("file", {"out": out, "lines": st.env["filelines"]}))
        if it.optional_vars is not None:
            self.assign(it.optional_vars, fobj, st, stmt)
        self.assumptions.add("open()/readlines(): the file content is an arbitrary list of strings (param filelines); I/O errors not modelled")
        return self.run_block(stmt.body, st)

    def st_Delete(self, stmt, st):
        # del d[k] on a symbolic string-keyed dict
        if len(stmt.targets) == 1 and isinstance(stmt.targets[0], ast.Subscript) and not isinstance(stmt.targets[0].slice, ast.Slice):
            t = stmt.targets[0]
            base = self.ev(t.value, st)
            idx = self.ev(t.slice, st)
            if isinstance(base, VRef) and isinstance(st.heap[base.oid], HDict) and st.heap[base.oid].items is None:
                cell = st.heap[base.oid]
                k = self.want_str(idx, st, stmt)
                self.safety(st, "KeyError", z3.Select(cell.keys, k), stmt, "del of a missing key")
                size = None if cell.size is None else cell.size - 1
                st.heap[base.oid] = HDict(cell.ek, z3.Store(cell.keys, k, False), cell.vals, default=cell.default, size=size)
                return [(NORMAL, st, None)]
        raise OutOfSubset("del", stmt)

    def st_Try(self, stmt, st):
        """try/except on named classes.  Explicit raises in the body are routed to matching handlers.
        Implicit exceptions of a handled class turn the *safety* condition into a branch."""
        handled = []
        for h in stmt.handlers:
            if h.type is None:
                handled.append("*")
            elif isinstance(h.type, ast.Name):
                handled.append(h.type.id)
            else:
                raise OutOfSubset("except clause", stmt)
        if stmt.finalbody:
            raise OutOfSubset("try/finally", stmt)
        saved = self.raises_ok
        self.raises_ok = set(saved) | set(handled)
        self.try_depth.append((handled, []))
        try:
            res = self.run_block(stmt.body, st)
        finally:
            self.raises_ok = saved
            _, implicit = self.try_depth.pop()
        outs = []
        for kind, s2, val in res:
            if kind == RAISE and (val[0] in handled or "*" in handled):
                h = stmt.handlers[handled.index(val[0]) if val[0] in handled else handled.index("*")]
                outs.extend(self.run_block(h.body, s2))
            elif kind == NORMAL and stmt.orelse:
                outs.extend(self.run_block(stmt.orelse, s2))
            else:
                outs.append((kind, s2, val))
        for (cls, s3) in implicit:
            h = stmt.handlers[handled.index(cls) if cls in handled else handled.index("*")]
            outs.extend(self.run_block(h.body, s3))
        return outs

    # ------------------------------------------------------------------ loops
    def loop_spec(self, stmt):
        ordn = self.loop_ord.get(id(stmt))
        return self.unit.loops.get(ordn), ordn

    def st_For(self, stmt, st):
        spec, ordn = self.loop_spec(stmt)
        enum = False
        dict_items = False
        if isinstance(stmt.iter, ast.Call) and isinstance(stmt.iter.func, ast.Name) and stmt.iter.func.id == "enumerate" \
                and len(stmt.iter.args) == 1:
            it = self.ev(stmt.iter.args[0], st)
            enum = True
        elif isinstance(stmt.iter, ast.Call) and isinstance(stmt.iter.func, ast.Attribute) and stmt.iter.func.attr == "items" \
                and not stmt.iter.args and not stmt.iter.keywords:
            it = self.ev(stmt.iter.func.value, st)
            if not (isinstance(it, VRef) and isinstance(st.heap[it.oid], HDict) and st.heap[it.oid].items is None
                    and not isinstance(st.heap[it.oid].ek, tuple)):
                raise OutOfSubset(".items() of %r" % (it,), stmt)
            dict_items = True
        else:
            it = self.ev(stmt.iter, st)
        # static iteration: unroll
        items = None
        if isinstance(it, VTuple) and not (it.items and is_lit_str(it.items[0]) and it.items[0].e.as_string() == "$range"):
            items = it.items
        elif isinstance(it, VRef) and isinstance(st.heap[it.oid], HCList) and (
                spec is None or not st.heap[it.oid].items or any(isinstance(x, VRef) for x in st.heap[it.oid].items)):
            items = st.heap[it.oid].items   # static list (always unrolled when it holds object references)
            spec = None
        elif isinstance(it, VStr) and z3.is_string_value(it.e) and spec is None:
            items = [VStr(c) for c in it.e.as_string()]
        if items is not None and spec is None:
            cur = [st]
            outs = []
            for xi, x in enumerate(items):
                if enum:
                    x = VTuple([VInt(xi), x])
                nxt = []
                for s in cur:
                    self.assign(stmt.target, x, s, stmt)
                    for kind, s2, val in self.run_block(stmt.body, s):
                        if kind in (NORMAL, CONT):
                            nxt.append(s2)
                        elif kind == BREAK:
                            outs.append((NORMAL, s2, None))
                        else:
                            outs.append((kind, s2, val))
                cur = nxt
            outs.extend((NORMAL, s, None) for s in cur)
            if stmt.orelse:
                raise OutOfSubset("for/else", stmt)
            return outs
        if spec is None:
            raise ContractError("loop %s at line %d needs an invariant" % (ordn, stmt.lineno + self.line_offset))
        if stmt.orelse:
            raise OutOfSubset("for/else", stmt)
        # sequence view
        if isinstance(it, VStr):
            n = z3.Length(it.e)
            elem = lambda k: VStr(z3.SubString(it.e, k, 1))
        elif isinstance(it, VRef) and isinstance(st.heap[it.oid], HDict) and st.heap[it.oid].items is None:
            # iteration over the keys of a symbolic dict: an arbitrary finite list of its keys (order irrelevant to
            # every contract that uses this); keys are non-empty strings (attribute names are identifiers)
            d = st.heap[it.oid]
            n = z3.Int(fresh_name("nkeys"))
            karr = z3.Array(fresh_name("keys"), IntS, StrS)
            st.assume(n >= 0)
            st.qf.append(QFact(z3.IntVal(0), n, lambda i, d=d, karr=karr: z3.And(
                z3.Select(d.keys, z3.Select(karr, i)), z3.Length(z3.Select(karr, i)) >= 1), "dict-keys"))
            self.assumptions.add("iteration over a dict: an arbitrary list of its keys; keys are non-empty strings")
            elem = lambda k, karr=karr: VStr(z3.Select(karr, k))
            if getattr(self.unit, "dict_iter_complete", False):
                # the list enumerates EVERY key: ITERIDX is the (Skolem) position of a key in it.  The contract can then
                # say "the keys visited so far" as ITERIDX(x) < index
                from .values import ITERIDX
                if getattr(self, "_iteridx_used", None) not in (None, id(stmt)):
                    raise OutOfSubset("two complete dict enumerations in one unit", stmt)
                self._iteridx_used = id(stmt)
                st.qf.append(QFact(None, None, lambda x, n=n, karr=karr: z3.And(
                    0 <= ITERIDX(x), ITERIDX(x) < n, z3.Select(karr, ITERIDX(x)) == x), "dict-keys-complete",
                    sort="str", guard=lambda x, d=d: z3.Select(d.keys, x)))
            if dict_items:
                # d.items(): the value is the one stored at loop entry (mutating the dict while iterating over it is a
                # RuntimeError in Python: assumed not to happen; the contracts declare d and the written dict distinct)
                self.assumptions.add("d.items(): d is not mutated inside the loop")
                elem = lambda k, karr=karr, d=d: VTuple([VStr(z3.Select(karr, k)), wrap(d.ek, z3.Select(d.vals, z3.Select(karr, k)))])
        elif isinstance(it, VRef) and isinstance(st.heap[it.oid], HRecList):
            rl = st.heap[it.oid]
            n = rl.n
            elem = lambda k, rl=rl: None
            self._reclist_iter = rl
        elif isinstance(it, VRef):
            cell = self.as_hlist(st.heap[it.oid])
            n = cell.n
            elem = lambda k: wrap(cell.ek, z3.Select(cell.arr, k))
        elif isinstance(it, VTuple):   # range
            lo, hi = it.items[1].e, it.items[2].e
            n = z3.If(hi - lo > 0, hi - lo, 0)
            elem = lambda k: VInt(lo + k)
        else:
            raise OutOfSubset("iteration over %r" % (it,), stmt)
        idx = spec.get("index", "_k%d" % ordn)
        if enum:
            elem0 = elem
            elem = lambda k: VTuple([VInt(k), elem0(k)])
        return self.cut_loop(stmt, st, spec, ordn, idx=idx, n=n, elem=elem, seqval=it)

    def st_While(self, stmt, st):
        spec, ordn = self.loop_spec(stmt)
        if spec is None:
            raise ContractError("loop %s at line %d needs an invariant" % (ordn, stmt.lineno + self.line_offset))
        if stmt.orelse:
            raise OutOfSubset("while/else", stmt)
        return self.cut_loop(stmt, st, spec, ordn)

    def havoc(self, st, stmt, spec, extra_names=()):
        body = list(stmt.body)
        ghost_code = []
        for s in ast.walk(stmt):
            g = self.ghost_at.get(id(s))
            if g:
                ghost_code += g.get("before", []) + g.get("after", [])
        ghost_code += spec.get("_head", []) + spec.get("_end", [])
        names, muts, attrs = assigned_names(body + ghost_code)
        names |= set(extra_names)
        # calls through contracts: the receiver of a method that has a contract, and every name passed to a callee that
        # has a contract, may be modified by it
        pure = set(getattr(self.unit, "pure_callees", ()))     # contracts that modify neither receiver nor arguments
        cmethods = set(m for (_, m) in self.method_contracts) - pure
        gnames = set(self.unit.global_callees) - pure
        by_unit = dict((m, cu) for (_, m), cu in self.unit.callee_units.items())
        for s_ in body:
            for n_ in ast.walk(s_):
                if isinstance(n_, ast.Call):
                    f_ = n_.func
                    if isinstance(f_, ast.Attribute) and f_.attr in cmethods and f_.attr in by_unit:
                        # a callee under contract changes exactly what its modifies clause names
                        cu = by_unit[f_.attr]
                        pnames = [p_ for p_ in cu.params if p_ != "self" and p_ not in cu.ghost_params
                                  and not (isinstance(cu.params[p_], tuple) and cu.params[p_][0] == "obj"
                                           and str(cu.params[p_][1]).startswith("module:"))]
                        for m_ in cu.modifies:
                            root, _, rest = m_.partition(".")
                            if root == "self":
                                muts.add(ast.unparse(f_.value) + ("." + rest if rest else ""))
                            elif root in pnames:
                                i_ = pnames.index(root)
                                a_ = n_.args[i_] if i_ < len(n_.args) else next((k.value for k in n_.keywords if k.arg == root), None)
                                if isinstance(a_, (ast.Name, ast.Attribute)):
                                    muts.add(ast.unparse(a_) + ("." + rest if rest else ""))
                        continue
                    if isinstance(f_, ast.Attribute) and f_.attr in cmethods:
                        muts.add(ast.unparse(f_.value))
                        for a_ in n_.args:
                            if isinstance(a_, (ast.Name, ast.Attribute)):
                                muts.add(ast.unparse(a_))
                    if isinstance(f_, ast.Name) and f_.id in gnames:
                        for a_ in n_.args:
                            if isinstance(a_, (ast.Name, ast.Attribute)):
                                muts.add(ast.unparse(a_))
        st._none_names = []
        for nm in sorted(names):
            if nm in st.env:
                if isinstance(st.env[nm], VNone) and nm not in self.ghost_names:
                    # None before the loop, assigned in it: the kind of the other values is found by the discovery run
                    # (the variable becomes Optional[kind]); keeping it None would make the branches that test it dead
                    del st.env[nm]
                    st._none_names.append(nm)
                    continue
                st.env[nm] = self.fresh_like(st.env[nm], st, nm)
            # names first bound inside the loop stay unbound after havoc
        for m in sorted(muts):
            try:
                v = self.ev(ast.parse(m, mode="eval").body, st)
            except OutOfSubset:
                continue
            if isinstance(v, VRef):
                st.heap[v.oid] = self.fresh_cell(st.heap[v.oid], st, m)
        for a in sorted(attrs):
            node = ast.parse(a, mode="eval").body
            try:
                base = self.ev(node.value, st)
            except OutOfSubset:
                continue
            if isinstance(base, VRef) and isinstance(st.heap[base.oid], HObj):
                cell = st.heap[base.oid]
                if node.attr in cell.f:
                    f = dict(cell.f)
                    f[node.attr] = self.fresh_like(cell.f[node.attr], st, node.attr)
                    st.heap[base.oid] = HObj(cell.cls, f)

    def fresh_like(self, v, st, nm):
        if nm in self.unit.var_kinds:
            return fresh(self.unit.var_kinds[nm], nm)
        if isinstance(v, (VInt, VStr, VBool, VPy)):
            return fresh(v.kind, nm)
        if isinstance(v, VNone):
            return v
        if isinstance(v, VOpt):
            return VOpt(z3.Bool(fresh_name(nm + "_none")), self.fresh_like(v.val, st, nm))
        if isinstance(v, VTuple):
            return VTuple([self.fresh_like(x, st, nm) for x in v.items])
        if isinstance(v, VRef):
            # rebinding a name to another object inside a loop: a fresh cell of the same shape
            return st.alloc(self.fresh_cell(st.heap[v.oid], st, nm))
        raise OutOfSubset("cannot havoc %r" % (v,))

    def fresh_cell(self, cell, st, nm):
        if isinstance(cell, HOpaque):
            return cell
        if isinstance(cell, HCList) and any(isinstance(x, (VRef, VTuple, VNone, VOpt)) for x in cell.items):
            return HOpaque()
        if isinstance(cell, (HList, HCList)) and self.unit.list_kinds.get(nm) == "opaque":
            return HOpaque()      # a list of objects the contract does not speak about
        if isinstance(cell, (HList, HCList)):
            c = self.as_hlist(cell, ek=self.unit.list_kinds.get(nm, "str"))
            n = z3.Int(fresh_name(nm + "_len"))
            st.assume(n >= 0)
            return HList(c.ek, n, z3.Array(fresh_name(nm + "_arr"), IntS, SORTS[c.ek]))
        if isinstance(cell, HObj):
            if cell.cls == "Tree":
                return HObj("Tree", {"path": fresh("str", nm + "_path")})     # some node of the tree: its path is unknown
            if cell.cls == "file":
                f = dict(cell.f)
                f["out"] = self.fresh_like(cell.f["out"], st, "out")
                return HObj("file", f)
            return HObj(cell.cls, dict((k, self.fresh_like(v, st, k)) for k, v in cell.f.items()))
        if isinstance(cell, HDict) and cell.items is None:
            return self.fresh_dict(cell.ek, nm, st, cell.default, cell.size is not None)
        if isinstance(cell, HDict):
            return self.fresh_dict("py", nm, st, False, True)     # a dict literal that is filled in a loop
        raise OutOfSubset("cannot havoc cell %r" % (cell,))

    def merge_at_loop(self, stmt, states):
        """Several paths reach a loop that has an invariant: establish the invariant on each of them, then go on
        with ONE state that keeps only what all paths agree on (everything else is havocked).  Sound
        over-approximation; what the loop needs from the prefix must be in its invariant."""
        spec, ordn = self.loop_spec(stmt)
        tag = "L%d" % ordn
        idx = spec.get("index", "_k%d" % ordn) if isinstance(stmt, ast.For) else None
        for s in states:
            s2 = s.fork()
            if idx:
                s2.env[idx] = VInt(0)
            self.discover_loop_locals(stmt, s2, False, None, None)
            self.with_clauses(s2, "inv-entry", spec.get("inv", []), stmt, tag, assume_after=False)
        m = states[0].fork()
        common = None
        for s in states:
            ids = set(e.get_id() for e in s.pc)
            common = ids if common is None else common & ids
        m.pc = [e for e in states[0].pc if e.get_id() in common]
        qids = None
        for s in states:
            ids = set(id(q) for q in s.qf)
            qids = ids if qids is None else qids & ids
        m.qf = [q for q in states[0].qf if id(q) in qids]
        tids = None
        for s in states:
            ids = set(t.get_id() for t in s.terms)
            tids = ids if tids is None else tids & ids
        m.terms = [t for t in states[0].terms if t.get_id() in tids]
        k = 0
        while all(len(s.trail) > k and s.trail[k] == states[0].trail[k] for s in states):
            k += 1
        m.trail = states[0].trail[:k] + ["M"]
        # heap cells first (same oid, different content -> fresh)
        for oid in list(m.heap):
            cells = [s.heap.get(oid) for s in states]
            if any(c is None for c in cells) or not all(self.same_cell(cells[0], c) for c in cells[1:]):
                m.heap[oid] = self.fresh_cell(cells[0], m, "m%d" % oid)
        for nm in list(m.env):
            vals = [s.env.get(nm) for s in states]
            if any(v is None for v in vals):
                del m.env[nm]
                continue
            if not all(self.same_val(vals[0], v) for v in vals[1:]):
                m.env[nm] = self.fresh_like(vals[0], m, nm)
        m.merged_entry_done = id(stmt)
        return m

    def same_val(self, a, b):
        if type(a) is not type(b):
            return False
        if isinstance(a, (VInt, VStr, VBool, VPy)):
            return a.e.eq(b.e)
        if isinstance(a, VNone):
            return True
        if isinstance(a, VRef):
            return a.oid == b.oid
        if isinstance(a, VTuple):
            return len(a.items) == len(b.items) and all(self.same_val(x, y) for x, y in zip(a.items, b.items))
        if isinstance(a, VOpt):
            return a.isnone.eq(b.isnone) and self.same_val(a.val, b.val)
        return a is b

    def same_cell(self, a, b):
        if type(a) is not type(b):
            return False
        if isinstance(a, HList):
            return a.ek == b.ek and a.n.eq(b.n) and a.arr.eq(b.arr)
        if isinstance(a, HCList):
            return len(a.items) == len(b.items) and all(self.same_val(x, y) for x, y in zip(a.items, b.items))
        if isinstance(a, HObj):
            return a.cls == b.cls and set(a.f) == set(b.f) and all(self.same_val(a.f[k], b.f[k]) for k in a.f)
        if isinstance(a, HDict):
            if a.items is not None or b.items is not None:
                return a.items is not None and b.items is not None and set(a.items) == set(b.items) and \
                    all(self.same_val(a.items[k], b.items[k]) for k in a.items)
            return a.keys.eq(b.keys) and a.vals.eq(b.vals)
        return a is b

    def discover_loop_locals(self, stmt, h, is_for, elem, k):
        names, _, _ = assigned_names(stmt.body)
        missing = [nm for nm in sorted(names) if nm not in h.env and nm not in self.ghost_names]
        if not missing or getattr(self, "_discovering", False):
            return
        self._discovering = True
        saved = (self.obligs, self.trivial, self.in_contract, dict(self.ghost_at))
        self.obligs = []
        self.ghost_at = {}
        kinds = {}
        try:
            for _round in range(3):
                d = h.fork()
                for nm, v in kinds.items():
                    if nm not in d.env:
                        d.env[nm] = v
                for nm in getattr(h, "_none_names", []):
                    if nm not in d.env:
                        d.env[nm] = VNone()      # None before the loop: the discovery run starts from that value
                try:
                    if is_for:
                        ev_ = elem(k)
                        if ev_ is None:
                            ev_ = self._reclist_iter.elem(k, d)
                        self.assign(stmt.target, ev_, d, stmt)
                    outs = self.run_block_tolerant(stmt.body, d)
                except (OutOfSubset, ContractError, PathEnd, RaiseSignal):
                    outs = []
                new = False
                for s2 in outs:
                    for nm in missing:
                        if nm in s2.env and nm not in kinds and not isinstance(s2.env[nm], VNone):
                            try:
                                v_ = s2.env[nm]
                                if isinstance(v_, VRef):
                                    kinds[nm] = h.alloc(self.fresh_cell(s2.heap[v_.oid], h, nm))
                                else:
                                    kinds[nm] = self.fresh_like(v_, h, nm)
                                new = True
                            except OutOfSubset:
                                pass
                if not new:
                    break
        finally:
            self.obligs, self.trivial, self.in_contract, self.ghost_at = saved[0], saved[1], saved[2], saved[3]
            self._discovering = False
        for nm, v in kinds.items():
            if nm not in h.env:
                h.env[nm] = v
        if kinds:
            self.assumptions.add("locals first bound inside a loop (%s) are arbitrary values of their kind at the loop "
                                 "head; UnboundLocalError is not modelled" % ", ".join(sorted(kinds)))

    def run_block_tolerant(self, stmts, st):
        """like run_block but a path that hits an unmodelled construct is dropped (discovery only); -> states"""
        cur = [st]
        done = []
        for stmt in stmts:
            nxt = []
            for s in cur:
                try:
                    if isinstance(stmt, ast.If):
                        c = z3.simplify(self.ev_truth(stmt.test, s))
                        for taken, body in ((c, stmt.body), (z3.Not(c), stmt.orelse)):
                            s2 = s.fork()
                            s2.assume(taken)
                            nxt.extend(self.run_block_tolerant(body, s2))
                        continue
                    if isinstance(stmt, (ast.For, ast.While)):
                        nxt.append(s)      # nested loops are skipped in discovery
                        continue
                    if isinstance(stmt, (ast.Continue, ast.Break, ast.Return, ast.Raise)):
                        done.append(s)
                        continue
                    for kind, s2, val in self.run_stmt(stmt, s):
                        (nxt if kind == NORMAL else done).append(s2)
                except (OutOfSubset, ContractError, PathEnd, RaiseSignal):
                    done.append(s)
            cur = nxt
        return done + cur

    def fresh_dict(self, ek, nm, st, default=False, sized=False):
        keys = z3.Array(fresh_name(nm + "_keys"), StrS, BoolS)
        if isinstance(ek, tuple):
            vals = [z3.Array(fresh_name("%s_vals%d" % (nm, i)), StrS, SORTS[k]) for i, k in enumerate(ek[1:])]
        else:
            vals = z3.Array(fresh_name(nm + "_vals"), StrS, SORTS[ek])
        size = None
        if sized:
            size = z3.Int(fresh_name(nm + "_size"))
            st.assume(size >= 0)
        return HDict(ek, keys, vals, default=default, size=size)

    def tuple_components(self, v, ek, st, node):
        if not isinstance(v, VTuple) or len(v.items) != len(ek) - 1:
            raise OutOfSubset("storing %r into dict of %r" % (v, ek), node)
        out = []
        for x, k in zip(v.items, ek[1:]):
            if k == "liststr":
                out.append(self.list_id(x, st, node))
            else:
                out.append(self.coerce(x, k, node))
        return out

    def list_id(self, x, st, node):
        """an immutable symbolic list value for a heap list stored inside a dict"""
        if isinstance(x, VOpt):
            x = x.val
        if not isinstance(x, VRef):
            raise OutOfSubset("expected a list, got %r" % (x,), node)
        c = self.as_hlist(st.heap[x.oid])
        lid = z3.Int(fresh_name("listid"))
        st.assume(z3.And(SL_LEN(lid) == c.n, SL_ARR(lid) == c.arr))
        return lid

    def cut_loop(self, stmt, st, spec, ordn, idx=None, n=None, elem=None, seqval=None):
        invs = spec.get("inv", [])
        tag = "L%d" % ordn
        is_for = idx is not None
        # 1. entry
        if is_for:
            st.env[idx] = VInt(0)
        self.discover_loop_locals(stmt, st, is_for, elem, z3.IntVal(0) if is_for else None)
        if getattr(st, "merged_entry_done", None) != id(stmt):
            self.with_clauses(st, "inv-entry", invs, stmt, tag, assume_after=False)
        # 2. havoc + assume invariant
        h = st.fork()
        self.havoc(h, stmt, spec, extra_names=[idx] if is_for else [])
        for pn, pspec in self.unit.prebind.items():
            if pn not in h.env:
                h.env[pn] = self.make_value(pspec, h, pn)
        if is_for:
            k = z3.Int(fresh_name(idx))
            h.env[idx] = VInt(k)
            h.assume(z3.And(0 <= k, k <= n))
            h.terms.append(k)
        # loop-carried locals first bound inside the loop: discover their kind by a throw-away run of the body and
        # bind them to arbitrary values of that kind (UnboundLocalError itself is not modelled)
        self.discover_loop_locals(stmt, h, is_for, elem, k if is_for else None)
        for nm in getattr(h, "_none_names", []):
            v = h.env.get(nm)
            if v is None or isinstance(v, VNone):
                h.env[nm] = VNone()
            elif not isinstance(v, VOpt):
                h.env[nm] = VOpt(z3.Bool(fresh_name(nm + "_isnone")), v)
        for e in invs:
            self.in_contract = True
            try:
                self.assume_clause(h, e)
            finally:
                self.in_contract = False
        outs = []
        # 3. body
        b = h.fork()
        b.trail.append(tag + "b")
        if is_for:
            b.assume(k < n)
            ev_ = elem(k)
            if ev_ is None:
                ev_ = self._reclist_iter.elem(k, b)
            self.assign(stmt.target, ev_, b, stmt)
            if isinstance(seqval, VStr):
                # valid string fact: s[:k+1] == s[:k] + s[k]   (hint; theorem of the theory)
                b.assume(z3.SubString(seqval.e, 0, k + 1) == z3.Concat(z3.SubString(seqval.e, 0, k), z3.SubString(seqval.e, k, 1)))
                self.known_chars.add(z3.SubString(seqval.e, k, 1))
            feasible = True
        else:
            c = self.ev_truth(stmt.test, b)
            feasible = self.branch_feasible(b, c)
            b.assume(c)
        if feasible:
            dec0 = None
            if spec.get("decreases") is not None:
                dec0 = self.ev_contract(spec["decreases"], b).e
            if spec.get("_head"):
                self.run_ghost(spec["_head"], b, stmt)
            for kind, s2, val in self.run_block(stmt.body, b):
                if kind in (NORMAL, CONT):
                    if spec.get("_end"):
                        self.run_ghost(spec["_end"], s2, stmt)
                    if is_for:
                        s2.env[idx] = VInt(k + 1)
                        s2.terms.append(k + 1)
                    self.with_clauses(s2, "inv-preserve", invs, stmt, tag, assume_after=False)
                    if dec0 is not None:
                        d1 = self.ev_contract(spec["decreases"], s2).e
                        self.in_contract = True
                        self.cur_line = stmt.lineno + self.line_offset
                        self.oblige(s2, "decreases", z3.And(d1 < dec0, dec0 >= 0), stmt)
                        self.in_contract = False
                elif kind == BREAK:
                    outs.append((NORMAL, s2, None))
                else:
                    outs.append((kind, s2, val))
        # 4. exit
        x = h.fork()
        x.trail.append(tag + "x")
        if is_for:
            x.assume(k == n)
            if isinstance(seqval, VStr):
                x.assume(z3.SubString(seqval.e, 0, k) == seqval.e)
            ok = True
        else:
            c = self.ev_truth(stmt.test, x)
            ok = self.branch_feasible(x, z3.Not(c))
            x.assume(z3.Not(c))
        if ok:
            outs.append((NORMAL, x, None))
        return outs

    def with_clauses(self, st, kind, exprs, stmt, tag, assume_after):
        save = (self.in_contract, self.cur_line, self.ctag)
        self.in_contract = True
        self.cur_line = stmt.lineno + self.line_offset
        try:
            for i, e in enumerate(exprs):
                self.ctag = "%s.%d" % (tag, i)
                s2 = st.fork()   # clause evaluation may add definitional facts; keep them local
                self.check_clause(s2, kind, e, stmt, assume_after=False)
        finally:
            self.in_contract, self.cur_line, self.ctag = save

    def ev_contract(self, expr, st):
        save = self.in_contract
        self.in_contract = True
        try:
            return self.ev(expr, st)
        finally:
            self.in_contract = save
